"""Contracts for py_stringsimjoin/filter/filter_utils.py  (arithmetic core: A1-A4, A6).

For every measure the four formulas are proved, in the float model of pyvc/fp.py,
to be *safe*: whenever two token sets of sizes (a, b) with overlap o satisfy the
threshold (raw double and 4-decimal rounded, C01's `satisfies`), the size window,
the prefix length and the required overlap computed by the real code admit them.
The quantification over o and the other size is universal (skolemised when
proving); sizes range over [0, 2^31], thresholds over all reals of the valid range.

Call sites see `result == lb_M(x, t)` etc. (the formulas are deterministic functions
of their arguments); the universally quantified safety theorems proved here are
re-stated for callers in contracts/theorems.py, keyed to the obligations below.
"""
import collections
from fractions import Fraction
import z3
from pyvc.types import *  # noqa
from pyvc.values import V, vstr, vint, fresh_name
from pyvc.contract import Case, LoopSpec, ObjSpec, register
from pyvc import fp as FP
from pyvc import spec as S
from pyvc.lemmas import inst, TLOW

Q = 'py_stringsimjoin.filter.filter_utils.'
TOK = ObjSpec('Tokenizer', qval=INT, return_set=BOOL)
OD = collections.OrderedDict
SETM = S.SET_MEASURES


def R_(x):
    return z3.ToReal(x) if z3.is_int(x) else x


def rv(x):
    return z3.RealVal(Fraction(x))


def size_ok(n):
    return z3.And(n >= 0, n <= S.MAXTOK)


def valid_threshold(M, t):
    if M in SETM:
        return z3.And(t > 0, t <= 1)
    if M == 'OVERLAP':
        return t > 0
    return t >= 0


# -----------------------------------------------------------------------------
# lemma instances (hints).  `log` is the float log of the path being proved; code-side
# intermediate values are looked up structurally (log.find), never by position.

def sim_instances(M, t, o, a, b, tm):
    """Instances shared by all formulas of measure M (none needed beyond the big lemmas,
    except the cosine step)."""
    if M == 'COSINE':
        return [inst('cos_step', t, tm['qs'], o, a, b, tm['Sa'], tm['Sb'], tm['sa'], tm['sb'], tm['d']),
                inst('mul_lower', tm['sa'], tm['sb'], rv(Fraction(1, 2)), rv(Fraction(1, 2))),
                inst('sqrt_lower', tm['Sa'], R_(a), rv(1)), inst('sqrt_lower', tm['Sb'], R_(b), rv(1))]
    return []


def low_instances(M, log, t, o, a, b, tm, x):
    """lower bound / prefix length called with size x (x is a or b): the product P fed into
    round/ceil satisfies P <= o*(1+16e); for t < TLOW, P is negligible."""
    hs = []
    rx = R_(x)
    B31 = rv(2 ** 31)
    if M == 'JACCARD':
        P = FP.exact_mul(t, rx)
        hs += [inst('jac_low', t, tm['qs'], o, a, b, x),
               inst('mul_upper', t, rx, TLOW, B31)]
    elif M == 'DICE':
        w = log.find('sub', rv(2), t)
        gop = w and log.find('div', t, w.r)
        if not gop:
            return None
        P = FP.exact_mul(gop.r, rx)
        hs += [inst('dice_low', t, tm['qs'], o, a, b, x, w.r, gop.e, gop.r),
               inst('quot_lower', gop.e, w.r, t, rv(3)),                    # normal range: gq >= t/3
               inst('quot_upper', gop.e, w.r, t, rv(Fraction(1, 2))),       # tiny t: gq <= 2t
               inst('mul_upper', gop.r, rx, rv(Fraction(1, 2 ** 490)), B31)]
    elif M == 'COSINE':
        t2 = log.find('mul', t, t)
        if not t2:
            return None
        P = FP.exact_mul(t2.r, rx)
        hs += [inst('cos_low', t, o, a, b, tm['Sa'], tm['Sb'], x, t2.r),
               inst('mul_lower', t, t, TLOW, TLOW),
               inst('mul_upper', t, t, TLOW, TLOW), inst('mul_upper', t, t, rv(1), rv(1)),
               inst('mul_upper', t2.r, rx, rv(Fraction(1, 2 ** 990)), B31)]
    hs += [inst('mul_nonneg', P.arg(0), P.arg(1))] if z3.is_app(P) and P.decl().eq(FP.rmul) else []
    return hs


def ub_instances(M, log, t, o, a, b, tm, x, y):
    """upper bound called with size x; y is the other size."""
    hs = []
    rx, ry = R_(x), R_(y)
    if M == 'JACCARD':
        q = log.find('div', rx, t)
        if not q:
            return None
        hs += [inst('jac_ub', t, tm['qs'], o, a, b, x, y, q.e),
               inst('quot_lower', q.e, t, rx, rv(1)),                # q2 >= x  (normal range)
               inst('quot_lower', q.e, t, rx, TLOW)]                  # tiny t: q2 >= x * 2^500
    elif M == 'DICE':
        w = log.find('sub', rv(2), t)
        h = w and log.find('div', w.r, t)
        if not h:
            return None
        P = FP.exact_mul(h.r, rx)
        hs += [inst('dice_ub', t, tm['qs'], o, a, b, x, y, w.r, h.e, h.r),
               inst('quot_lower', h.e, t, w.r, rv(1)),
               inst('quot_lower', h.e, t, w.r, TLOW),
               inst('mul_lower', h.r, rx, rv(2 ** 33), rv(1)),
               inst('mul_nonneg', h.r, rx)]
    elif M == 'COSINE':
        t2 = log.find('mul', t, t)
        q = t2 and log.find('div', rx, t2.r)
        if not q:
            return None
        hs += [inst('cos_ub', t, o, a, b, tm['Sa'], tm['Sb'], x, y, t2.r, q.e),
               inst('mul_lower', t, t, TLOW, TLOW), inst('mul_upper', t, t, rv(1), rv(1)),
               inst('mul_upper', t, t, TLOW, TLOW), inst('mul_nonneg', t, t),
               inst('quot_lower', q.e, t2.r, rx, rv(2)),
               inst('quot_lower', q.e, t2.r, rx, rv(Fraction(1, 2 ** 990)))]
    return hs


def othr_instances(M, log, t, o, a, b, tm):
    hs = []
    L = R_(a + b)
    B32 = rv(2 ** 32)
    if M == 'JACCARD':
        w = log.find('add', rv(1), t)
        g = w and log.find('div', t, w.r)
        if not g:
            return None
        hs += [inst('jac_othr', t, tm['qs'], o, a, b, w.r, g.e, g.r),
               inst('quot_lower', g.e, w.r, t, rv(3)),
               inst('quot_upper', g.e, w.r, t, rv(Fraction(1, 2))),
               inst('mul_upper', g.r, L, rv(Fraction(1, 2 ** 490)), B32),
               inst('mul_nonneg', g.r, L)]
    elif M == 'DICE':
        hf = log.find('div', t, rv(2))
        if not hf:
            return None
        hs += [inst('dice_othr', t, tm['qs'], o, a, b, hf.r),
               inst('mul_upper', hf.r, L, rv(Fraction(1, 2 ** 490)), B32),
               inst('mul_nonneg', hf.r, L)]
    elif M == 'COSINE':
        ra, rb = R_(a), R_(b)
        im = log.find('imul', ra, rb)
        flr = im and log.find('i2f', im.r)
        sq = flr and log.find('sqrt', flr.r)
        if not sq:
            return None
        hs += [inst('cos_othr', t, o, a, b, tm['Sa'], tm['Sb'], flr.r, sq.e, sq.r),
               inst('mul_lower', ra, rb, rv(1), rv(1)),
               inst('mul_upper', ra, rb, rv(2 ** 31), rv(2 ** 31)),
               inst('sqrt_lower', sq.e, flr.r, rv(Fraction(1, 2))),
               inst('sqrt_upper', sq.e, flr.r, rv(2 ** 32)),
               inst('mul_upper', t, sq.r, TLOW, rv(2 ** 33)),
               inst('mul_upper', t, sq.r, rv(1), rv(2 ** 33)),
               inst('mul_nonneg', t, sq.r)]
    return hs


class _Arith(Case):
    returns = INT
    M = None
    which = None

    def setup_common(self, c, sizes):
        """Magnitude facts every float operation of the formulas needs for its no-overflow
        obligation and for the |e| <= 2^33 side condition of the absolute-error fact."""
        t = c['threshold']
        hs = []
        if self.M in SETM:
            for n in sizes:
                rn = R_(n)
                hs += [inst('mul_le_right', t, rn), inst('mul_nonneg', t, rn)]
            hs += [inst('mul_upper', t, t, rv(1), rv(1)), inst('mul_nonneg', t, t)]
        return hs


def _required(c, M, order, n, t, body):
    """forall o, m: required_M(o, (n,m) in the given order, t) ==> body(o, m, a, b, tm)"""
    def f(o, m):
        a, b = (n, m) if order == 'nm' else (m, n)
        prem, s, tm = S.required_sizes(c.fp, M, o, a, b, t)
        hs, goal = body(o, m, a, b, tm)
        if hs is None:
            if len(c.fp.ops) > 4:      # (the early `return 0` path performs no float operation at all)
                c.ex.notes.append('hint lookup failed in %s/%s: the code no longer performs the expected '
                                  'float operation; proof attempted without lemma instances'
                                  % (c.ex.qualname, c.case.name))
            hs = []
        c.extra.extend(sim_instances(M, t, o, a, b, tm) + hs)
        return z3.Implies(prem, goal)
    return c.forall([('o', S.I), ('m', S.I)], f)


# =============================================================================
class SizeLowerBound(_Arith):
    def __init__(self, M, thr_ty=None):
        self.M = M
        self.thr_ty = thr_ty or (FLOAT if M in SETM else INT)
        self.name = M + ('' if thr_ty is None else '-thr-' + type(thr_ty).__name__)
        self.returns = INT if (M in SETM or self.thr_ty == INT) else FLOAT
        self.params = OD([('num_tokens', INT), ('sim_measure_type', vstr(M)), ('threshold', self.thr_ty)])

    def requires(self, c):
        return [('sizes', size_ok(c['num_tokens'])), ('threshold', valid_threshold(self.M, R_(c['threshold'])))]

    def setup(self, c):
        return self.setup_common(c, [c['num_tokens']])

    def ensures(self, c, res):
        x, t, M = c['num_tokens'], c['threshold'], self.M
        out = []
        if M in SETM:
            if c.proving:
                c.extra.append(res.t == S.lbnd[M](x, t))
                c.extra.extend(low_instances_range(M, c.fp, t, x))
            else:
                out.append(('defn', res.t == S.lbnd[M](x, t)))
            out.append(('range', z3.And(res.t >= 0, res.t <= x)))
            if c.proving:
                for order in ('nm', 'mn'):
                    out.append(('admits-required-' + order, _required(
                        c, M, order, x, t,
                        lambda o, m, a, b, tm: (low_instances(M, c.fp, t, o, a, b, tm, x), res.t <= o))))
        elif M == 'OVERLAP':
            out.append(('value', R_(res.t) == R_(t)))
        elif M == 'EDIT_DISTANCE':
            out.append(('value', R_(res.t) == R_(x) - R_(t)) if self.thr_ty == INT else
                       ('value-approx', z3.And(res.t <= R_(x) - t + FP.DELTA, res.t >= R_(x) - t - FP.DELTA)))
        return out


def low_instances_range(M, log, t, x):
    """instances for the unconditional range facts (result within [0, x])."""
    rx = R_(x)
    if M == 'DICE':
        w = log.find('sub', rv(2), t)
        g = w and log.find('div', t, w.r)
        if not g:
            return []
        # g = fl(t / fl(2-t)) <= 1 (+ulps): t <= w*(1+e) since w >= (2-t)(1-e) >= t ...
        return [inst('quot_upper', g.e, w.r, t, rv(Fraction(999999, 1000000))),
                inst('mul_upper', g.r, rx, rv(Fraction(1000002, 1000000)), rv(2 ** 31)),
                inst('mul_nonneg', g.r, rx), inst('dice_g_le_one', t, w.r, g.e, g.r, rx)]
    if M == 'COSINE':
        t2 = log.find('mul', t, t)
        if not t2:
            return []
        return [inst('mul_le_right', t2.r, rx), inst('mul_nonneg', t2.r, rx),
                inst('mul_upper', t2.r, rx, rv(Fraction(1000001, 1000000)), rv(2 ** 31))]
    return []


# =============================================================================
class SizeUpperBound(_Arith):
    def __init__(self, M, thr_ty=None):
        self.M = M
        self.thr_ty = thr_ty or (FLOAT if M in SETM else INT)
        self.name = M + ('' if thr_ty is None else '-thr-' + type(thr_ty).__name__)
        self.returns = INT if (M in SETM or self.thr_ty == INT or M == 'OVERLAP') else FLOAT
        self.params = OD([('num_tokens', INT), ('sim_measure_type', vstr(M)), ('threshold', self.thr_ty)])

    def requires(self, c):
        r = [('sizes', size_ok(c['num_tokens'])), ('threshold', valid_threshold(self.M, R_(c['threshold'])))]
        if self.M in SETM:
            # extra precondition, recorded as known finding D8 (not a documented precondition): for
            # thresholds below ~1e-150 the quotient overflows / the squared threshold underflows to 0
            r.append(('threshold-not-extreme', R_(c['threshold']) >= rv(Fraction(1, 2 ** 400))))
        return r

    def setup(self, c):
        return self.setup_common(c, [c['num_tokens']])

    def ensures(self, c, res):
        x, t, M = c['num_tokens'], c['threshold'], self.M
        out = []
        if M in SETM:
            if c.proving:
                c.extra.append(res.t == S.ubnd[M](x, t))
            else:
                out.append(('defn', res.t == S.ubnd[M](x, t)))
            out.append(('range', res.t >= x))
            if c.proving:
                c.extra.extend(ub_range_instances(M, c.fp, t, x))
                for order in ('nm', 'mn'):
                    out.append(('admits-required-' + order, _required(
                        c, M, order, x, t,
                        lambda o, m, a, b, tm: (ub_instances(M, c.fp, t, o, a, b, tm, x, m), m <= res.t))))
        elif M == 'OVERLAP':
            out.append(('value', res.t == 2 ** 63 - 1))
        elif M == 'EDIT_DISTANCE':
            out.append(('value', R_(res.t) == R_(x) + R_(t)) if self.thr_ty == INT else
                       ('value-approx', z3.And(res.t <= R_(x) + t + FP.DELTA, res.t >= R_(x) + t - FP.DELTA)))
        return out


def ub_range_instances(M, log, t, x):
    rx = R_(x)
    TL = rv(Fraction(1, 2 ** 400))           # threshold-not-extreme (known finding D8)
    if M == 'JACCARD':
        q = log.find('div', rx, t)
        return [inst('quot_lower', q.e, t, rx, rv(1)),
                inst('quot_abs', q.e, t, rx, TL, rv(2 ** 31))] if q else []
    if M == 'DICE':
        w = log.find('sub', rv(2), t)
        h = w and log.find('div', w.r, t)
        if not h:
            return []
        return [inst('quot_lower', h.e, t, w.r, rv(1)), inst('mul_nonneg', h.r, rx),
                inst('mul_lower_scaled', h.r, rx, rv(1)),
                inst('quot_abs', h.e, t, w.r, TL, rv(4)),
                inst('mul_abs', h.r, rx, rv(2 ** 404), rv(2 ** 31))]
    if M == 'COSINE':
        t2 = log.find('mul', t, t)
        q = t2 and log.find('div', rx, t2.r)
        if not q:
            return []
        return [inst('quot_lower', q.e, t2.r, rx, rv(1)),
                inst('mul_upper', t, t, rv(1), rv(1)), inst('mul_nonneg', t, t),
                inst('mul_lower', t, t, TL, TL),
                inst('quot_abs', q.e, t2.r, rx, rv(Fraction(1, 2 ** 801)), rv(2 ** 31))]
    return []


# =============================================================================
class PrefixLen(_Arith):
    def __init__(self, M, thr_ty=None):
        self.M = M
        self.thr_ty = thr_ty or (FLOAT if M in SETM else INT)
        self.name = M + ('' if thr_ty is None else '-thr-' + type(thr_ty).__name__)
        self.returns = INT if (M in SETM or self.thr_ty == INT) else FLOAT
        self.params = OD([('num_tokens', INT), ('sim_measure_type', vstr(M)),
                          ('threshold', self.thr_ty), ('tokenizer', TOK)])

    def requires(self, c):
        r = [('sizes', size_ok(c['num_tokens'])), ('threshold', valid_threshold(self.M, R_(c['threshold'])))]
        if self.M == 'EDIT_DISTANCE':
            r.append(('qval', c.f(c.p('tokenizer'), 'qval') >= 1))
        return r

    def setup(self, c):
        return self.setup_common(c, [c['num_tokens']])

    def ensures(self, c, res):
        x, t, M = c['num_tokens'], c['threshold'], self.M
        out = []
        if M in SETM:
            if c.proving:
                c.extra.append(res.t == S.plen[M](x, t))
                c.extra.extend(low_instances_range(M, c.fp, t, x))
            else:
                out.append(('defn', res.t == S.plen[M](x, t)))
            out.append(('range', z3.If(x == 0, res.t == 0, z3.And(res.t >= 1, res.t <= x + 1))))
            if c.proving:
                for order in ('nm', 'mn'):
                    out.append(('prefix-condition-' + order, _required(
                        c, M, order, x, t,
                        lambda o, m, a, b, tm: (low_instances(M, c.fp, t, o, a, b, tm, x), x - res.t + 1 <= o))))
        elif M == 'OVERLAP':
            if self.thr_ty == INT:
                out.append(('value', res.t == z3.If(x == 0, 0, z3.If(x - t + 1 >= 0, x - t + 1, 0))))
                out.append(('prefix-condition', c.forall([('o', S.I)], lambda o: z3.Implies(
                    z3.And(o >= t, o <= x, x >= 1), z3.And(x - res.t + 1 <= o, res.t >= 1)))))
        elif M == 'EDIT_DISTANCE':
            if self.thr_ty == INT:
                q = c.f(c.p('tokenizer'), 'qval')
                qt = FP.int_mul(q, t)
                out.append(('value', res.t == z3.If(x == 0, 0, z3.If(qt + 1 <= x, qt + 1, x))))
        return out


# =============================================================================
class OverlapThreshold(_Arith):
    def __init__(self, M, thr_ty=None):
        self.M = M
        self.thr_ty = thr_ty or (FLOAT if M in SETM else INT)
        self.name = M + ('' if thr_ty is None else '-thr-' + type(thr_ty).__name__)
        self.returns = INT if (M in SETM or self.thr_ty == INT) else FLOAT
        self.params = OD([('l_num_tokens', INT), ('r_num_tokens', INT), ('sim_measure_type', vstr(M)),
                          ('threshold', self.thr_ty), ('tokenizer', TOK)])

    def requires(self, c):
        r = [('sizes', z3.And(size_ok(c['l_num_tokens']), size_ok(c['r_num_tokens']))),
             ('threshold', valid_threshold(self.M, R_(c['threshold'])))]
        if self.M == 'EDIT_DISTANCE':
            r.append(('qval', c.f(c.p('tokenizer'), 'qval') >= 1))
        return r

    def setup(self, c):
        l, r = c['l_num_tokens'], c['r_num_tokens']
        hs = self.setup_common(c, [l, r, l + r])
        return hs

    def ensures(self, c, res):
        l, r, t, M = c['l_num_tokens'], c['r_num_tokens'], c['threshold'], self.M
        out = []
        if M in SETM:
            if c.proving:
                c.extra.append(res.t == S.othr[M](l, r, t))
                c.extra.extend(othr_range_instances(M, c.fp, t, l, r))
            else:
                out.append(('defn', res.t == S.othr[M](l, r, t)))
            out.append(('range', res.t >= 0))
            if c.proving:
                def body(o):
                    prem, s, tm = S.required_sizes(c.fp, M, o, l, r, t)
                    hs = othr_instances(M, c.fp, t, o, l, r, tm)
                    if hs is None:
                        c.ex.notes.append('hint lookup failed in get_overlap_threshold/%s' % M)
                        hs = []
                    c.extra.extend(sim_instances(M, t, o, l, r, tm) + hs)
                    return z3.Implies(prem, res.t <= o)
                out.append(('admits-required', c.forall([('o', S.I)], body)))
        elif M == 'OVERLAP':
            out.append(('value', R_(res.t) == R_(t)))
        elif M == 'EDIT_DISTANCE':
            if self.thr_ty == INT:
                q = c.f(c.p('tokenizer'), 'qval')
                mx = z3.If(l >= r, l, r)
                out.append(('value', res.t == mx - FP.int_mul(q, t)))
        return out


def othr_range_instances(M, log, t, l, r):
    L = R_(l + r)
    if M == 'JACCARD':
        w = log.find('add', rv(1), t)
        g = w and log.find('div', t, w.r)
        return [inst('mul_nonneg', g.r, L), inst('quot_upper', g.e, w.r, t, rv(Fraction(1, 2))),
                inst('mul_upper', g.r, L, rv(3), rv(2 ** 32))] if g else []
    if M == 'DICE':
        hf = log.find('div', t, rv(2))
        return [inst('mul_nonneg', hf.r, L), inst('mul_upper', hf.r, L, rv(1), rv(2 ** 32))] if hf else []
    if M == 'COSINE':
        ra, rb = R_(l), R_(r)
        im = log.find('imul', ra, rb)
        flr = im and log.find('i2f', im.r)
        sq = flr and log.find('sqrt', flr.r)
        if not sq:
            return []
        return [inst('mul_nonneg', ra, rb), inst('mul_upper', ra, rb, rv(2 ** 31), rv(2 ** 31)),
                inst('sqrt_upper', sq.e, flr.r, rv(2 ** 32)), inst('mul_nonneg', t, sq.r),
                inst('mul_upper', t, sq.r, rv(1), rv(2 ** 33))]
    return []


ALLM = ('JACCARD', 'COSINE', 'DICE', 'OVERLAP', 'EDIT_DISTANCE')
PROPS = ('C01', 'C03', 'C04', 'C07', 'C13', 'C14')

register(Q + 'get_size_lower_bound', [SizeLowerBound(M) for M in ALLM], props=PROPS)
register(Q + 'get_size_upper_bound', [SizeUpperBound(M) for M in ALLM], props=PROPS)
register(Q + 'get_prefix_length', [PrefixLen(M) for M in ALLM], props=PROPS)
register(Q + 'get_overlap_threshold', [OverlapThreshold(M) for M in ALLM], props=PROPS)
