"""Contracts for py_stringsimjoin/filter/filter_utils.py  (arithmetic core: A1-A4, A6).

For every measure the four formulas are proved, in the float model of pyvc/fp.py,
to be *safe*: whenever two token sets of sizes (n, m) with overlap o satisfy the
threshold (raw double and 4-decimal rounded, C01's `satisfies`), the size window,
the prefix length and the required overlap computed by the real code admit them.
The quantification over o and the other size is universal (skolemised when
proving), sizes range over [0, 2^31], thresholds over all reals in the valid range.
"""
import collections
import z3
from pyvc.types import *  # noqa
from pyvc.values import V, vstr, fresh_name
from pyvc.contract import Case, LoopSpec, ObjSpec, register
from pyvc import fp as FP
from pyvc import spec as S
from pyvc.lemmas import inst

Q = 'py_stringsimjoin.filter.filter_utils.'
TOK = ObjSpec('Tokenizer', qval=INT, return_set=BOOL)
EPS1 = 1 + FP.EPS2            # 1 + 2^-52
OD = collections.OrderedDict


def R_(x):
    return z3.ToReal(x)


def sim_hints(M, o, n, m, t, sv):
    """Consequence of  simval_M(o,n,m) >= t  in product form, derived with lemma
    instances.  sv = raw float-model value of the quotient expression.
    Returns (list of lemma instances, dict of useful terms)."""
    hs = []
    ro, rn, rm = R_(o), R_(n), R_(m)
    if M == 'JACCARD':
        u = R_(n + m - o)
        # sv = fl(q), q*u = o ; sv >= t  ==>  t*u <= (1+eps)*o
        q = quot_of(sv)
        hs += [inst('mul_mono_scaled', t, q, EPS1, u),
               inst('mul_mono_r', t, rn, u), inst('mul_mono_r', t, rm, u),
               inst('mul_nonneg', t, rn), inst('mul_nonneg', t, rm), inst('mul_nonneg', t, u)]
    return hs


_quot = {}


def quot_of(sv):
    return _quot[sv.get_id()]


class _Arith(Case):
    """Common shape: measure fixed, sizes and threshold symbolic."""
    M = None
    thr_ty = FLOAT

    def valid_threshold(self, t):
        if self.M in S.SET_MEASURES:
            return z3.And(t > 0, t <= 1)
        if self.M == 'OVERLAP':
            return t > 0
        return t >= 0


def size_ok(n):
    return z3.And(n >= 0, n <= S.MAXTOK)


# =============================================================================
# get_prefix_length
class PrefixLen(_Arith):
    returns = INT

    def __init__(self, M, thr_ty=FLOAT):
        self.M = M
        self.thr_ty = thr_ty
        self.name = M + ('' if (thr_ty == FLOAT) == (M in S.SET_MEASURES) else '-' + type(thr_ty).__name__)
        self.params = OD([('num_tokens', INT), ('sim_measure_type', vstr(M)),
                          ('threshold', thr_ty), ('tokenizer', TOK)])

    def requires(self, c):
        n, t = c['num_tokens'], c['threshold']
        t = R_(t) if z3.is_int(t) else t
        r = [('sizes', size_ok(n)), ('threshold', self.valid_threshold(t))]
        if self.M == 'EDIT_DISTANCE':
            r.append(('qval', c.f(c.p('tokenizer'), 'qval') >= 1))
        return r

    def setup(self, c):
        n, t = c['num_tokens'], c['threshold']
        if self.M == 'JACCARD':
            return [inst('mul_le_right', t, R_(n)), inst('mul_nonneg', t, R_(n))]
        return []

    def ensures(self, c, res):
        n, t = c['num_tokens'], c['threshold']
        M = self.M
        out = []
        if M in S.SET_MEASURES:
            if c.proving:
                c.extra.append(res.t == S.plen[M](n, t))       # definition of the spec function
            else:
                out.append(('defn', res.t == S.plen[M](n, t)))
            out.append(('range', z3.If(n == 0, res.t == 0, z3.And(res.t >= 1, res.t <= n + 1))))
            if c.proving:
                for order in ('nm', 'mn'):
                    def body(o, m, order=order):
                        a, b = (n, m) if order == 'nm' else (m, n)
                        prem, s, sv = S.required_sizes(c.fp, M, o, a, b, t)
                        c.extra.extend(arith_hints(M, 'plen', c.fp, o, a, b, t, sv, n))
                        return z3.Implies(prem, n - res.t + 1 <= o)
                    out.append(('prefix-condition-' + order,
                                c.forall([('o', S.I), ('m', S.I)], body)))
        elif M == 'OVERLAP':
            out.append(('value', res.t == z3.If(n - t + 1 >= 0, n - t + 1, 0)))
            out.append(('prefix-condition', c.forall([('o', S.I)], lambda o: z3.Implies(
                z3.And(o >= t, o <= n), z3.And(n - res.t + 1 <= o, res.t >= 1)))))
        elif M == 'EDIT_DISTANCE':
            q = c.f(c.p('tokenizer'), 'qval')
            out.append(('value', res.t == z3.If(n == 0, 0, z3.If(q * t + 1 <= n, q * t + 1, n))))
        return out


def arith_hints(M, which, log, o, n, m, t, sv, x):
    """Lemma instances for measure M; (o, n, m) are the sizes in the order the similarity is
    evaluated, x is the size the function under proof was called with."""
    hs = []
    ro, rn, rm, rx = R_(o), R_(n), R_(m), R_(x)
    if M == 'JACCARD':
        u = R_(n + m - o)
        q = find_quot(log, sv)
        hs += [inst('mul_mono_scaled', t, q, EPS1, u),        # t <= (1+e) q  ==> t*u <= (1+e) q*u
               inst('mul_mono_r', t, rx, u),                   # x <= u        ==> t*x <= t*u
               inst('mul_nonneg', t, rx), inst('mul_nonneg', t, u), inst('mul_nonneg', q, u)]
    return hs


def find_quot(log, sv):
    """The exact quotient behind the float value sv = fl(q) recorded in the float log."""
    for (r, e) in log.ops:
        if r.eq(sv):
            return e
    raise KeyError('no float op produced %s' % sv)


register(Q + 'get_prefix_length',
         [PrefixLen('JACCARD')],
         props=('C01', 'C03', 'C04', 'C13', 'C14'))
