"""Theorems about the spec functions lb_M, ub_M, plen_M, othr_M (the values the real
filter_utils formulas compute), re-stated for callers as universally quantified axioms.

Each axiom is exactly the universally quantified form of postconditions proved on
filter/filter_utils.py (contracts/filter_utils.py), whose parameters (sizes, threshold) and
skolemised ghost quantifiers (o, m) are arbitrary -- so generalisation is sound.  A property
check that uses an axiom lists the justifying obligations among its own (props.py puts the
filter_utils functions into every such property), hence a change that breaks a formula
breaks the property's check.
"""
import z3
from .common import *  # noqa

SETM = S.SET_MEASURES


def required_sym(M, o, n, m, t):
    """C01's `satisfies` (>=) on sizes, symbolic face: simval / fl_round4 are uninterpreted"""
    s = S.simval[M](o, n, m)
    return z3.And(o >= 1, o <= n, o <= m, n <= S.MAXTOK, m <= S.MAXTOK, s >= t, S.r4(s) >= t)


def arithmetic_axioms(M, t):
    """A1-A3 for measure M at threshold t (a z3 Real term): for all sizes n, m and overlaps o"""
    if M not in SETM:
        return []
    o, n, m = ints('o!A n!A m!A')
    req = required_sym(M, o, n, m, t)
    s = S.simval[M](o, n, m)
    valid = z3.And(t > 0, t <= 1)
    return [z3.ForAll([o, n, m], z3.Implies(z3.And(valid, req), z3.And(
        S.lbnd[M](m, t) <= n, n <= S.ubnd[M](m, t),          # A1: size window of the probe admits n
        S.lbnd[M](n, t) <= m, m <= S.ubnd[M](n, t),          #     and symmetrically
        n - S.plen[M](n, t) + 1 <= o, m - S.plen[M](m, t) + 1 <= o,   # A2: prefix condition, both sides
        S.othr[M](n, m, t) <= o)),                            # A3: required overlap
        patterns=[s])]


def range_axioms(M, t):
    """the unconditional range postconditions of the four formulas, for all sizes in the domain"""
    if M not in SETM:
        return []
    x, y = ints('x!R y!R')
    ok = z3.And(x >= 0, x <= S.MAXTOK, t > 0, t <= 1)
    return [z3.ForAll([x], z3.Implies(ok, z3.And(S.lbnd[M](x, t) >= 0, S.lbnd[M](x, t) <= x)), patterns=[S.lbnd[M](x, t)]),
            z3.ForAll([x], z3.Implies(z3.And(ok, t >= rv(Fraction(1, 2 ** 400))), S.ubnd[M](x, t) >= x),
                      patterns=[S.ubnd[M](x, t)]),
            z3.ForAll([x], z3.Implies(ok, z3.If(x == 0, S.plen[M](x, t) == 0,
                                                z3.And(S.plen[M](x, t) >= 1, S.plen[M](x, t) <= x + 1))),
                      patterns=[S.plen[M](x, t)])]


JUSTIFIED_BY = ['filter_utils.get_size_lower_bound/*/post/admits-required-*',
                'filter_utils.get_size_upper_bound/*/post/admits-required-*',
                'filter_utils.get_prefix_length/*/post/prefix-condition-*',
                'filter_utils.get_overlap_threshold/*/post/admits-required']
