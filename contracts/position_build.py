"""PositionIndex.build: proved (replaces the bounded stand-in of contracts/position.py).

index[w] lists exactly the (row, position) pairs with rank w at `position` among the first
prefix_length(row) ranks of the row; size_cache[r] is the number of ranks of row r; min_length /
max_length bound all of them; cached tokens are the rank lists; empty records as in the other indexes."""
import z3
from .common import *  # noqa
from .externals import TOKENIZER
from .token_ordering import ORD, table_ok
from .position import QI, ENTRY, INDEX, X_of, index_obj, built_pred, SETM
from .prefix import plen_of, imul_facts, thr_ok
from pyvc import natives as N

POSG = ArrT(INT, ArrT(INT, INT))        # row -> prefix position -> index of its entry in index[rank at that position]
LE = ListT(ENTRY)


def pl_of(c, M, idx, row):
    n = L_len(LI, X_of(c, idx, row))
    p = plen_of(M, n, c.f(idx, 'threshold'), c.f(c.field(idx, 'tokenizer'), 'qval'))
    return z3.If(p <= n, z3.If(p >= 0, p, 0), n)


def wf_position(c, M, idx, index_t, posg, rows_done, cur=None, tok_done=None):
    w, k, r, j = ints('w!pi k!pi r!pi j!pi')
    has = lambda x: D_has(INDEX, index_t, x)
    ent = lambda x: D_get(INDEX, index_t, x)
    e = lambda x, q: L_get(LE, ent(x), q)
    er = lambda x, q: T_get(ENTRY, e(x, q), 0)
    ep = lambda x, q: T_get(ENTRY, e(x, q), 1)
    X = lambda q: X_of(c, idx, q)
    pl = lambda q: pl_of(c, M, idx, q)
    if cur is None:
        rng = er(w, k) < rows_done
    else:
        rng = z3.Or(er(w, k) < rows_done, z3.And(er(w, k) == cur, ep(w, k) < tok_done))
    fs = [
        ('entries-sound', FA([w, k], z3.Implies(z3.And(has(w), k >= 0, k < L_len(LE, ent(w))), z3.And(
            er(w, k) >= 0, rng, ep(w, k) >= 0, ep(w, k) < pl(er(w, k)), L_get(LI, X(er(w, k)), ep(w, k)) == w)),
            [e(w, k)])),
        ('entries-complete', FA([r, j], z3.Implies(
            z3.And(r >= 0, r < rows_done, j >= 0, j < pl(r)),
            z3.And(has(L_get(LI, X(r), j)), posg[r][j] >= 0,
                   posg[r][j] < L_len(LE, ent(L_get(LI, X(r), j))),
                   er(L_get(LI, X(r), j), posg[r][j]) == r,
                   ep(L_get(LI, X(r), j), posg[r][j]) == j)), [L_get(LI, X(r), j)])),
        ('lists-well-formed', FA([w], z3.Implies(has(w), L_len(LE, ent(w)) >= 0), [ent(w)])),
    ]
    if cur is not None:
        xs = X(cur)
        fs.append(('current-row-complete', FA([j], z3.Implies(
            z3.And(j >= 0, j < tok_done),
            z3.And(has(L_get(LI, xs, j)), posg[cur][j] >= 0,
                   posg[cur][j] < L_len(LE, ent(L_get(LI, xs, j))),
                   er(L_get(LI, xs, j), posg[cur][j]) == cur,
                   ep(L_get(LI, xs, j), posg[cur][j]) == j)), [L_get(LI, xs, j)])))
    return fs


def _index_build(M, thr_ty):
    class Build(Case):
        name = '%s-%s' % (M, 'float' if thr_ty == FLOAT else 'int')
        params = OD([('self', index_obj(M, thr_ty, built=False)), ('cache_empty_records', BOOL),
                     ('cache_tokens', BOOL)])
        defaults = {'cache_empty_records': vbool(True), 'cache_tokens': vbool(False)}
        modifies = (('self.index', INDEX), ('self.size_cache', LI), 'self.min_length', 'self.max_length')
        field_types = {'index': INDEX, 'size_cache': LI}
        locals = {'empty_records': LI, 'cached_tokens': ListT(LI)}

        def requires(self, c):
            idx = c.p('self')
            return [('cells-present', table_ok(c.field(idx, 'table'), c.f(idx, 'index_attr'))),
                    ('threshold-valid', thr_ok(M, c.f(idx, 'threshold'), c.f(c.field(idx, 'tokenizer'), 'qval'))),
                    ('fresh-index', z3.And(c.f(idx, 'min_length') == 2 ** 63 - 1, c.f(idx, 'max_length') == 0)),
                    ('token-count-domain', Build.rows_bounded(c, idx))]

        @staticmethod
        def rows_bounded(c, idx):
            tbl = c.field(idx, 'table')
            rs = c.f(c.field(idx, 'tokenizer'), 'return_set')
            r = z3.Int('r!tcd')
            tk = S.toks(rs, L_get(LV, at(tbl, r), c.f(idx, 'index_attr')))
            return FA([r], z3.Implies(z3.And(r >= 0, r < ln(tbl)), L_len(LV, tk) <= S.MAXTOK), [tk])

        def setup(self, c):
            idx = c.p('self')
            return S.toks_axioms() + imul_facts(M, c.f(c.field(idx, 'tokenizer'), 'qval'), c.f(idx, 'threshold'))

        def ghost(self, c):
            return {'posg': fresh(POSG, 'posg'), 'er_dst': fresh(ArrT(INT, INT), 'er_dst')}

        def _after_append(c):
            idx = c.p('self')
            tok = c.t('token')
            rid = c.t('row_id')
            lst = D_get(INDEX, c.f(idx, 'index'), tok)
            posg = c.ghost['posg'].t
            c.ghost['posg'] = V(POSG, z3.Store(posg, rid, z3.Store(z3.Select(posg, rid), c.loop_idx[-1], L_len(LE, lst) - 1)))

        def _after_empty(c):
            er = c.v('empty_records')
            c.ghost['er_dst'] = V(ArrT(INT, INT), z3.Store(c.ghost['er_dst'].t, c.t('row_id'), ln(er) - 1))

        hooks = (Hook('self.index.get(token).append', _after_append, ('posg',)),
                 Hook('empty_records.append', _after_empty, ('er_dst',)))

        def returns(self, ex, st, c):
            from pyvc.executor import PyDict
            ct, er = fresh(ListT(LI), 'cached_tokens'), fresh(LI, 'empty_records')
            for f in wf(ct) + wf(er):
                st.assume(f)
            return PyDict({'cached_tokens': ct, 'empty_records': er})

        @staticmethod
        def caches(c, idx, sc, ct, er, er_dst, upto):
            X = lambda q: X_of(c, idx, q)
            r, p = ints('r!pb p!pb')
            mn, mx = c.f(idx, 'min_length'), c.f(idx, 'max_length')
            return [
                ('size-cache', z3.And(ln(sc) == upto, FA([r], z3.Implies(z3.And(r >= 0, r < upto),
                                                                      at(sc, r) == L_len(LI, X(r))), [at(sc, r)]))),
                ('min-max', z3.And(mx >= 0, mx <= S.MAXTOK, mn >= 0, FA([r], z3.Implies(z3.And(r >= 0, r < upto), z3.And(
                    mn <= L_len(LI, X(r)), L_len(LI, X(r)) <= mx)), [X(r)]))),
                ('cached-tokens', z3.If(c['cache_tokens'], z3.And(ln(ct) == upto, FA([r], z3.Implies(
                    z3.And(r >= 0, r < upto), at(ct, r) == X(r)), [at(ct, r)])), ln(ct) == 0)),
                ('empty-records-sound', FA([p], z3.Implies(z3.And(p >= 0, p < ln(er)), z3.And(
                    c['cache_empty_records'], at(er, p) >= 0, at(er, p) < upto, L_len(LI, X(at(er, p))) == 0,
                    er_dst[at(er, p)] == p)), [at(er, p)])),
                ('empty-records-complete', FA([r], z3.Implies(z3.And(
                    c['cache_empty_records'], r >= 0, r < upto, L_len(LI, X(r)) == 0),
                    z3.And(er_dst[r] >= 0, er_dst[r] < ln(er), at(er, er_dst[r]) == r)), [er_dst[r], X(r)])),
            ]

        def _inv_rows(c):
            idx = c.p('self')
            fs = wf_position(c, M, idx, c.f(idx, 'index'), c.ghost['posg'].t, c.i)
            fs += Build.caches(c, idx, c.field(idx, 'size_cache'), c.v('cached_tokens'), c.v('empty_records'),
                               c.ghost['er_dst'].t, c.i)
            fs.append(('row-id', c.t('row_id') == c.i))
            return fs

        def _inv_tokens(c):
            idx = c.p('self')
            cur = c.outer[-1]
            fs = wf_position(c, M, idx, c.f(idx, 'index'), c.ghost['posg'].t, cur, cur, c.i)
            fs += Build.caches(c, idx, c.field(idx, 'size_cache'), c.v('cached_tokens'), c.v('empty_records'),
                               c.ghost['er_dst'].t, cur)
            fs.append(('row-id', c.t('row_id') == cur))
            fs.append(('position-counter', c.t('pos') == c.i))
            fs.append(('tokens', c.t('index_attr_tokens') == X_of(c, idx, cur)))
            fs.append(('slice-length', c.seq.length == pl_of(c, M, idx, cur)))
            return fs

        loops = {'0': LoopSpec(_inv_rows), '0.0': LoopSpec(_inv_tokens)}

        def ensures(self, c, res):
            idx = c.p('self')
            NL = ln(c.field(idx, 'table'))
            ct, er = res.d['cached_tokens'], res.d['empty_records']
            return wf_position(c, M, idx, c.f(idx, 'index'), c.ghost_out('posg', POSG), NL) + \
                Build.caches(c, idx, c.field(idx, 'size_cache'), ct, er, c.ghost_out('er_dst', ArrT(INT, INT)), NL) + \
                ([] if c.proving else [('built', built_pred(c, idx))])
    return Build()


register(QI + 'build', [_index_build(M, FLOAT) for M in SETM], props=('C01', 'C02', 'C04', 'C09'))
