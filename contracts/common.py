"""Shared shorthand for the sidecar contracts."""
import collections
from fractions import Fraction
import z3
from pyvc.types import *  # noqa
from pyvc.values import *  # noqa
from pyvc.contract import Case, LoopSpec, ObjSpec, Hook, register
from pyvc import fp as FP
from pyvc import spec as S

OD = collections.OrderedDict
LV = ListT(VAL)            # list of strings / attribute names / a table row
OLV = OptT(LV)
LI = ListT(INT)
OLI = OptT(LI)
ROWS = ListT(LV)           # a table as list of rows (ndarray of objects)
AII = DictT(INT, INT)
I = z3.IntSort()
B = z3.BoolSort()


def R_(x):
    return z3.ToReal(x) if z3.is_int(x) else x


def rv(x):
    return z3.RealVal(Fraction(x))


def ln(v):
    """length of a list value (V)"""
    return L_len(v.ty, v.t)


def at(v, i):
    return L_get(v.ty, v.t, i)


def ival(i):
    return z3.IntVal(i)


def FA(xs, body, pats=None):
    xs = xs if isinstance(xs, (list, tuple)) else [xs]
    if pats:
        return z3.ForAll(list(xs), body, patterns=list(pats))
    return z3.ForAll(list(xs), body)


def ints(names):
    return z3.Ints(names)


def opt_some(v):
    """(is-present formula, inner list V) of an Opt[list] value."""
    return z3.Not(O_is_none(v.ty, v.t)), V(v.ty.t, O_val(v.ty, v.t))


def arr_ii(name):
    return z3.Const(fresh_name(name), z3.ArraySort(I, I))
