"""Contracts for index/inverted_index.py and filter/overlap_filter.py (C06 exactness, C01/C02 for
overlap_join and overlap_coefficient_join, C14).  These are proved (not bounded): build
establishes the index invariant WF, find_candidates returns exactly the match counts.

Set mode is required (tokenize returns duplicate-free lists): in bag mode the filter counts
repeated tokens, which is outside C06 (and overlap_join switches the tokenizer to set mode)."""
import z3
from .common import *  # noqa
from .externals import TOKENIZER
from .token_ordering import table_ok
from .position import Ctor, same_value
from . import validation as VC
from pyvc import natives as N

QI = 'py_stringsimjoin.index.inverted_index.InvertedIndex.'
QF = 'py_stringsimjoin.filter.overlap_filter.OverlapFilter.'
INDEX = DictT(VAL, LI)
CAND = DictT(INT, INT)
POS = ArrT(VAL, ArrT(INT, INT))


class IndexInit(Ctor):
    name = 'default'
    params = OD([('self', ObjSpec('InvertedIndex')), ('table', ROWS), ('index_attr', INT),
                 ('tokenizer', TOKENIZER), ('cache_size_flag', BOOL)])
    defaults = {'cache_size_flag': vbool(False)}

    def fields(self, c):
        return OD([('table', c.p('table')), ('index_attr', c.p('index_attr')), ('tokenizer', c.p('tokenizer')),
                   ('cache_size_flag', c.p('cache_size_flag')), ('index', vnone()), ('size_cache', vnone())])


register(QI + '__init__', [IndexInit()], props=('C01', 'C02', 'C06'))


def index_obj(built=True):
    return ObjSpec('InvertedIndex', table=ROWS, index_attr=INT, tokenizer=TOKENIZER, cache_size_flag=BOOL,
                   index=INDEX if built else ANY, size_cache=LI if built else ANY)


def T_of(c, idx, row):
    """token list of row `row` of the indexed table"""
    tbl = c.field(idx, 'table')
    rs = c.f(c.field(idx, 'tokenizer'), 'return_set')
    return S.toks(rs, L_get(LV, at(tbl, row), c.f(idx, 'index_attr')))


def wf_index(c, idx, index_t, pos, rows_done, cur=None, tok_done=None):
    """index invariant over the first `rows_done` rows (and, when cur is given, the first
    tok_done tokens of row `cur` = rows_done)."""
    w = z3.Const('w!wf', ValSort)
    k, k2, r, j = ints('k!wf k2!wf r!wf j!wf')
    has = lambda x: D_has(INDEX, index_t, x)
    ent = lambda x: D_get(INDEX, index_t, x)
    e = lambda x, q: L_get(LI, ent(x), q)
    T = lambda q: T_of(c, idx, q)
    entry_ok = z3.And(e(w, k) >= 0, S.memV(T(e(w, k)), w), pos[w][e(w, k)] == k)
    if cur is None:
        entry_rng = e(w, k) < rows_done
    else:
        entry_rng = z3.Or(e(w, k) < rows_done, z3.And(e(w, k) == cur, S.witV(T(cur), w) < tok_done))
    fs = [
        ('entries-sound', FA([w, k], z3.Implies(z3.And(has(w), k >= 0, k < L_len(LI, ent(w))),
                                                z3.And(entry_ok, entry_rng)), [e(w, k)])),
        ('entries-increasing', FA([w, k, k2], z3.Implies(
            z3.And(has(w), k >= 0, k < k2, k2 < L_len(LI, ent(w))), e(w, k) < e(w, k2)),
            [z3.MultiPattern(e(w, k), e(w, k2))])),
        ('entries-complete', FA([r, j], z3.Implies(
            z3.And(r >= 0, r < rows_done, j >= 0, j < L_len(LV, T(r))),
            z3.And(has(L_get(LV, T(r), j)), pos[L_get(LV, T(r), j)][r] >= 0,
                   pos[L_get(LV, T(r), j)][r] < L_len(LI, ent(L_get(LV, T(r), j))),
                   e(L_get(LV, T(r), j), pos[L_get(LV, T(r), j)][r]) == r)), [L_get(LV, T(r), j)])),
        ('lists-well-formed', FA([w], z3.Implies(has(w), L_len(LI, ent(w)) >= 0), [ent(w)])),
        # (consequence of entries-complete at j = 0, stated with a trigger on the row's token list)
        ('non-empty-rows-have-a-key', FA([r], z3.Implies(z3.And(r >= 0, r < rows_done, L_len(LV, T(r)) > 0),
                                                         has(L_get(LV, T(r), ival(0)))), [T(r)])),
    ]
    if cur is not None:
        tk = T(cur)
        fs.append(('current-row-complete', FA([j], z3.Implies(
            z3.And(j >= 0, j < tok_done),
            z3.And(has(L_get(LV, tk, j)), pos[L_get(LV, tk, j)][cur] >= 0,
                   pos[L_get(LV, tk, j)][cur] < L_len(LI, ent(L_get(LV, tk, j))),
                   e(L_get(LV, tk, j), pos[L_get(LV, tk, j)][cur]) == cur)), [L_get(LV, tk, j)])))
    return fs


def spec_axioms():
    return S.mem_axioms_V() + S.cnt_axioms_V() + S.toks_axioms()


class IndexBuild(Case):
    name = 'set-mode'
    params = OD([('self', index_obj(built=False)), ('cache_empty_records', BOOL)])
    defaults = {'cache_empty_records': vbool(True)}
    modifies = (('self.index', INDEX), ('self.size_cache', LI))
    field_types = {'index': INDEX, 'size_cache': LI}
    locals = {'empty_records': LI}

    def requires(self, c):
        idx = c.p('self')
        return [('cells-present', table_ok(c.field(idx, 'table'), c.f(idx, 'index_attr'))),
                ('set-mode', c.f(c.field(idx, 'tokenizer'), 'return_set'))]

    def setup(self, c):
        return spec_axioms()

    def ghost(self, c):
        return {'pos': fresh(POS, 'pos'), 'er_dst': fresh(ArrT(INT, INT), 'er_dst')}

    def _after_append(c):
        idx = c.p('self')
        tok = c.t('token')
        rid = c.t('row_id')
        lst = D_get(INDEX, c.f(idx, 'index'), tok)
        pos = c.ghost['pos'].t
        c.ghost['pos'] = V(POS, z3.Store(pos, tok, z3.Store(z3.Select(pos, tok), rid, L_len(LI, lst) - 1)))

    def _after_empty(c):
        er = c.v('empty_records')
        c.ghost['er_dst'] = V(ArrT(INT, INT), z3.Store(c.ghost['er_dst'].t, c.t('row_id'), ln(er) - 1))

    hooks = (Hook('self.index.get(token).append', _after_append, ('pos',)),
             Hook('empty_records.append', _after_empty, ('er_dst',)))

    def returns(self, ex, st, c):
        from pyvc.executor import PyDict
        er = fresh(LI, 'empty_records')
        for f in wf(er):
            st.assume(f)
        return PyDict({'empty_records': er})

    @staticmethod
    def caches(c, idx, sc, er, er_dst, upto):
        T = lambda q: T_of(c, idx, q)
        r, p = ints('r!cb p!cb')
        flag = c.f(idx, 'cache_size_flag')
        return [
            ('size-cache', z3.If(flag, z3.And(ln(sc) == upto, FA([r], z3.Implies(
                z3.And(r >= 0, r < upto), at(sc, r) == L_len(LV, T(r))), [at(sc, r)])), ln(sc) == 0)),
            ('empty-records-sound', FA([p], z3.Implies(z3.And(p >= 0, p < ln(er)), z3.And(
                c['cache_empty_records'], at(er, p) >= 0, at(er, p) < upto, L_len(LV, T(at(er, p))) == 0,
                er_dst[at(er, p)] == p)), [at(er, p)])),
            ('empty-records-complete', FA([r], z3.Implies(z3.And(
                c['cache_empty_records'], r >= 0, r < upto, L_len(LV, T(r)) == 0),
                z3.And(er_dst[r] >= 0, er_dst[r] < ln(er), at(er, er_dst[r]) == r)), [er_dst[r], T(r)])),
        ]

    def _inv_rows(c):
        idx = c.p('self')
        fs = wf_index(c, idx, c.f(idx, 'index'), c.ghost['pos'].t, c.i)
        fs += IndexBuild.caches(c, idx, c.field(idx, 'size_cache'), c.v('empty_records'), c.ghost['er_dst'].t, c.i)
        fs.append(('row-id', c.t('row_id') == c.i))
        return fs

    def _inv_tokens(c):
        idx = c.p('self')
        cur = c.outer[-1]
        fs = wf_index(c, idx, c.f(idx, 'index'), c.ghost['pos'].t, cur, cur, c.i)
        fs += IndexBuild.caches(c, idx, c.field(idx, 'size_cache'), c.v('empty_records'), c.ghost['er_dst'].t, cur)
        fs.append(('row-id', c.t('row_id') == cur))
        fs.append(('tokens', c.t('index_attr_tokens') == T_of(c, idx, cur)))
        return fs

    loops = {'0': LoopSpec(_inv_rows), '0.0': LoopSpec(_inv_tokens)}

    def ensures(self, c, res):
        idx = c.p('self')
        NL = ln(c.field(idx, 'table'))
        pos = c.ghost_out('pos', POS)
        er = res.d['empty_records']
        return wf_index(c, idx, c.f(idx, 'index'), pos, NL) + \
            IndexBuild.caches(c, idx, c.field(idx, 'size_cache'), er, c.ghost_out('er_dst', ArrT(INT, INT)), NL)


register(QI + 'build', [IndexBuild()], props=('C01', 'C02', 'C06', 'C09'))


# ============================================================================ OverlapFilter
OPS3 = ('>=', '>', '=')


def _filter_init(op, size_ty):
    class Init(Ctor):
        name = '%s-%s' % (op, 'int' if size_ty == INT else 'float')
        params = OD([('self', ObjSpec('OverlapFilter')), ('tokenizer', TOKENIZER), ('overlap_size', size_ty),
                     ('comp_op', vstr(op)), ('allow_missing', BOOL)])
        defaults = {'overlap_size': vint(1), 'comp_op': vstr('>='), 'allow_missing': vbool(False)}

        def raises(self, c):
            return {'AssertionError': z3.Or(z3.Not(R_(c['overlap_size']) > 0), z3.BoolVal(op not in OPS3))}

        def fields(self, c):
            return OD([('tokenizer', c.p('tokenizer')), ('overlap_size', c.p('overlap_size')),
                       ('comp_op', c.p('comp_op')), ('allow_missing', c.p('allow_missing'))])
    return Init()


register(QF + '__init__', [_filter_init(op, ty) for op in OPS3 + ('<=',) for ty in (INT, FLOAT)],
         props=('C15', 'C06'))


def filter_obj(op, size_ty=INT):
    return ObjSpec('OverlapFilter', tokenizer=TOKENIZER, overlap_size=size_ty, comp_op=vstr(op),
                   allow_missing=BOOL)


def _find_candidates(op, size_ty=INT):
    class FindCandidates(Case):
        """exact: the returned count of row r is the number of probe tokens occurring in row r's
        token list; rows with count 0 are absent"""
        name = op + ('' if size_ty == INT else '-float-size')
        params = OD([('self', filter_obj(op, size_ty)), ('probe_tokens', LV), ('inverted_index', index_obj())])
        returns = CAND
        locals = {'candidate_overlap': CAND}
        inline = (QI + 'probe',)

        def requires(self, c):
            idx = c.p('inverted_index')
            pos = self.pos(c)
            return [(lab, f) for (lab, f) in wf_index(c, idx, c.f(idx, 'index'), pos, ln(c.field(idx, 'table')))] + \
                   [('set-mode', c.f(c.field(idx, 'tokenizer'), 'return_set'))]

        def pos(self, c):
            """the ghost position map of the index: a ghost argument (any witness will do)"""
            return c.ghost_in('pos', POS)

        def setup(self, c):
            return spec_axioms()

        @staticmethod
        def counts(c, co, p, extra=None):
            """co[r] (default 0) == number of the first p probe tokens that occur in row r (+ extra(r))"""
            idx = c.p('inverted_index')
            NL = ln(c.field(idx, 'table'))
            Y = c.p('probe_tokens')
            r = z3.Int('r!cnt')
            val = lambda q: z3.If(D_has(CAND, co, q), D_get(CAND, co, q), 0)
            want = lambda q: S.cntV(T_of(c, idx, q), Y.t, p) + (extra(q) if extra else 0)
            return [('counts', FA([r], z3.Implies(z3.And(r >= 0, r < NL), val(r) == want(r)),
                                  [T_of(c, idx, r)])),
                    ('keys-in-range-and-positive', FA([r], z3.Implies(D_has(CAND, co, r), z3.And(
                        r >= 0, r < NL, D_get(CAND, co, r) >= 1)), [D_has(CAND, co, r)]))]

        def _inv_probe(c):
            return FindCandidates.counts(c, c.t('candidate_overlap'), c.i)

        def _inv_entries(c):
            idx = c.p('inverted_index')
            p = c.outer[-1]
            tok = L_get(LV, c.p('probe_tokens').t, p)
            k = c.i
            pos = c.case.pos(c)
            # entries [0, k) of index[tok] have been counted
            extra = lambda q: z3.If(z3.And(D_has(INDEX, c.f(idx, 'index'), tok), S.memV(T_of(c, idx, q), tok),
                                           pos[tok][q] < k), 1, 0)
            return FindCandidates.counts(c, c.t('candidate_overlap'), p, extra)

        loops = {'0': LoopSpec(_inv_probe), '0.0': LoopSpec(_inv_entries)}

        def ensures(self, c, res):
            return FindCandidates.counts(c, res.t, ln(c.p('probe_tokens')))
    return FindCandidates()


register(QF + 'find_candidates', [_find_candidates(op) for op in OPS3] + [_find_candidates('>=', FLOAT)],
         props=('C01', 'C02', 'C06', 'C14'))


# ============================================================================ simfunctions.overlap
class OverlapFn(Case):
    """len(set(a) & set(b)): the number of distinct common elements -- the definition of isectV
    (set construction and intersection are Python builtins; assumed, not executed)"""
    name = 'lists'
    status = 'assumed'
    params = OD([('set1', LV), ('set2', LV)])
    returns = INT

    def ensures(self, c, res):
        a, b = c.p('set1'), c.p('set2')
        return [('value', res.t == S.isectV(a.t, b.t))] + [('facts', f) for f in S.isect_facts(VAL, a, b)]


register('py_stringsimjoin.utils.simfunctions.overlap', [OverlapFn()])


# ============================================================================ OverlapFilter.filter_pair
OPF = {'>=': lambda a, b: a >= b, '>': lambda a, b: a > b, '=': lambda a, b: a == b}


def _filter_pair(op):
    class FilterPair(Case):
        """C06: drops a pair iff a value is missing and allow_missing is off, or a string is
        empty, or the overlap of the token sets does not satisfy comp_op against overlap_size"""
        name = op
        params = OD([('self', filter_obj(op)), ('lstring', VAL), ('rstring', VAL)])
        returns = BOOL

        def ensures(self, c, res):
            f = c.p('self')
            l, r = c['lstring'], c['rstring']
            rs = c.f(c.field(f, 'tokenizer'), 'return_set')
            ov = S.isectV(S.toks(rs, l), S.toks(rs, r))
            missing = z3.Or(N.val_isnull(l), N.val_isnull(r))
            empty = z3.Or(N.val_empty(l), N.val_empty(r))
            return [('exact', res.t == z3.If(missing, z3.Not(c.f(f, 'allow_missing')),
                                             z3.If(empty, z3.BoolVal(True),
                                                   z3.Not(OPF[op](ov, c.f(f, 'overlap_size'))))))]
    return FilterPair()


register(QF + 'filter_pair', [_filter_pair(op) for op in OPS3], props=('C04', 'C06', 'C08'))


# ============================================================================ _filter_tables_split
from .splits import SplitCfg, make_split_cases, done_rows, done_keys  # noqa
from .rowspec import cidx  # noqa
from pyvc.pandas_model import val_of_int  # noqa


class OverlapSplitCfg(SplitCfg):
    qualname = 'py_stringsimjoin.filter.overlap_filter._filter_tables_split'
    props = ('C01', 'C02', 'C04', 'C06', 'C11', 'C14')

    def params(self, l_none, r_none, op='>=', size_ty=INT):
        return OD([('ltable', ROWS), ('rtable', ROWS), ('l_columns', LV), ('r_columns', LV),
                   ('l_key_attr', VAL), ('r_key_attr', VAL), ('l_filter_attr', VAL), ('r_filter_attr', VAL),
                   ('overlap_filter', filter_obj(op, size_ty)),
                   ('l_out_attrs', NONE if l_none else LV), ('r_out_attrs', NONE if r_none else LV),
                   ('l_out_prefix', VAL), ('r_out_prefix', VAL), ('out_sim_score', BOOL), ('show_progress', BOOL)])

    def specs(self, c, op='>=', size_ty=INT):
        class Sp(object):
            pass
        sp = Sp()
        f = c.p('overlap_filter')
        sp.lt, sp.rt, sp.lcols, sp.rcols = c.p('ltable'), c.p('rtable'), c.p('l_columns'), c.p('r_columns')
        sp.lkey, sp.rkey, sp.lattr, sp.rattr = c['l_key_attr'], c['r_key_attr'], c['l_filter_attr'], c['r_filter_attr']
        sp.lp, sp.rp = c['l_out_prefix'], c['r_out_prefix']
        rs = c.f(c.field(f, 'tokenizer'), 'return_set')
        lj, rj = cidx(sp.lcols, sp.lattr), cidx(sp.rcols, sp.rattr)
        sp.Tl = lambda a: S.toks(rs, L_get(LV, at(sp.lt, a), lj))
        sp.Tr = lambda b: S.toks(rs, L_get(LV, at(sp.rt, b), rj))
        sp.o = lambda a, b: S.isectV(sp.Tl(a), sp.Tr(b))
        size = R_(c.f(f, 'overlap_size'))
        sp.must = lambda a, b: OPF[op](z3.ToReal(sp.o(a, b)), size)       # exact: must == may  (C06)
        sp.may = sp.must
        sp.score = lambda a, b: val_of_int(sp.o(a, b))
        sp.lj, sp.rj, sp.rs = lj, rj, rs
        return sp

    def requires(self, c, sp, lo, ro, op='>=', size_ty=INT):
        r = z3.Int('r!oreq')
        f = c.p('overlap_filter')
        return [('set-mode', sp.rs), ('overlap-size-positive', R_(c.f(f, 'overlap_size')) > 0),
                ('filter-values-present', z3.And(
                    FA([r], z3.Implies(z3.And(r >= 0, r < ln(sp.lt)),
                                       z3.Not(N.val_isnull(L_get(LV, at(sp.lt, r), sp.lj)))), [at(sp.lt, r)]),
                    FA([r], z3.Implies(z3.And(r >= 0, r < ln(sp.rt)),
                                       z3.Not(N.val_isnull(L_get(LV, at(sp.rt, r), sp.rj)))), [at(sp.rt, r)])))]

    def setup(self, c, op='>=', size_ty=INT):
        return spec_axioms()

    def appends(self):
        return [(0, lambda c: (c.t('cand'), c.loop_idx[-2]))]

    def loops(self):
        return {'0': done_rows, '0.0': done_keys}

    def extra_hooks(self, op='>=', size_ty=INT):
        def after_fc(c):
            sp = self.specs(c, op=op, size_ty=size_ty)
            ri = c.loop_idx[-1]
            co = c.call_result
            a = z3.Int('a!ofc')
            inl = z3.And(a >= 0, a < ln(sp.lt))
            val = z3.If(D_has(CAND, co.t, a), D_get(CAND, co.t, a), 0)
            c.asserts.append(('candidate-counts-are-overlaps', FA([a], z3.Implies(inl, val == sp.o(a, ri)),
                                                                 [sp.Tl(a)])))
        return (Hook('overlap_filter.find_candidates', after_fc, ()),)


_ocfg = OverlapSplitCfg()
register(_ocfg.qualname,
         make_split_cases(_ocfg, [('%s-%s-%s' % (op, 'None' if a else 'list', 'None' if b else 'list'), a, b, dict(op=op))
                                  for op in OPS3 for a in (False, True) for b in (False, True)] +
                         [('>=-None-None-float-size', True, True, dict(op='>=', size_ty=FLOAT))]),
         props=_ocfg.props)


# ============================================================================ OverlapFilter.filter_tables
from .drivers import DriverCfg, driver_cases  # noqa
from pyvc.pandas_model import DF  # noqa


class OverlapTablesCfg(DriverCfg):
    qualname = QF + 'filter_tables'
    core_target = '_filter_tables_split'
    core_qual = 'py_stringsimjoin.filter.overlap_filter._filter_tables_split'
    props = ('C04', 'C06', 'C08', 'C10', 'C11', 'C15')

    def params(self, l_none, r_none, op='>=', size_ty=INT):
        return OD([('self', filter_obj(op, size_ty)), ('ltable', DF), ('rtable', DF), ('l_key_attr', VAL), ('r_key_attr', VAL),
                   ('l_filter_attr', VAL), ('r_filter_attr', VAL),
                   ('l_out_attrs', NONE if l_none else LV), ('r_out_attrs', NONE if r_none else LV),
                   ('l_out_prefix', VAL), ('r_out_prefix', VAL), ('out_sim_score', BOOL), ('n_jobs', INT),
                   ('show_progress', BOOL)])

    def allow_missing(self, c):
        return c.f(c.p('self'), 'allow_missing')

    def extra_requires(self, c, op='>=', size_ty=INT):
        f = c.p('self')
        return [('object-invariant-overlap-size-positive', R_(c.f(f, 'overlap_size')) > 0),
                # C06 is stated for a set-returning tokenizer (overlap_join arranges it); a bag
                # tokenizer counts repeated tokens
                ('set-mode', c.f(c.field(f, 'tokenizer'), 'return_set'))]


_otc = OverlapTablesCfg()
register(_otc.qualname,
         driver_cases(_otc, [('%s-%s-%s' % (op, 'None' if a else 'list', 'None' if b else 'list'), a, b, dict(op=op))
                             for (op, a, b) in [('>=', False, False), ('>=', True, True), ('>=', False, True),
                                                ('>=', True, False), ('>', True, True), ('=', False, False)]] +
                      [('>=-None-None-float-size', True, True, dict(op='>=', size_ty=FLOAT))],
                      bad_extra=dict(op='>=')),
         props=_otc.props)


# ============================================================================ overlap_join_py
from .rowspec import header_facts, out_header_theorem  # noqa

OJ = 'py_stringsimjoin.join.overlap_join_py.overlap_join_py'


def _overlap_join(op, l_none, r_none, size_ty=INT, tables=(True, True), tok_ok=True):
    class OverlapJoin(Case):
        """overlap_join_py = OverlapFilter(tokenizer in set mode, threshold, comp_op, allow_missing)
        .filter_tables(...); whatever happens, the tokenizer's return_set flag is restored."""
        name = '%s-%s-%s%s%s%s' % (op, 'None' if l_none else 'list', 'None' if r_none else 'list',
                                   '' if size_ty == INT else '-float-threshold',
                                   '' if tables == (True, True) else '-table-not-a-DataFrame',
                                   '' if tok_ok else '-tokenizer-not-a-Tokenizer')
        params = OD([('ltable', DF if tables[0] else VAL), ('rtable', DF if tables[1] else VAL),
                     ('l_key_attr', VAL), ('r_key_attr', VAL), ('l_join_attr', VAL), ('r_join_attr', VAL),
                     ('tokenizer', TOKENIZER if tok_ok else VAL), ('threshold', size_ty), ('comp_op', vstr(op)),
                     ('allow_missing', BOOL), ('l_out_attrs', NONE if l_none else LV),
                     ('r_out_attrs', NONE if r_none else LV), ('l_out_prefix', VAL), ('r_out_prefix', VAL),
                     ('out_sim_score', BOOL), ('n_jobs', INT), ('show_progress', BOOL)])
        returns = DF

        @staticmethod
        def outs(c):
            return (None if l_none else c.p('l_out_attrs'), None if r_none else c.p('r_out_attrs'))

        def requires(self, c):
            if tables != (True, True) or not tok_ok:
                return []
            lt, rt = c.p('ltable'), c.p('rtable')
            s_ = z3.Const('s!dom', ValSort)
            rs = z3.Bool('rs!dom')
            from .drivers import no_id_collision
            lo, ro = self.outs(c)
            return [('table-size-domain', z3.And(ln(rec_field(lt, 'rows')) <= S.MAXTOK,
                                                 ln(rec_field(rt, 'rows')) <= S.MAXTOK)),
                    ('token-count-domain', FA([rs, s_], L_len(LV, S.toks(rs, s_)) <= S.MAXTOK, [S.toks(rs, s_)])),
                    ('output-names-do-not-collide-with-_id', no_id_collision(c, lo, ro, c['out_sim_score']))]

        def raises(self, c):
            if not tok_ok:
                return {'TypeError': z3.BoolVal(True)}
            thr_ok = R_(c['threshold']) > 0
            op_ok = z3.BoolVal(op in OPS3)
            if tables != (True, True):
                # the filter constructor validates threshold and operator first
                return {'AssertionError': z3.Not(z3.And(thr_ok, op_ok)), 'TypeError': z3.And(thr_ok, op_ok)}
            cfg = _otc
            lo, ro = self.outs(c)

            class View(object):      # the documented preconditions in terms of this function's parameter names
                pass
            pre = z3.And(thr_ok, op_ok, _join_pre(c, lo, ro))
            return {'AssertionError': z3.Not(pre)}

        def ensures(self, c, res):
            lo, ro = self.outs(c)
            lkey, rkey = c['l_key_attr'], c['r_key_attr']
            dl = None if l_none else V(LV, S.dedup(lo.t, lkey))
            dr = None if r_none else V(LV, S.dedup(ro.t, rkey))
            rows, cols = rec_field(res, 'rows'), rec_field(res, 'cols')
            k = z3.Int('k')
            sc = c['out_sim_score']
            fs = []
            for with_score in (True, False):
                for (lab, f) in header_facts(cols, lkey, rkey, dl, dr, c['l_out_prefix'], c['r_out_prefix'],
                                             True, with_score):
                    fs.append((lab + ('-with-score' if with_score else '-no-score'),
                               z3.Implies(sc if with_score else z3.Not(sc), f)))
            fs.append(('_id-is-0..n-1', FA([k], z3.Implies(z3.And(k >= 0, k < ln(rows)),
                                                           L_get(LV, at(rows, k), ival(0)) == val_of_int(k)),
                                           [at(rows, k)])))
            return fs
    return OverlapJoin()


def _join_pre(c, lo, ro):
    from . import validation as VC2
    from pyvc.pandas_model import col_index as ci
    lt, rt = c.p('ltable'), c.p('rtable')
    lcols, rcols = rec_field(lt, 'cols'), rec_field(rt, 'cols')
    ldt = L_get(LV, R_get(DF, lt.t, 'dtypes'), ci(lcols.t, c['l_join_attr']))
    rdt = L_get(LV, R_get(DF, rt.t, 'dtypes'), ci(rcols.t, c['r_join_attr']))
    from .rowspec import attrs_in as ai
    return z3.And(S.in_list(lcols, c['l_key_attr']), S.in_list(rcols, c['r_key_attr']),
                  S.in_list(lcols, c['l_join_attr']), S.in_list(rcols, c['r_join_attr']),
                  VC2.string_typed(ldt), VC2.string_typed(rdt),
                  ai(lo, lcols) if lo is not None else z3.BoolVal(True),
                  ai(ro, rcols) if ro is not None else z3.BoolVal(True),
                  VC2.key_ok(lt, c['l_key_attr']), VC2.key_ok(rt, c['r_key_attr']))


register(OJ, [_overlap_join('>=', a, b) for a in (False, True) for b in (False, True)] +
         [_overlap_join('>', True, True), _overlap_join('=', False, False), _overlap_join('<=', True, True),
          _overlap_join('>=', True, True, FLOAT),
          _overlap_join('>=', True, True, INT, (False, True)), _overlap_join('>=', True, True, INT, (True, False)),
          _overlap_join('>=', True, True, INT, (True, True), False)],
         props=('C01', 'C02', 'C08', 'C10', 'C11', 'C12', 'C15'))
