"""Specification of output rows and headers shared by every function that emits result rows
(C02, C08, C11): an output row built from source rows lrow / rrow is

    [lrow[key], rrow[key]] ++ [lrow[a] for a in l_out_attrs] ++ [rrow[a] for a in r_out_attrs] ++ [score]?

where cells are addressed through the position (list.index) of the attribute name in the
column list of the array the rows come from."""
import z3
from .common import *  # noqa


def cidx(cols, name):
    return L_index(LV, cols.t, name)


def n_outs(outs):
    return ival(0) if outs is None else ln(outs)


def row_facts(row_at, lrow_at, rrow_at, guard, qvars, lcols, rcols, lkey, rkey, louts, routs, score, pats):
    """Facts (label, formula) stating that for all instantiations of `qvars` satisfying `guard`,
    row_at() is the output row built from lrow_at() and rrow_at().  score: None (no score cell) or
    a z3 Val term / callable giving the score cell.  row_at etc. are z3 list terms (sort LV)
    depending on qvars."""
    nl, nr = n_outs(louts), n_outs(routs)
    j = z3.Int('j!cell')
    width = 2 + nl + nr + (1 if score is not None else 0)
    cell = lambda r, q: L_get(LV, r, q)
    out = [('row-width-and-keys', FA(qvars, z3.Implies(guard, z3.And(
        L_len(LV, row_at) == width,
        cell(row_at, ival(0)) == cell(lrow_at, cidx(lcols, lkey)),
        cell(row_at, ival(1)) == cell(rrow_at, cidx(rcols, rkey)))), pats))]
    if louts is not None:
        out.append(('left-output-cells', FA(list(qvars) + [j], z3.Implies(
            z3.And(guard, j >= 0, j < nl),
            cell(row_at, 2 + j) == cell(lrow_at, cidx(lcols, at(louts, j)))),
            [z3.MultiPattern(pats[0], at(louts, j))])))
    if routs is not None:
        out.append(('right-output-cells', FA(list(qvars) + [j], z3.Implies(
            z3.And(guard, j >= 0, j < nr),
            cell(row_at, 2 + nl + j) == cell(rrow_at, cidx(rcols, at(routs, j)))),
            [z3.MultiPattern(pats[0], at(routs, j))])))
    if score is not None:
        out.append(('score-cell', FA(qvars, z3.Implies(guard, cell(row_at, 2 + nl + nr) == score), pats)))
    return out


def header_facts(header, lkey, rkey, louts, routs, lp, rp, with_id, score, assumed=False):
    """header = ['_id']? ++ [lp+lkey, rp+rkey] ++ lp+louts ++ rp+routs ++ ['_sim_score']?"""
    nl, nr = n_outs(louts), n_outs(routs)
    off = 1 if with_id else 0
    j = z3.Int('j!hdr')
    cat = S.concat
    fs = [('header-width-and-keys', z3.And(
        ln(header) == off + 2 + nl + nr + (1 if score else 0),
        at(header, off) == cat(lp, lkey), at(header, off + 1) == cat(rp, rkey)))]
    if with_id:
        fs.append(('header-id', at(header, 0) == strconst('_id')))
    p = z3.Int('p!hdr')
    if louts is not None:
        # as an assumption the by-index form must not create header terms (it would ping-pong with
        # the by-position form): it fires only on an existing header element
        fs.append(('header-left-names', FA([j], z3.Implies(z3.And(j >= 0, j < nl),
                                                           at(header, off + 2 + j) == cat(lp, at(louts, j))),
                                           [z3.MultiPattern(at(louts, j), at(header, off + 2 + j))] if assumed
                                           else [at(louts, j)])))
        fs.append(('header-left-names-by-position', FA([p], z3.Implies(
            z3.And(p >= off + 2, p < off + 2 + nl), at(header, p) == cat(lp, at(louts, p - off - 2))), [at(header, p)])))
    if routs is not None:
        fs.append(('header-right-names', FA([j], z3.Implies(z3.And(j >= 0, j < nr),
                                                            at(header, off + 2 + nl + j) == cat(rp, at(routs, j))),
                                            [z3.MultiPattern(at(routs, j), at(header, off + 2 + nl + j))] if assumed
                                            else [at(routs, j)])))
        fs.append(('header-right-names-by-position', FA([p], z3.Implies(
            z3.And(p >= off + 2 + nl, p < off + 2 + nl + nr),
            at(header, p) == cat(rp, at(routs, p - off - 2 - nl))), [at(header, p)])))
    if score:
        fs.append(('header-score', at(header, off + 2 + nl + nr) == strconst('_sim_score')))
    return fs


def attrs_in(outs, cols):
    """every requested attribute is a column"""
    if outs is None:
        return z3.BoolVal(True)
    j = z3.Int('j!ain')
    return FA([j], z3.Implies(z3.And(j >= 0, j < ln(outs)), S.in_list(cols, at(outs, j))), [at(outs, j)])


def header_term(lkey, rkey, louts, routs, lp, rp, score):
    """the header list as a term: out_header(...) with '_sim_score' appended iff score (a z3 Bool)"""
    oh = S.out_header(lkey, rkey, None if louts is None else louts.t, None if routs is None else routs.t, lp, rp)
    return z3.If(score, L_append(LV, oh, strconst('_sim_score')), oh)


def out_header_theorem(lkey, rkey, louts, routs, lp, rp):
    """elementwise characterisation of out_header(...): the universally quantified form of the
    postcondition proved on generic_helper.get_output_header_from_tables"""
    oh = V(LV, S.out_header(lkey, rkey, None if louts is None else louts.t, None if routs is None else routs.t, lp, rp))
    return [f for (_, f) in header_facts(oh, lkey, rkey, louts, routs, lp, rp, False, False, assumed=True)]
