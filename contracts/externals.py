"""ASSUMED contracts of py_stringmatching (tokenizers, similarity measures).  Nothing here is
verified; every contract is listed in the evidence and conformance-sampled against the
installed library (replay/conformance.py).

Vocabulary (pyvc/spec.py): toks(rs, s) is the token list tokenize returns for string s with
return_set == rs; isectV / isectI the number of distinct common elements of two lists of
tokens / ranks; nsetV / nsetI the number of distinct elements of a list."""
import z3
from .common import *  # noqa
from pyvc import natives as N

TOKENIZER = ObjSpec('Tokenizer', qval=INT, return_set=BOOL, is_qgram=BOOL)
PSM = 'py_stringmatching.'


class Tokenize(Case):
    name = 'default'
    status = 'assumed'
    params = OD([('self', TOKENIZER), ('input_string', VAL)])
    returns = LV

    def requires(self, c):
        # tokenizing a missing value raises TypeError in py_stringmatching
        return [('string-present', z3.Not(N.val_isnull(c['input_string'])))]

    def ensures(self, c, res):
        rs = c.f(c.p('self'), 'return_set')
        s = c['input_string']
        return [('deterministic', res.t == S.toks(rs, s))] + [('toks-facts', f) for f in S.toks_facts(rs, s)]


register(PSM + 'tokenizer.tokenizer.Tokenizer.tokenize', [Tokenize()], props=())


class GetReturnSet(Case):
    name = 'default'
    status = 'assumed'
    params = OD([('self', TOKENIZER)])
    returns = BOOL

    def ensures(self, c, res):
        return [('value', res.t == c.f(c.p('self'), 'return_set'))]


class SetReturnSet(Case):
    name = 'default'
    status = 'assumed'
    params = OD([('self', TOKENIZER), ('return_set', BOOL)])
    returns = BOOL
    modifies = ('self.return_set',)

    def ensures(self, c, res):
        return [('flag-set', c.f(c.p('self'), 'return_set') == c['return_set'])]


register(PSM + 'tokenizer.tokenizer.Tokenizer.get_return_set', [GetReturnSet()])
register(PSM + 'tokenizer.tokenizer.Tokenizer.set_return_set', [SetReturnSet()])


# ----------------------------------------------------------------- similarity measures
def _measure(M, elem_ty, isect, nset):
    lt = ListT(elem_ty)

    class RawScore(Case):
        name = 'lists-of-' + type(elem_ty).__name__
        status = 'assumed'
        params = OD([('self', ObjSpec(M)), ('set1', lt), ('set2', lt)])
        returns = FLOAT

        def ensures(self, c, res):
            a, b = c.p('set1'), c.p('set2')
            o, n, m = isect(a.t, b.t), nset(a.t), nset(b.t)
            MM = {'Jaccard': 'JACCARD', 'Cosine': 'COSINE', 'Dice': 'DICE',
                  'OverlapCoefficient': 'OVERLAP_COEFFICIENT'}[M]
            # 1.0 on equal inputs, 0 if exactly one side is empty (and 1.0 if both are: equal inputs)
            return [('value', res.t == z3.If(z3.And(n == 0, m == 0), z3.RealVal(1),
                                             z3.If(z3.Or(n == 0, m == 0), z3.RealVal(0),
                                                   S.simval[MM](o, n, m)))),
                    ('isect-facts', z3.And(*S.isect_facts(elem_ty, a, b)))]
    return RawScore()


for _M, _mod in (('Jaccard', 'jaccard'), ('Cosine', 'cosine'), ('Dice', 'dice'),
                 ('OverlapCoefficient', 'overlap_coefficient')):
    register(PSM + 'similarity_measure.%s.%s.get_raw_score' % (_mod, _M),
             [_measure(_M, INT, S.isectI, S.nsetI), _measure(_M, VAL, S.isectV, S.nsetV)])


def _ctor(cls):
    def f(ex, st, args, kw, e):
        a = N.new_addr()
        st.heap[a] = {}
        st.fresh_objs.add(a)
        return V(ObjT(cls), a)
    return f


for _M, _mod in (('Jaccard', 'jaccard'), ('Cosine', 'cosine'), ('Dice', 'dice'),
                 ('OverlapCoefficient', 'overlap_coefficient'), ('Levenshtein', 'levenshtein')):
    N.QUALIFIED[PSM + 'similarity_measure.%s.%s' % (_mod, _M)] = _ctor(_M)


class Lev(Case):
    name = 'default'
    status = 'assumed'
    params = OD([('self', ObjSpec('Levenshtein')), ('string1', VAL), ('string2', VAL)])
    returns = INT

    def ensures(self, c, res):
        a, b = c['string1'], c['string2']
        return [('value', res.t == S.lev(a, b)), ('nonneg', res.t >= 0)]


register(PSM + 'similarity_measure.levenshtein.Levenshtein.get_raw_score', [Lev()])
