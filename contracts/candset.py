"""Contracts for filter/filter.py (filter_candset, _filter_candset_split) and
generic_helper.build_dict_from_table (C06, C05, C08).

filter_candset is generic in the filter: filter_pair is treated as a deterministic function
fp(filter, l, r) of the two values (an ASSUMED contract of the filter object here; the concrete
filter_pair methods have their own contracts).  The result is exactly candset[mask] with
mask[k] = not fp(filter, value_l(k), value_r(k)): same columns, order and index labels."""
import z3
from .common import *  # noqa
from . import validation as VC
from pyvc.pandas_model import DF, LB, sel_rows, sel_index, col_index, col_vals
from pyvc import natives as N

GH = 'py_stringsimjoin.utils.generic_helper.'
FQ = 'py_stringsimjoin.filter.filter.'
ROWMAP = DictT(VAL, LV)
ANYFILTER = ObjSpec('AnyFilter', fid=VAL, allow_missing=BOOL)
fp = z3.Function('filter_pair_fn', ValSort, ValSort, ValSort, B)       # fp(filter id, lvalue, rvalue): dropped?


def b_tuple(ex, st, args, kw, e):
    v = args[0]
    if isinstance(v.ty, ListT):
        return v            # tuple(row): same cells (value semantics)
    raise Undecided('tuple() of %r' % (v.ty,))


from pyvc.contract import Undecided  # noqa
N.BUILTINS['tuple'] = b_tuple


# ------------------------------------------------------------------ build_dict_from_table
def key_col_distinct(rows, kidx):
    i, j = ints('i!kd j!kd')
    return FA([i, j], z3.Implies(z3.And(i >= 0, i < j, j < ln(rows)),
                                 L_get(LV, at(rows, i), kidx) != L_get(LV, at(rows, j), kidx)),
              [z3.MultiPattern(at(rows, i), at(rows, j))])


class BuildDict(Case):
    name = 'keep-null'
    params = OD([('table', DF), ('key_attr_index', INT), ('join_attr_index', INT), ('remove_null', vbool(False))])
    returns = ROWMAP
    locals = {'table_dict': ROWMAP}

    def requires(self, c):
        t = c.p('table')
        rows, cols = rec_field(t, 'rows'), rec_field(t, 'cols')
        k, j = c['key_attr_index'], c['join_attr_index']
        return [('indices-in-range', z3.And(k >= 0, k < ln(cols), j >= 0, j < ln(cols))),
                ('keys-distinct', key_col_distinct(rows, k))]

    @staticmethod
    def facts(c, d, upto):
        t = c.p('table')
        rows = rec_field(t, 'rows')
        k = c['key_attr_index']
        r = z3.Int('r!bd')
        key = lambda q: L_get(LV, at(rows, q), k)
        x = z3.Const('x!bd', ValSort)
        rowof = c.ghost_out('rowof', ArrT(VAL, INT))
        return [('every-row-by-its-key', FA([r], z3.Implies(z3.And(r >= 0, r < upto), z3.And(
            D_has(ROWMAP, d, key(r)), D_get(ROWMAP, d, key(r)) == at(rows, r))), [at(rows, r)])),
            ('only-keys-of-rows', FA([x], z3.Implies(D_has(ROWMAP, d, x), z3.And(
                rowof[x] >= 0, rowof[x] < upto, key(rowof[x]) == x)), [D_has(ROWMAP, d, x)]))]

    def ghost(self, c):
        return {'rowof': fresh(ArrT(VAL, INT), 'rowof')}

    def _after_store(c):
        pass

    def _inv(c):
        return BuildDict.facts(c, c.t('table_dict'), c.i)

    loops = {'0': LoopSpec(_inv)}

    def ensures(self, c, res):
        return BuildDict.facts(c, res.t, ln(rec_field(c.p('table'), 'rows')))


# the ghost map rowof is updated at the store `table_dict[...] = tuple(row)`: there is no call to hook
# on, so the invariant is stated with an existential-free trick: rowof is updated through the loop's
# own index via a hook on tuple()
def _rowof_hook(c):
    t = c.p('table')
    rows = rec_field(t, 'rows')
    i = c.loop_idx[-1]
    key = L_get(LV, at(rows, i), c['key_attr_index'])
    c.ghost['rowof'] = V(ArrT(VAL, INT), z3.Store(c.ghost['rowof'].t, key, i))


BuildDict.hooks = (Hook('tuple', _rowof_hook, ('rowof',)),)

register(GH + 'build_dict_from_table', [BuildDict()], props=('C05', 'C06', 'C08'))


# ------------------------------------------------------------------ the filter object (generic)
class AnyFilterPair(Case):
    name = 'deterministic'
    status = 'assumed'
    params = OD([('self', ANYFILTER), ('lstring', VAL), ('rstring', VAL)])
    returns = BOOL

    def ensures(self, c, res):
        return [('value', res.t == fp(c.f(c.p('self'), 'fid'), c['lstring'], c['rstring']))]


register('abstract.AnyFilter.filter_pair', [AnyFilterPair()])


# ------------------------------------------------------------------ _filter_candset_split
def keys_resolve(cand, cidx_, table, kidx):
    """every candset row's key is the key of some table row (foreign key)"""
    crows, trows = rec_field(cand, 'rows'), rec_field(table, 'rows')
    k, r = ints('k!fk r!fk')
    return FA([k], z3.Implies(z3.And(k >= 0, k < ln(crows)), z3.Exists([r], z3.And(
        r >= 0, r < ln(trows), L_get(LV, at(trows, r), kidx) == L_get(LV, at(crows, k), cidx_)))),
        [at(crows, k)])


class CandsetSplit(Case):
    name = 'default'
    params = OD([('candset', DF), ('candset_l_key_attr', VAL), ('candset_r_key_attr', VAL), ('ltable', DF),
                 ('rtable', DF), ('l_key_attr', VAL), ('r_key_attr', VAL), ('l_filter_attr', VAL),
                 ('r_filter_attr', VAL), ('filter_object', ANYFILTER), ('show_progress', BOOL)])
    returns = DF
    locals = {'valid_rows': LB}

    @staticmethod
    def idx(c):
        cs, lt, rt = c.p('candset'), c.p('ltable'), c.p('rtable')
        cc, lc, rc = rec_field(cs, 'cols'), rec_field(lt, 'cols'), rec_field(rt, 'cols')
        return dict(cl=col_index(cc.t, c['candset_l_key_attr']), cr=col_index(cc.t, c['candset_r_key_attr']),
                    lk=col_index(lc.t, c['l_key_attr']), rk=col_index(rc.t, c['r_key_attr']),
                    lf=col_index(lc.t, c['l_filter_attr']), rf=col_index(rc.t, c['r_filter_attr']))

    def requires(self, c):
        cs, lt, rt = c.p('candset'), c.p('ltable'), c.p('rtable')
        cc, lc, rc = rec_field(cs, 'cols'), rec_field(lt, 'cols'), rec_field(rt, 'cols')
        ix = self.idx(c)
        return [('attributes-are-columns', z3.And(
            S.in_list(cc, c['candset_l_key_attr']), S.in_list(cc, c['candset_r_key_attr']),
            S.in_list(lc, c['l_key_attr']), S.in_list(lc, c['l_filter_attr']),
            S.in_list(rc, c['r_key_attr']), S.in_list(rc, c['r_filter_attr']))),
            ('table-keys-distinct', z3.And(key_col_distinct(rec_field(lt, 'rows'), ix['lk']),
                                           key_col_distinct(rec_field(rt, 'rows'), ix['rk']))),
            ('candset-keys-exist', z3.And(keys_resolve(cs, ix['cl'], lt, ix['lk']),
                                          keys_resolve(cs, ix['cr'], rt, ix['rk'])))]

    @staticmethod
    def mask_facts(c, mask, upto):
        """mask[k] == not fp(filter, l-value of candset row k, r-value of candset row k)"""
        cs, lt, rt = c.p('candset'), c.p('ltable'), c.p('rtable')
        crows, lrows, rrows = rec_field(cs, 'rows'), rec_field(lt, 'rows'), rec_field(rt, 'rows')
        ix = CandsetSplit.idx(c)
        fid = c.f(c.p('filter_object'), 'fid')
        k, a, b = ints('k!mk a!mk b!mk')
        return [('mask-length', L_len(LB, mask) == upto),
                ('mask-is-row-wise-filter_pair', FA([k, a, b], z3.Implies(
                    z3.And(k >= 0, k < upto, a >= 0, a < ln(lrows), b >= 0, b < ln(rrows),
                           L_get(LV, at(lrows, a), ix['lk']) == L_get(LV, at(crows, k), ix['cl']),
                           L_get(LV, at(rrows, b), ix['rk']) == L_get(LV, at(crows, k), ix['cr'])),
                    L_get(LB, mask, k) == z3.Not(fp(fid, L_get(LV, at(lrows, a), ix['lf']),
                                                    L_get(LV, at(rrows, b), ix['rf'])))),
                    [z3.MultiPattern(L_get(LB, mask, k), at(lrows, a), at(rrows, b))]))]

    def _inv(c):
        return CandsetSplit.mask_facts(c, c.t('valid_rows'), c.i)

    loops = {'0': LoopSpec(_inv)}

    def ensures(self, c, res):
        cs = c.p('candset')
        mask = c.t('valid_rows') if c.proving else c.ghost_out('mask', LB)
        fs = CandsetSplit.mask_facts(c, mask, ln(rec_field(cs, 'rows')))
        fs += [('result-is-the-masked-candset', z3.And(
            R_get(DF, res.t, 'rows') == sel_rows(R_get(DF, cs.t, 'rows'), mask),
            R_get(DF, res.t, 'index') == sel_index(R_get(DF, cs.t, 'index'), mask),
            R_get(DF, res.t, 'cols') == R_get(DF, cs.t, 'cols')))]
        return fs


register(FQ + '_filter_candset_split', [CandsetSplit()], props=('C06', 'C08'))


# ------------------------------------------------------------------ Filter.filter_candset
def candset_pre(c, attrs=('l_filter_attr', 'r_filter_attr'), type_checked=True):
    cs, lt, rt = c.p('candset'), c.p('ltable'), c.p('rtable')
    cc, lc, rc = rec_field(cs, 'cols'), rec_field(lt, 'cols'), rec_field(rt, 'cols')
    la, ra = c[attrs[0]], c[attrs[1]]
    fs = [S.in_list(cc, c['candset_l_key_attr']), S.in_list(cc, c['candset_r_key_attr']),
          S.in_list(lc, c['l_key_attr']), S.in_list(rc, c['r_key_attr']), S.in_list(lc, la), S.in_list(rc, ra)]
    if type_checked:
        ldt = L_get(LV, R_get(DF, lt.t, 'dtypes'), col_index(lc.t, la))
        rdt = L_get(LV, R_get(DF, rt.t, 'dtypes'), col_index(rc.t, ra))
        fs += [VC.string_typed(ldt), VC.string_typed(rdt)]
    fs += [VC.key_ok(lt, c['l_key_attr']), VC.key_ok(rt, c['r_key_attr'])]
    return z3.And(*fs)


class FilterCandset(Case):
    """C06: exactly the sub-table of the candidate set (same columns, order, index labels) whose
    rows reference value pairs that filter_pair does not drop (serial path; the parallel path's
    chunk calls and concat preconditions are proved, row-level equality is bounded)."""
    name = 'default'
    params = OD([('self', ANYFILTER), ('candset', DF), ('candset_l_key_attr', VAL), ('candset_r_key_attr', VAL),
                 ('ltable', DF), ('rtable', DF), ('l_key_attr', VAL), ('r_key_attr', VAL),
                 ('l_filter_attr', VAL), ('r_filter_attr', VAL), ('n_jobs', INT), ('show_progress', BOOL)])
    returns = DF

    def requires(self, c):
        cs, lt, rt = c.p('candset'), c.p('ltable'), c.p('rtable')
        ix = CandsetSplit.idx(c)
        return [('candset-size-domain', ln(rec_field(cs, 'rows')) <= S.MAXTOK),
                # the candidate set references existing keys (the format the filters produce)
                ('candset-keys-exist', z3.Implies(candset_pre(c), z3.And(
                    keys_resolve(cs, ix['cl'], lt, ix['lk']), keys_resolve(cs, ix['cr'], rt, ix['rk']))))]

    def raises(self, c):
        return {'AssertionError': z3.Not(candset_pre(c))}

    def ghost(self, c):
        return {'serial': vbool(False), 'mask': fresh(LB, 'nomask')}

    def _after_split(c):
        c.ghost['serial'] = vbool(True)
        c.ghost['mask'] = V(LB, c.last_call['ghost_outs']['mask'])

    hooks = (Hook('_filter_candset_split', _after_split, ('serial', 'mask'), nth=0),)

    def ensures(self, c, res):
        cs, lt, rt = c.p('candset'), c.p('ltable'), c.p('rtable')
        crows, lrows, rrows = rec_field(cs, 'rows'), rec_field(lt, 'rows'), rec_field(rt, 'rows')
        ix = CandsetSplit.idx(c)
        fid = c.f(c.p('self'), 'fid')
        serial = c.ghost_out('serial', BOOL)
        mask = c.ghost_out('mask', LB)
        empty = z3.Or(ln(crows) == 0, ln(rec_field(cs, 'cols')) == 0)
        k, a, b = ints('k!fc a!fc b!fc')
        return [
            ('empty-candset-returned-as-is', z3.Implies(empty, res.t == cs.t)),
            ('same-columns', R_get(DF, res.t, 'cols') == R_get(DF, cs.t, 'cols')),
            ('serial-result-is-masked-candset', z3.Implies(z3.And(serial, z3.Not(empty)), z3.And(
                R_get(DF, res.t, 'rows') == sel_rows(crows.t, mask),
                R_get(DF, res.t, 'index') == sel_index(R_get(DF, cs.t, 'index'), mask),
                L_len(LB, mask) == ln(crows)))),
            ('serial-mask-is-row-wise-filter_pair', z3.Implies(z3.And(serial, z3.Not(empty)), FA([k, a, b], z3.Implies(
                z3.And(k >= 0, k < ln(crows), a >= 0, a < ln(lrows), b >= 0, b < ln(rrows),
                       L_get(LV, at(lrows, a), ix['lk']) == L_get(LV, at(crows, k), ix['cl']),
                       L_get(LV, at(rrows, b), ix['rk']) == L_get(LV, at(crows, k), ix['cr'])),
                L_get(LB, mask, k) == z3.Not(fp(fid, L_get(LV, at(lrows, a), ix['lf']),
                                                L_get(LV, at(rrows, b), ix['rf'])))),
                [z3.MultiPattern(L_get(LB, mask, k), at(lrows, a), at(rrows, b))]))),
        ]


class FilterCandsetBad(Case):
    name = 'candset-not-a-DataFrame'
    params = OD([('self', ANYFILTER), ('candset', VAL), ('candset_l_key_attr', VAL), ('candset_r_key_attr', VAL),
                 ('ltable', DF), ('rtable', DF), ('l_key_attr', VAL), ('r_key_attr', VAL),
                 ('l_filter_attr', VAL), ('r_filter_attr', VAL), ('n_jobs', INT), ('show_progress', BOOL)])
    returns = DF

    def raises(self, c):
        return {'TypeError': z3.BoolVal(True)}


register(FQ + 'Filter.filter_candset', [FilterCandset(), FilterCandsetBad()], props=('C06', 'C08', 'C10', 'C15'))
