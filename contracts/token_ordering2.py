"""token_ordering.py: proved contracts (replace the bounded stand-ins K1 / K2 of contracts/token_ordering.py).

K2  order_using_token_ordering: the result is the ascending list of the ranks of the tokens that have a
    rank (one entry per such token occurrence): length facts, sortedness, strictness for duplicate-free
    tokens under an injective ordering, and the correspondence rank <-> token are PROVED from the code
    and the assumed semantics of dict.get / list.sort; `ranks(o, tokens)` is the NAME of that result
    (the function is pure: assumed determinism).
K1  gen_token_ordering_for_tables: defined on every token of every row of both tables, injective,
    positive: PROVED from the code and the assumed semantics of dict.items / sorted."""
import z3
from .common import *  # noqa
from .externals import TOKENIZER
import pyvc.natives_sort  # noqa  (registers the builtin models)
from .token_ordering import Q, ORD, ord_injective, ord_positive, covers_table, table_ok, all_ranked
from pyvc import natives as N

AII = ArrT(INT, INT)


class OrderUsing(Case):
    name = 'default'
    params = OD([('tokens', LV), ('token_ordering', ORD)])
    returns = LI
    locals = {'ordered_tokens': LI}

    def ghost(self, c):
        return {'src': fresh(AII, 'src'), 'dst': fresh(AII, 'dst')}

    def _after_append(c):
        P = c.v('ordered_tokens')
        i = c.loop_idx[-1]
        c.ghost['src'] = V(AII, z3.Store(c.ghost['src'].t, ln(P) - 1, i))
        c.ghost['dst'] = V(AII, z3.Store(c.ghost['dst'].t, i, ln(P) - 1))

    hooks = (Hook('ordered_tokens.append', _after_append, ('src', 'dst')),)

    @staticmethod
    def collected(c, P, upto):
        o, tk = c['token_ordering'], c.p('tokens')
        src, dst = c.ghost_out('src', AII), c.ghost_out('dst', AII)
        k, k2, i = ints('k!ou k2!ou i!ou')
        n = ln(P)
        has = lambda q: D_has(ORD, o, at(tk, q))
        rank = lambda q: D_get(ORD, o, at(tk, q))
        return [
            ('elements-are-ranks', FA([k], z3.Implies(z3.And(k >= 0, k < n), z3.And(
                src[k] >= 0, src[k] < upto, has(src[k]), at(P, k) == rank(src[k]), dst[src[k]] == k)), [at(P, k)])),
            ('source-order', FA([k, k2], z3.Implies(z3.And(k >= 0, k < k2, k2 < n), src[k] < src[k2]),
                                [z3.MultiPattern(src[k], src[k2])])),
            ('ranked-tokens-collected', FA([i], z3.Implies(z3.And(i >= 0, i < upto, has(i)), z3.And(
                dst[i] >= 0, dst[i] < n, src[dst[i]] == i)), [at(tk, i)])),
            ('length', z3.And(n >= 0, n <= upto)),
            ('length-when-all-ranked', z3.Implies(FA([i], z3.Implies(z3.And(i >= 0, i < upto), has(i)), [at(tk, i)]),
                                                  n == upto)),
        ]

    def _inv(c):
        return OrderUsing.collected(c, c.v('ordered_tokens'), c.i)

    loops = {'0': LoopSpec(_inv)}

    def ensures(self, c, res):
        o, tk = c['token_ordering'], c.p('tokens')
        i, j, k = ints('i!or j!or k!or')
        n = ln(res)
        has = lambda q: D_has(ORD, o, at(tk, q))
        rank = lambda q: D_get(ORD, o, at(tk, q))
        fs = [
            ('length', z3.And(n >= 0, n <= ln(tk))),
            ('all-ranked-keeps-length', z3.Implies(all_ranked(o, tk), n == ln(tk))),
            ('ascending', FA([i, j], z3.Implies(z3.And(i >= 0, i < j, j < n), at(res, i) <= at(res, j)),
                             [z3.MultiPattern(at(res, i), at(res, j))])),
            ('strictly-ascending-for-distinct-tokens', z3.Implies(z3.And(S.dupfree(LV, tk.t), ord_injective(o)),
                FA([i, j], z3.Implies(z3.And(i >= 0, i < j, j < n), at(res, i) < at(res, j)),
                   [z3.MultiPattern(at(res, i), at(res, j))]))),
            ('every-element-is-the-rank-of-a-token', FA([k], z3.Implies(z3.And(k >= 0, k < n), z3.Exists(
                [i], z3.And(i >= 0, i < ln(tk), has(i), rank(i) == at(res, k)), patterns=[at(tk, i)])), [at(res, k)])),
            ('every-ranked-token-has-its-rank-listed', FA([i], z3.Implies(z3.And(i >= 0, i < ln(tk), has(i)), z3.Exists(
                [k], z3.And(k >= 0, k < n, at(res, k) == rank(i)), patterns=[at(res, k)])), [at(tk, i)])),
        ]
        if not c.proving:
            from .token_ordering import ranks_facts
            c.ex.assumed_log.append('order_using_token_ordering is pure [assumed: its result is a function of its arguments, '
                                    'named ranks(ordering, tokens); nsetI of a strictly ascending list is its length]')
            fs.append(('deterministic', res.t == S.ranks(o, tk.t)))
            fs += [('ranks-%d' % q, f) for q, f in enumerate(ranks_facts(o, tk))]
        return fs


register(Q + 'order_using_token_ordering', [OrderUsing()], props=('C01', 'C03', 'C04', 'C10'))


# ============================================================================ gen_token_ordering_for_tables
FREQ = DictT(VAL, INT)
ITEM = TupleT(VAL, INT)
LITEM = ListT(ITEM)


class OrderingForTables(Case):
    name = 'two-tables'
    params = OD([('table_list', ListT(ROWS)), ('attr_list', LI), ('tokenizer', TOKENIZER), ('sim_measure_type', VAL)])
    returns = ORD
    locals = {'token_freq_dict': FREQ, 'token_ordering': ORD}

    def requires(self, c):
        tl, al = c.p('table_list'), c.p('attr_list')
        return [('two-tables', z3.And(ln(tl) == 2, ln(al) == 2)),
                ('left-cells-present', table_ok(V(ROWS, at(tl, 0)), at(al, 0))),
                ('right-cells-present', table_ok(V(ROWS, at(tl, 1)), at(al, 1)))]

    @staticmethod
    def counted(c, fd, tb_done, row_done=None, tok_done=None):
        """every token of every processed cell is a key of the frequency dict (with a positive count)"""
        tl, al = c.p('table_list'), c.p('attr_list')
        rs = c.f(c.p('tokenizer'), 'return_set')
        tb, r, j = ints('tb!k1 r!k1 j!k1')
        table = lambda q: V(ROWS, at(tl, q))
        tk = lambda q, rr: S.toks(rs, L_get(LV, at(table(q), rr), at(al, q)))
        key_ok = lambda w: z3.And(D_has(FREQ, fd, w), D_get(FREQ, fd, w) >= 1)
        if row_done is None:
            done = tb < tb_done
        elif tok_done is None:
            done = z3.Or(tb < tb_done, z3.And(tb == tb_done, r < row_done))
        else:
            done = z3.Or(tb < tb_done, z3.And(tb == tb_done, r < row_done),
                         z3.And(tb == tb_done, r == row_done, j < tok_done))
        w = z3.Const('w!k1', ValSort)
        return [('tokens-counted', FA([tb, r, j], z3.Implies(
            z3.And(tb >= 0, tb < 2, r >= 0, r < ln(table(tb)), j >= 0, j < L_len(LV, tk(tb, r)), done),
            key_ok(L_get(LV, tk(tb, r), j))), [L_get(LV, tk(tb, r), j)])),
            ('counts-positive', FA([w], z3.Implies(D_has(FREQ, fd, w), D_get(FREQ, fd, w) >= 1), [D_has(FREQ, fd, w)]))]

    def _inv_tables(c):
        return OrderingForTables.counted(c, c.t('token_freq_dict'), c.i) + [('table-index', c.t('table_index') == c.i)]

    def _inv_rows(c):
        return OrderingForTables.counted(c, c.t('token_freq_dict'), c.outer[-1], c.i) + \
            [('table-index', c.t('table_index') == c.outer[-1])]

    def _inv_tokens(c):
        return OrderingForTables.counted(c, c.t('token_freq_dict'), c.outer[-2], c.outer[-1], c.i) + \
            [('table-index', c.t('table_index') == c.outer[-2])]

    def _inv_assign(c):
        """final loop over the doubly sorted item list S: ranks 1..i given to the (distinct) keys S[0..i)"""
        to = c.t('token_ordering')
        lst = c.seq.src
        k, k2 = ints('k!k1a k2!k1a')
        w = z3.Const('w!k1a', ValSort)
        key = lambda q: T_get(ITEM, L_get(LITEM, lst.t, q), 0)
        fd = c.ghost['freq'].t
        frq = lambda q: D_get(FREQ, fd, key(q))
        return [('order-index', c.t('order_idx') == c.i + 1),
                ('assigned', FA([k], z3.Implies(z3.And(k >= 0, k < c.i), z3.And(
                    D_has(ORD, to, key(k)), D_get(ORD, to, key(k)) == k + 1)), [key(k)])),
                ('only-assigned', FA([w], z3.Implies(D_has(ORD, to, w), z3.Exists(
                    [k], z3.And(k >= 0, k < c.i, key(k) == w), patterns=[key(k)])), [D_has(ORD, to, w)])),
                ('keys-distinct', FA([k, k2], z3.Implies(z3.And(k >= 0, k < k2, k2 < ln(lst)), key(k) != key(k2)),
                                     [z3.MultiPattern(key(k), key(k2))])),
                ('list-ordered-by-frequency-then-token', FA([k, k2], z3.Implies(z3.And(k >= 0, k < k2, k2 < ln(lst)), z3.Or(
                    frq(k) < frq(k2), z3.And(frq(k) == frq(k2), N.val_lt(key(k), key(k2))))),
                    [z3.MultiPattern(key(k), key(k2))])),
                ('every-counted-token-is-listed', FA([w], z3.Implies(D_has(FREQ, c.t('token_freq_dict'), w), z3.Exists(
                    [k], z3.And(k >= 0, k < ln(lst), key(k) == w), patterns=[key(k)])),
                    [D_has(FREQ, c.t('token_freq_dict'), w)]))]

    loops = {'0': LoopSpec(_inv_tables), '0.0': LoopSpec(_inv_rows), '0.0.0': LoopSpec(_inv_tokens),
             '1': LoopSpec(_inv_assign)}

    def ghost(self, c):
        return {'freq': fresh(FREQ, 'freq')}

    def _after_first_sort(c):
        c.ghost['freq'] = c.v('token_freq_dict')        # the final frequency table

    hooks = (Hook('sorted', _after_first_sort, ('freq',), nth=0),)

    def ensures(self, c, res):
        tl, al = c.p('table_list'), c.p('attr_list')
        rs = c.f(c.p('tokenizer'), 'return_set')
        a, b = z3.Consts('a!k1o b!k1o', ValSort)
        fd = c.ghost_out('freq', FREQ)
        fr = lambda x: D_get(FREQ, fd, x)
        rk = lambda x: D_get(ORD, res.t, x)
        return [('covers-left', covers_table(res.t, rs, V(ROWS, at(tl, 0)), at(al, 0))),
                ('covers-right', covers_table(res.t, rs, V(ROWS, at(tl, 1)), at(al, 1))),
                ('injective', ord_injective(res.t)), ('positive', ord_positive(res.t)),
                # C10: rarest first, ties by the token itself -- no dependence on row order or hashing
                ('order-is-frequency-then-token', FA([a, b], z3.Implies(
                    z3.And(D_has(ORD, res.t, a), D_has(ORD, res.t, b), rk(a) < rk(b)),
                    z3.Or(fr(a) < fr(b), z3.And(fr(a) == fr(b), N.val_lt(a, b)))), [z3.MultiPattern(rk(a), rk(b))]))]


register(Q + 'gen_token_ordering_for_tables', [OrderingForTables()], props=('C01', 'C03', 'C04', 'C10'))
