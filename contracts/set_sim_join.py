"""Contract for join/set_sim_join.py  (C01, C02, C09, C11 at the level of one split).

Postcondition, over the projected arrays ltable / rtable (c ranges over left rows, r over
right rows; T_l(c), T_r(r) are the token lists of the join cells in set mode):

  (complete, C01/C09)  for every (c, r): REQ(c, r) or (allow_empty and both token lists empty)
                       ==> exactly one output row stems from (c, r)
  (sound, C02/C09)     every output row stems from exactly one (c, r) which is ALLOWED (reported
                       score satisfies comp_op) with score round4(sim), or both-empty with
                       allow_empty and score 1.0; it is built from those two rows (C11)
  header               [l_prefix+l_key, r_prefix+r_key] ++ outs ++ ['_sim_score']?

REQ(c, r)     = both non-empty, op(sim, t) and op(round4(sim), t)        (C01 `satisfies`)
ALLOWED(c, r) = both non-empty, op(round4(sim), t)
sim           = simval_M(|T_l(c) & T_r(r)|, |T_l(c)|, |T_r(r)|)          (py_stringmatching, assumed)
"""
import operator
import z3
from .common import *  # noqa
from .externals import TOKENIZER
from .rowspec import row_facts, header_facts, attrs_in, cidx, header_term
from .theorems import arithmetic_axioms
from .token_ordering import inj_image, ORD, table_ok
from pyvc import natives as N

Q = 'py_stringsimjoin.join.set_sim_join.set_sim_join'
AII = ArrT(INT, INT)
AIII = ArrT(INT, AII)
OPS = {'>=': lambda a, b: a >= b, '>': lambda a, b: a > b, '=': lambda a, b: a == b}


class Specs(object):
    """property-level predicates for one (measure, operator) over the two arrays"""

    def __init__(self, c, M, op):
        self.c, self.M, self.op = c, M, OPS[op]
        self.lt, self.rt = c.p('ltable'), c.p('rtable')
        self.lcols, self.rcols = c.p('l_columns'), c.p('r_columns')
        self.lj = cidx(self.lcols, c['l_join_attr'])
        self.rj = cidx(self.rcols, c['r_join_attr'])
        self.t = c['threshold']
        self.rs = c.f(c.p('tokenizer'), 'return_set')      # True (precondition set-mode); same term the index uses

    def Tl(self, a):
        return S.toks(self.rs, L_get(LV, at(self.lt, a), self.lj))

    def Tr(self, b):
        return S.toks(self.rs, L_get(LV, at(self.rt, b), self.rj))

    def n(self, a):
        return L_len(LV, self.Tl(a))

    def m(self, b):
        return L_len(LV, self.Tr(b))

    def o(self, a, b):
        return S.isectV(self.Tl(a), self.Tr(b))

    def sim(self, a, b):
        return S.simval[self.M](self.o(a, b), self.n(a), self.m(b))

    def both_empty(self, a, b):
        return z3.And(self.n(a) == 0, self.m(b) == 0)

    def req(self, a, b):
        s = self.sim(a, b)
        return z3.And(self.n(a) >= 1, self.m(b) >= 1, self.op(s, self.t), self.op(S.r4(s), self.t))

    def allowed(self, a, b):
        return z3.And(self.n(a) >= 1, self.m(b) >= 1, self.op(S.r4(self.sim(a, b)), self.t))

    def must_emit(self, a, b):
        return z3.Or(self.req(a, b), z3.And(self.c['allow_empty'], self.both_empty(a, b)))

    def score(self, a, b):
        return z3.If(self.both_empty(a, b), S.val_of_float(z3.RealVal(1)), S.val_of_float(S.r4(self.sim(a, b))))

    def may_emit(self, a, b):
        return z3.Or(z3.And(self.c['allow_empty'], self.both_empty(a, b)),
                     z3.And(z3.Not(z3.And(self.c['allow_empty'], self.m(b) == 0)), self.allowed(a, b)))


def _mk(M, op, l_none, r_none):
    class SetSimJoin(Case):
        name = '%s%s-%s-%s' % (M, op, 'None' if l_none else 'list', 'None' if r_none else 'list')
        params = OD([('ltable', ROWS), ('rtable', ROWS), ('l_columns', LV), ('r_columns', LV),
                     ('l_key_attr', VAL), ('r_key_attr', VAL), ('l_join_attr', VAL), ('r_join_attr', VAL),
                     ('tokenizer', TOKENIZER), ('sim_measure_type', vstr(M)), ('threshold', FLOAT),
                     ('comp_op', vstr(op)), ('allow_empty', BOOL),
                     ('l_out_attrs', NONE if l_none else LV), ('r_out_attrs', NONE if r_none else LV),
                     ('l_out_prefix', VAL), ('r_out_prefix', VAL), ('out_sim_score', BOOL),
                     ('show_progress', BOOL)])
        returns = None   # set below (DF)
        locals = {'output_rows': ROWS}
        inline = ('py_stringsimjoin.utils.simfunctions.get_sim_function',)

        @staticmethod
        def outs(c):
            return (None if l_none else c.p('l_out_attrs'), None if r_none else c.p('r_out_attrs'))

        def requires(self, c):
            lt, rt, lcols, rcols = c.p('ltable'), c.p('rtable'), c.p('l_columns'), c.p('r_columns')
            lo, ro = self.outs(c)
            r = z3.Int('r!req')
            sp = Specs(c, M, op)
            return [
                ('set-mode', c.f(c.p('tokenizer'), 'return_set')),
                ('threshold-valid', z3.And(c['threshold'] > 0, c['threshold'] <= 1)),
                # extra precondition recorded as known finding D8 (the size upper bound overflows below ~1e-150)
                ('threshold-not-extreme', c['threshold'] >= rv(Fraction(1, 2 ** 400))),
                ('attributes-are-columns', z3.And(
                    S.in_list(lcols, c['l_key_attr']), S.in_list(lcols, c['l_join_attr']),
                    S.in_list(rcols, c['r_key_attr']), S.in_list(rcols, c['r_join_attr']),
                    attrs_in(lo, lcols), attrs_in(ro, rcols))),
                ('rows-have-all-columns', z3.And(
                    FA([r], z3.Implies(z3.And(r >= 0, r < ln(lt)), L_len(LV, at(lt, r)) == ln(lcols)), [at(lt, r)]),
                    FA([r], z3.Implies(z3.And(r >= 0, r < ln(rt)), L_len(LV, at(rt, r)) == ln(rcols)), [at(rt, r)]))),
                ('join-values-present', z3.And(
                    FA([r], z3.Implies(z3.And(r >= 0, r < ln(lt)),
                                       z3.Not(N.val_isnull(L_get(LV, at(lt, r), sp.lj)))), [at(lt, r)]),
                    FA([r], z3.Implies(z3.And(r >= 0, r < ln(rt)),
                                       z3.Not(N.val_isnull(L_get(LV, at(rt, r), sp.rj)))), [at(rt, r)]))),
                ('token-count-domain', z3.And(
                    FA([r], z3.Implies(z3.And(r >= 0, r < ln(lt)), sp.n(r) <= S.MAXTOK), [sp.Tl(r)]),
                    FA([r], z3.Implies(z3.And(r >= 0, r < ln(rt)), sp.m(r) <= S.MAXTOK), [sp.Tr(r)]))),
            ]

        def setup(self, c):
            # definitions / theorems about spec functions used throughout the proof
            return arithmetic_axioms(M, c['threshold']) + [S.simval_zero(M)]

        def ghost(self, c):
            return {'gc': fresh(AII, 'gc'), 'gr': fresh(AII, 'gr'), 'wh': fresh(AIII, 'wh')}

        @staticmethod
        def _record(c, a, b):
            out = c.v('output_rows')
            k = ln(out) - 1
            c.ghost['gc'] = V(AII, z3.Store(c.ghost['gc'].t, k, a))
            c.ghost['gr'] = V(AII, z3.Store(c.ghost['gr'].t, k, b))
            wh = c.ghost['wh'].t
            c.ghost['wh'] = V(AIII, z3.Store(wh, a, z3.Store(z3.Select(wh, a), b, k)))

        def _hook_empty(c):
            SetSimJoin._record(c, c.t('l_id'), c.loop_idx[-2])

        def _hook_cand(c):
            SetSimJoin._record(c, c.t('cand'), c.loop_idx[-2])

        def _after_find_candidates(c):
            """lemma steps right after the candidates of the current right row are known"""
            sp = Specs(c, M, op)
            ri = c.loop_idx[-1]
            o_ = c.t('token_ordering')
            Y = c.v('r_ordered_tokens')
            co = c.call_result
            a = z3.Int('a!fc')
            inl = z3.And(a >= 0, a < ln(sp.lt))
            X = lambda q: S.ranks(o_, sp.Tl(q))
            c.extra.extend(f for _, f in SetSimJoin.ctx_facts(c))
            c.asserts.append(('probe-size', ln(Y) == sp.m(ri)))
            c.asserts.append(('ranks-preserve-sizes', FA([a], z3.Implies(inl, z3.And(
                L_len(LI, X(a)) == sp.n(a), S.isectI(X(a), Y.t) == sp.o(a, ri))), [sp.Tl(a)])))
            c.asserts.append(('required-pairs-are-candidates', FA([a], z3.Implies(
                z3.And(inl, sp.req(a, ri)), z3.And(D_has(co.ty, co.t, a), D_get(co.ty, co.t, a) > 0)), [sp.Tl(a)])))

        hooks = (Hook('pos_filter.find_candidates', _after_find_candidates, ()),
                 Hook('output_rows.append', _hook_empty, ('gc', 'gr', 'wh'), nth=0),
                 Hook('output_rows.append', _hook_cand, ('gc', 'gr', 'wh'), nth=1))

        @staticmethod
        def facts(c, out, done):
            """done(a, b): the pair (a, b) has been processed"""
            sp = Specs(c, M, op)
            lo, ro = SetSimJoin.outs(c)
            gc, gr, wh = c.ghost_out('gc', AII), c.ghost_out('gr', AII), c.ghost_out('wh', AIII)
            k, a, b = ints('k a b')
            n, NL, NR = ln(out), ln(sp.lt), ln(sp.rt)
            inr = z3.And(k >= 0, k < n)
            pk = [at(out, k), gc[k], gr[k]]
            fs = [
                ('origin-in-range', FA([k], z3.Implies(inr, z3.And(gc[k] >= 0, gc[k] < NL, gr[k] >= 0, gr[k] < NR,
                                                                done(gc[k], gr[k]))), pk)),
                ('only-qualifying-pairs', FA([k], z3.Implies(inr, sp.may_emit(gc[k], gr[k])), pk)),
                ('at-most-once', FA([k], z3.Implies(inr, wh[gc[k]][gr[k]] == k), pk)),
                ('every-qualifying-pair', FA([a, b], z3.Implies(
                    z3.And(a >= 0, a < NL, b >= 0, b < NR, done(a, b), sp.must_emit(a, b)),
                    z3.And(wh[a][b] >= 0, wh[a][b] < n, gc[wh[a][b]] == a, gr[wh[a][b]] == b)), [wh[a][b]])),
            ]
            sc = c['out_sim_score']
            for with_score in (True, False):
                g = z3.And(inr, sc if with_score else z3.Not(sc))
                for (lab, f) in row_facts(at(out, k), at(sp.lt, gc[k]), at(sp.rt, gr[k]), g, [k], sp.lcols, sp.rcols,
                                          c['l_key_attr'], c['r_key_attr'], lo, ro,
                                          sp.score(gc[k], gr[k]) if with_score else None, [at(out, k)]):
                    fs.append((lab + ('-with-score' if with_score else '-no-score'), f))
            return fs

    SJ = SetSimJoin
    SJ.returns = __import__('pyvc.pandas_model', fromlist=['DF']).DF

    def ctx_facts(c):
        """facts about spec functions instantiated for all rows of the two arrays (assumed
        tokenizer contract, K2 theorem about `ranks`, and the inj_image lemma)"""
        from .token_ordering import ranks_facts
        sp = Specs(c, M, op)
        fs = []
        a, b = ints('a!ii b!ii')
        inl = z3.And(a >= 0, a < ln(sp.lt))
        inr = z3.And(b >= 0, b < ln(sp.rt))
        fs.append(('tokenizer-facts-left', FA([a], z3.Implies(inl, z3.And(*S.toks_facts(sp.rs, L_get(LV, at(sp.lt, a), sp.lj)))),
                                              [sp.Tl(a)])))
        fs.append(('tokenizer-facts-right', FA([b], z3.Implies(inr, z3.And(*S.toks_facts(sp.rs, L_get(LV, at(sp.rt, b), sp.rj)))),
                                               [sp.Tr(b)])))
        fs.append(('intersection-size-facts', FA([a, b], z3.Implies(z3.And(inl, inr), z3.And(
            *S.isect_facts(VAL, V(LV, sp.Tl(a)), V(LV, sp.Tr(b))))), [z3.MultiPattern(sp.Tl(a), sp.Tr(b))])))
        if c.has('token_ordering'):
            o = c.t('token_ordering')
            fs.append(('ranks-facts-left', FA([a], z3.Implies(inl, z3.And(*ranks_facts(o, V(LV, sp.Tl(a))))), [sp.Tl(a)])))
            fs.append(('ranks-facts-right', FA([b], z3.Implies(inr, z3.And(*ranks_facts(o, V(LV, sp.Tr(b))))), [sp.Tr(b)])))
            # inj_image (lemma, pure mathematics): ranks preserve set sizes and intersections
            fs.append(('lemma-inj-image', FA([a, b], z3.Implies(
                z3.And(inl, inr), inj_image(o, V(LV, sp.Tl(a)), V(LV, sp.Tr(b)))),
                [z3.MultiPattern(sp.Tl(a), sp.Tr(b))])))
        return fs

    def inv_rows(c):
        """outer loop over right rows: all pairs (a, b) with b < i are done"""
        i = c.i
        c.extra.extend(f for _, f in ctx_facts(c))
        return SJ.facts(c, c.v('output_rows'), lambda a, b: b < i) + stable(c)

    def inv_empty(c):
        """inner loop over l_empty_records (position j): pairs (er[p], ri) for p < j are done"""
        ri = c.outer[-1]
        er = c.v('l_empty_records')
        j = c.i
        p = z3.Int('p!ie')
        done = lambda a, b: z3.Or(b < ri, z3.And(b == ri, z3.Exists([p], z3.And(p >= 0, p < j, at(er, p) == a))))
        c.extra.extend(f for _, f in ctx_facts(c))
        return SJ.facts(c, c.v('output_rows'), done) + stable(c)

    def inv_cand(c):
        """inner loop over the candidate dict in arbitrary order: keys at positions < j are done"""
        ri = c.outer[-1]
        pos = c.seq.pos
        co = c.seq.src
        j = c.i
        done = lambda a, b: z3.Or(b < ri, z3.And(b == ri, D_has(co.ty, co.t, a), pos(a) < j))
        c.extra.extend(f for _, f in ctx_facts(c))
        return SJ.facts(c, c.v('output_rows'), done) + stable(c)

    def stable(c):
        """locals that are never reassigned keep the values their defining calls gave them"""
        fs = []
        return fs

    SJ.loops = {'0': LoopSpec(inv_rows), '0.0': LoopSpec(inv_empty), '0.1': LoopSpec(inv_cand)}

    def ensures(self, c, res):
        rows, cols = rec_field(res, 'rows'), rec_field(res, 'cols')
        lo, ro = SJ.outs(c)
        fs = SJ.facts(c, rows, lambda a, b: z3.BoolVal(True))
        sc = c['out_sim_score']
        for with_score in (True, False):
            for (lab, f) in header_facts(cols, c['l_key_attr'], c['r_key_attr'], lo, ro,
                                         c['l_out_prefix'], c['r_out_prefix'], False, with_score,
                                         assumed=not c.proving):
                fs.append((lab + ('-with-score' if with_score else '-no-score'),
                           z3.Implies(sc if with_score else z3.Not(sc), f)))
        fs.append(('header-term', cols.t == header_term(c['l_key_attr'], c['r_key_attr'], lo, ro,
                                                        c['l_out_prefix'], c['r_out_prefix'], sc)))
        return fs

    SJ.ensures = ensures
    SJ.ctx_facts = staticmethod(ctx_facts)
    return SJ()


register(Q, [_mk(M, op, a, b) for M in S.SET_MEASURES for op in ('>=', '>', '=')
             for a in (False, True) for b in (False, True)], props=('C01', 'C02', 'C09', 'C11'))
