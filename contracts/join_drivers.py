"""Contracts for the set-similarity join drivers jaccard_join_py / cosine_join_py / dice_join_py
(C01, C02, C08, C10, C11, C12, C15 at the API level).

Exceptional contract (exact): TypeError iff a table is not a DataFrame / the tokenizer is not a
Tokenizer; AssertionError iff one of the documented preconditions fails; in both cases nothing
-- in particular the tokenizer's return_set flag -- has been written.
Normal exit: the tokenizer flag is restored (frame), the inputs are not written, the result has
the documented header with _id = 0..n-1, and -- on the serial path (effective n_jobs <= 1) --
its rows are the rows set_sim_join produces for the projected, non-missing arrays followed by
the missing-value pairs (iff allow_missing).  For the parallel path the preconditions of every
chunk call and of pd.concat are proved; row-level equality with the serial result is covered by
a bounded stand-in (contracts cannot express real process scheduling)."""
import z3
from .common import *  # noqa
from .externals import TOKENIZER
from .rowspec import header_facts, attrs_in, cidx, out_header_theorem
from . import validation as VC
from . import set_sim_join as SSJ
from . import missing_value_handler as MVH
from pyvc.pandas_model import DF, LB, col_vals, col_index, notnull_list, sel_rows, proj_rows, val_of_int, \
    dtype_is_string, dtype_is_object
from pyvc import natives as N

AII = ArrT(INT, INT)
AIII = ArrT(INT, AII)
GH = 'py_stringsimjoin.utils.generic_helper.'


def fn_name(M):
    return 'py_stringsimjoin.join.%s_join_py.%s_join_py' % (M.lower(), M.lower())


def preconditions_hold(c, M, op, lo, ro):
    """the documented preconditions, over DataFrame-typed tables and a Tokenizer"""
    lt, rt = c.p('ltable'), c.p('rtable')
    lcols, rcols = rec_field(lt, 'cols'), rec_field(rt, 'cols')
    ldt = L_get(LV, R_get(DF, lt.t, 'dtypes'), col_index(lcols.t, c['l_join_attr']))
    rdt = L_get(LV, R_get(DF, rt.t, 'dtypes'), col_index(rcols.t, c['r_join_attr']))
    return z3.And(
        S.in_list(lcols, c['l_key_attr']), S.in_list(rcols, c['r_key_attr']),
        S.in_list(lcols, c['l_join_attr']), S.in_list(rcols, c['r_join_attr']),
        VC.string_typed(ldt), VC.string_typed(rdt),
        VC.threshold_valid(M, c['threshold']),
        z3.BoolVal(op in ('>=', '>', '=')),
        attrs_in(lo, lcols) if lo is not None else z3.BoolVal(True),
        attrs_in(ro, rcols) if ro is not None else z3.BoolVal(True),
        VC.key_ok(lt, c['l_key_attr']), VC.key_ok(rt, c['r_key_attr']))


def no_id_collision(c, outs):
    """no output column is named '_id' (stated on the header term itself)"""
    from .rowspec import header_term
    lo, ro = outs
    lkey, rkey = c['l_key_attr'], c['r_key_attr']
    dl = None if lo is None else V(LV, S.dedup(lo.t, lkey))
    dr = None if ro is None else V(LV, S.dedup(ro.t, rkey))
    h = header_term(lkey, rkey, dl, dr, c['l_out_prefix'], c['r_out_prefix'], c['out_sim_score'])
    return z3.Not(L_has(LV, h, strconst('_id')))


def _mk(M, op, l_none, r_none, thr_ty=FLOAT):
    class Driver(Case):
        name = '%s%s-%s-%s%s' % (M, op, 'None' if l_none else 'list', 'None' if r_none else 'list',
                                 '' if thr_ty == FLOAT else '-int-threshold')
        params = OD([('ltable', DF), ('rtable', DF), ('l_key_attr', VAL), ('r_key_attr', VAL),
                     ('l_join_attr', VAL), ('r_join_attr', VAL), ('tokenizer', TOKENIZER), ('threshold', thr_ty),
                     ('comp_op', vstr(op)), ('allow_empty', BOOL), ('allow_missing', BOOL),
                     ('l_out_attrs', NONE if l_none else LV), ('r_out_attrs', NONE if r_none else LV),
                     ('l_out_prefix', VAL), ('r_out_prefix', VAL), ('out_sim_score', BOOL), ('n_jobs', INT),
                     ('show_progress', BOOL)])
        returns = DF
        inline = (GH + 'convert_dataframe_to_array',)
        # the driver only relays the rows of its callees; it needs their headers, not their
        # pair-level postconditions (those are carried to the caller through the ghost results)
        callee_views = {'py_stringsimjoin.join.set_sim_join.set_sim_join': ('header-term',),
                        'py_stringsimjoin.utils.missing_value_handler.get_pairs_with_missing_value': ('header-term',)}

        @staticmethod
        def outs(c):
            return (None if l_none else c.p('l_out_attrs'), None if r_none else c.p('r_out_attrs'))

        def requires(self, c):
            # domain bounds of the arithmetic contracts (physical limits, DESIGN 2.3)
            lt, rt = c.p('ltable'), c.p('rtable')
            s_ = z3.Const('s!dom', ValSort)
            rs = z3.Bool('rs!dom')
            return [('table-size-domain', z3.And(ln(rec_field(lt, 'rows')) <= S.MAXTOK,
                                                 ln(rec_field(rt, 'rows')) <= S.MAXTOK)),
                    ('token-count-domain', FA([rs, s_], L_len(LV, S.toks(rs, s_)) <= S.MAXTOK, [S.toks(rs, s_)])),
                    # extra preconditions recorded as known findings D10 and D8 (not documented preconditions):
                    ('output-names-do-not-collide-with-_id', no_id_collision(c, self.outs(c))),
                    ('threshold-not-extreme', z3.Implies(R_(c['threshold']) > 0, R_(c['threshold']) >= rv(Fraction(1, 2 ** 400))))]

        def raises(self, c):
            lo, ro = self.outs(c)
            return {'AssertionError': z3.Not(preconditions_hold(c, M, op, lo, ro))}

        def setup(self, c):
            """theorems about the spec functions dedup_attrs and out_header, instantiated for this
            call's arguments (universally quantified postconditions of remove_redundant_attrs and
            get_output_header_from_tables, whose obligations belong to every property using this)"""
            from .generic_helper import RemoveRedundant, AIT, AVI
            lo, ro = self.outs(c)
            lkey, rkey = c['l_key_attr'], c['r_key_attr']
            fs = []
            dl = dr = None
            if lo is not None:
                dl = V(LV, S.dedup(lo.t, lkey))
                fs += [f for _, f in RemoveRedundant.facts(lo, lkey, dl, fresh(AIT, 'th_src').t, fresh(AVI, 'th_wh').t, ln(lo))]
            if ro is not None:
                dr = V(LV, S.dedup(ro.t, rkey))
                fs += [f for _, f in RemoveRedundant.facts(ro, rkey, dr, fresh(AIT, 'th_src').t, fresh(AVI, 'th_wh').t, ln(ro))]
            fs += out_header_theorem(lkey, rkey, dl, dr, c['l_out_prefix'], c['r_out_prefix'])
            return fs

        def ghost(self, c):
            e = lambda: fresh(ROWS, 'norows')
            return {'serial': vbool(False), 'core_rows': e(), 'miss_rows': e(),
                    'core_gc': fresh(AII, 'cgc'), 'core_gr': fresh(AII, 'cgr'), 'core_wh': fresh(AIII, 'cwh'),
                    'miss_ga': fresh(AII, 'mga'), 'miss_gb': fresh(AII, 'mgb'), 'miss_wh': fresh(AIII, 'mwh'),
                    'LA': e(), 'RA': e(), 'lproj': fresh(LV, 'lproj'), 'rproj': fresh(LV, 'rproj'),
                    'louts': fresh(LV, 'louts'), 'routs': fresh(LV, 'routs')}

        def _after_core(c):
            lc = c.last_call
            c.ghost['serial'] = vbool(True)
            c.ghost['core_rows'] = rec_field(lc['result'], 'rows')
            for k in ('gc', 'gr', 'wh'):
                c.ghost['core_' + k] = V(AII if k != 'wh' else AIII, lc['ghost_outs'][k])
            c.ghost['LA'], c.ghost['RA'] = lc['args']['ltable'], lc['args']['rtable']
            c.ghost['lproj'], c.ghost['rproj'] = lc['args']['l_columns'], lc['args']['r_columns']
            if not l_none:
                c.ghost['louts'] = lc['args']['l_out_attrs']
            if not r_none:
                c.ghost['routs'] = lc['args']['r_out_attrs']

        def _after_missing(c):
            lc = c.last_call
            c.ghost['miss_rows'] = rec_field(lc['result'], 'rows')
            c.ghost['miss_ga'] = V(AII, lc['ghost_outs']['ga'])
            c.ghost['miss_gb'] = V(AII, lc['ghost_outs']['gb'])
            c.ghost['miss_wh'] = V(AIII, lc['ghost_outs']['wh'])

        hooks = (Hook('set_sim_join', _after_core,
                      ('serial', 'core_rows', 'core_gc', 'core_gr', 'core_wh', 'LA', 'RA', 'lproj', 'rproj',
                       'louts', 'routs'), nth=0),
                 Hook('get_pairs_with_missing_value', _after_missing,
                      ('miss_rows', 'miss_ga', 'miss_gb', 'miss_wh')))

        def ensures(self, c, res):
            lo, ro = self.outs(c)
            lkey, rkey = c['l_key_attr'], c['r_key_attr']
            # the output attribute lists actually used: de-duplicated, without the key (C11)
            dl = None if l_none else V(LV, S.dedup(lo.t, lkey))
            dr = None if r_none else V(LV, S.dedup(ro.t, rkey))
            rows, cols = rec_field(res, 'rows'), rec_field(res, 'cols')
            k, q = ints('k q')
            n = ln(rows)
            sc = c['out_sim_score']
            fs = []

            for with_score in (True, False):
                for (lab, f) in header_facts(cols, lkey, rkey, dl, dr, c['l_out_prefix'], c['r_out_prefix'],
                                             True, with_score):
                    fs.append((lab + ('-with-score' if with_score else '-no-score'),
                               z3.Implies(sc if with_score else z3.Not(sc), f)))
            fs.append(('_id-is-0..n-1', FA([k], z3.Implies(z3.And(k >= 0, k < n),
                                                           L_get(LV, at(rows, k), ival(0)) == val_of_int(k)),
                                           [at(rows, k)])))
            # serial path: rows = set_sim_join rows over the projected non-missing arrays ++ missing pairs
            serial = c.ghost_out('serial', BOOL)
            core, miss = V(ROWS, c.ghost_out('core_rows', ROWS)), V(ROWS, c.ghost_out('miss_rows', ROWS))
            n1 = ln(core)
            n2 = z3.If(c['allow_missing'], ln(miss), 0)
            fs.append(('serial-row-count', z3.Implies(serial, n == n1 + n2)))
            fs.append(('serial-core-rows', z3.Implies(serial, FA([k, q], z3.Implies(
                z3.And(k >= 0, k < n1, q >= 0, q < L_len(LV, at(core, k))),
                L_get(LV, at(rows, k), q + 1) == L_get(LV, at(core, k), q)), [L_get(LV, at(core, k), q)]))))
            fs.append(('serial-missing-rows', z3.Implies(z3.And(serial, c['allow_missing']), FA([k, q], z3.Implies(
                z3.And(k >= 0, k < ln(miss), q >= 0, q < L_len(LV, at(miss, k))),
                L_get(LV, at(rows, n1 + k), q + 1) == L_get(LV, at(miss, k), q)), [L_get(LV, at(miss, k), q)]))))
            return fs
    return Driver()


def _bad_table(M, which):
    class BadTable(Case):
        name = '%s-%s-not-a-DataFrame' % (M, which)
        params = OD([('ltable', VAL if which == 'ltable' else DF), ('rtable', VAL if which == 'rtable' else DF),
                     ('l_key_attr', VAL), ('r_key_attr', VAL), ('l_join_attr', VAL), ('r_join_attr', VAL),
                     ('tokenizer', TOKENIZER), ('threshold', FLOAT), ('comp_op', vstr('>=')), ('allow_empty', BOOL),
                     ('allow_missing', BOOL), ('l_out_attrs', NONE), ('r_out_attrs', NONE), ('l_out_prefix', VAL),
                     ('r_out_prefix', VAL), ('out_sim_score', BOOL), ('n_jobs', INT), ('show_progress', BOOL)])
        returns = DF

        def raises(self, c):
            return {'TypeError': z3.BoolVal(True)}
    return BadTable()


def _bad_tokenizer(M):
    class BadTokenizer(Case):
        name = '%s-tokenizer-not-a-Tokenizer' % M
        params = OD([('ltable', DF), ('rtable', DF), ('l_key_attr', VAL), ('r_key_attr', VAL), ('l_join_attr', VAL),
                     ('r_join_attr', VAL), ('tokenizer', VAL), ('threshold', FLOAT), ('comp_op', vstr('>=')),
                     ('allow_empty', BOOL), ('allow_missing', BOOL), ('l_out_attrs', NONE), ('r_out_attrs', NONE),
                     ('l_out_prefix', VAL), ('r_out_prefix', VAL), ('out_sim_score', BOOL), ('n_jobs', INT),
                     ('show_progress', BOOL)])
        returns = DF

        def raises(self, c):
            # attribute / dtype checks come first and raise AssertionError; otherwise TypeError
            lt, rt = c.p('ltable'), c.p('rtable')
            lcols, rcols = rec_field(lt, 'cols'), rec_field(rt, 'cols')
            ldt = L_get(LV, R_get(DF, lt.t, 'dtypes'), col_index(lcols.t, c['l_join_attr']))
            rdt = L_get(LV, R_get(DF, rt.t, 'dtypes'), col_index(rcols.t, c['r_join_attr']))
            early = z3.And(S.in_list(lcols, c['l_key_attr']), S.in_list(rcols, c['r_key_attr']),
                           S.in_list(lcols, c['l_join_attr']), S.in_list(rcols, c['r_join_attr']),
                           VC.string_typed(ldt), VC.string_typed(rdt))
            return {'AssertionError': z3.Not(early), 'TypeError': early}
    return BadTokenizer()


for _M in S.SET_MEASURES:
    # the operator is only passed through: all output-attribute combinations for '>=', one for '>' and '='
    cases = [_mk(_M, '>=', a, b) for a in (False, True) for b in (False, True)]
    cases += [_mk(_M, '>', True, True), _mk(_M, '=', False, False)]
    cases += [_mk(_M, '<=', True, True),
              _bad_table(_M, 'ltable'), _bad_table(_M, 'rtable'), _bad_tokenizer(_M)]
    register(fn_name(_M), cases, props=('C01', 'C02', 'C08', 'C10', 'C11', 'C12', 'C15'))
