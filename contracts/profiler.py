"""Contract for py_stringsimjoin/profiler/profiler.py (C17).

The postcondition is transcribed from the property: one row per profiled attribute, the
two statistics cells are the formatted exact counts (with the percentage the code's own
two-decimal rounding produces), the key recommendation appears exactly when all values
are distinct and none is missing, the warning exactly when a value is missing.
pandas counting (Series.unique, isnull, sum) is assumed (pandas_model)."""
import z3
from .common import *  # noqa
from pyvc.pandas_model import DF, nunique, count_true, col_index, col_vals, isnull_list, LB
from pyvc import natives as N

Q = 'py_stringsimjoin.profiler.profiler.'
ROW = TupleT(VAL, VAL, VAL, VAL)
KEYMSG = 'This attribute can be used as a key attribute.'
val_join = z3.Function('val_join_L_V_', sort_of(LV), ValSort)         # ''.join(list) (executor's symbol)
str_i = z3.Function('str_of_I', I, ValSort)
str_f = z3.Function('str_of_F', z3.RealSort(), ValSort)


def fmt(stat, total):
    """the string _format_statistic builds for `stat` out of `total` rows"""
    pct = percent(stat, total)
    return val_join(L_lit(LV, [str_i(stat), strconst(' ('), str_f(pct), strconst('%)')]))


def percent(stat, total):
    q = FP.flop('div', [FP.flop('i2f', [z3.ToReal(stat)]), FP.flop('i2f', [z3.ToReal(total)])])
    return FP.flop('round2', [FP.flop('mul', [q, z3.RealVal(100)])])


def warn(stat, total):
    return val_join(L_lit(LV, [strconst('Joining on this attribute will ignore '), fmt(stat, total),
                               strconst(' rows.')]))


def col_stats(df, attr):
    cols = rec_field(df, 'cols')
    vals = col_vals(df.t, col_index(cols.t, attr))
    return nunique(vals), count_true(isnull_list(vals))


def row_spec(df, attr, row):
    n = ln(rec_field(df, 'rows'))
    u, m = col_stats(df, attr)
    key = z3.And(u == n, m == 0)
    comment = T_get(ROW, row, 3)
    return z3.And(
        m >= 0, u >= 0,
        T_get(ROW, row, 0) == attr,
        T_get(ROW, row, 1) == fmt(u, n),
        T_get(ROW, row, 2) == fmt(m, n),
        (comment == strconst(KEYMSG)) == key,
        z3.Implies(m > 0, comment == warn(m, n)),
        z3.Implies(z3.And(m == 0, z3.Not(key)), comment == strconst('')))


class _Profile(Case):
    returns = DF
    inline = (Q + '_format_statistic',)
    locals = {'profile_output': ListT(ROW)}

    def attrs(self, c):
        raise NotImplementedError

    def requires(self, c):
        n = ln(rec_field(c.p('input_table'), 'rows'))
        return [('non-empty-table', z3.And(n >= 1, n <= S.MAXTOK))]

    def setup(self, c):
        # strings: the warning text is neither the key recommendation nor empty (trivial facts
        # about concrete strings that the uninterpreted join cannot see)
        w = z3.Const('w!any', sort_of(LV))
        return [FA([w], z3.Implies(L_get(LV, w, ival(0)) == strconst('Joining on this attribute will ignore '),
                                   z3.And(val_join(w) != strconst(KEYMSG), val_join(w) != strconst(''))),
                   [val_join(w)])]

    def ensures(self, c, res):
        df = c.p('input_table')
        attrs = self.attrs(c)
        rows, cols, idx = rec_field(res, 'rows'), rec_field(res, 'cols'), rec_field(res, 'index')
        j = z3.Int('j')
        u = lambda a: col_stats(df, a)[0]
        m = lambda a: col_stats(df, a)[1]
        n = ln(rec_field(df, 'rows'))
        a = lambda q: at(attrs, q)
        key = lambda q: z3.And(u(a(q)) == n, m(a(q)) == 0)
        cell = lambda q, k: L_get(LV, at(rows, q), ival(k))
        return [
            ('one-row-per-attribute', z3.And(ln(rows) == ln(attrs), ln(idx) == ln(attrs))),
            ('columns', z3.And(ln(cols) == 3, at(cols, 0) == strconst('Unique values'),
                               at(cols, 1) == strconst('Missing values'), at(cols, 2) == strconst('Comments'))),
            ('indexed-by-attribute', FA([j], z3.Implies(z3.And(j >= 0, j < ln(attrs)), at(idx, j) == a(j)),
                                        [at(idx, j)])),
            ('exact-counts', FA([j], z3.Implies(z3.And(j >= 0, j < ln(attrs)), z3.And(
                cell(j, 0) == fmt(u(a(j)), n), cell(j, 1) == fmt(m(a(j)), n))), [at(rows, j)])),
            ('key-recommended-iff-unique-and-complete', FA([j], z3.Implies(
                z3.And(j >= 0, j < ln(attrs)), (cell(j, 2) == strconst(KEYMSG)) == key(j)), [at(rows, j)])),
            ('warning-iff-missing', FA([j], z3.Implies(
                z3.And(j >= 0, j < ln(attrs)), (cell(j, 2) == warn(m(a(j)), n)) == (m(a(j)) > 0)), [at(rows, j)])),
        ]

    def main_inv(self, c):
        df = c.p('input_table')
        attrs = c.v('profile_attrs')
        out = c.v('profile_output')
        j = z3.Int('j')
        fs = [('rows-so-far', ln(out) == c.i),
              ('row-contents', FA([j], z3.Implies(z3.And(j >= 0, j < c.i), row_spec(df, at(attrs, j), at(out, j))),
                                  [at(out, j)])),
              ('num_rows', c.t('num_rows') == ln(rec_field(df, 'rows')))]
        return fs


class ProfileAll(_Profile):
    name = 'all-attributes'
    params = OD([('input_table', DF), ('profile_attrs', NONE)])

    def attrs(self, c):
        return rec_field(c.p('input_table'), 'cols')

    def _inv(c):
        fs = ProfileAll.main_inv(ProfileAll, c)
        fs.append(('attrs-are-the-columns', c.t('profile_attrs') == rec_field(c.p('input_table'), 'cols').t))
        return fs

    loops = {'1': LoopSpec(_inv)}


class ProfileSome(_Profile):
    name = 'given-attributes'
    params = OD([('input_table', DF), ('profile_attrs', LV)])

    def attrs(self, c):
        return c.p('profile_attrs')

    def raises(self, c):
        cols = rec_field(c.p('input_table'), 'cols')
        attrs = c.p('profile_attrs')
        j = z3.Int('j')
        return {'AssertionError': z3.Not(FA([j], z3.Implies(z3.And(j >= 0, j < ln(attrs)),
                                                          S.in_list(cols, at(attrs, j))), [at(attrs, j)]))}

    def _inv0(c):
        cols = rec_field(c.p('input_table'), 'cols')
        attrs = c.p('profile_attrs')
        j = z3.Int('j')
        return [('validated-so-far', FA([j], z3.Implies(z3.And(j >= 0, j < c.i), S.in_list(cols, at(attrs, j))),
                                        [at(attrs, j)]))]

    def _inv(c):
        cols = rec_field(c.p('input_table'), 'cols')
        attrs = c.p('profile_attrs')
        j = z3.Int('j')
        fs = ProfileSome.main_inv(ProfileSome, c)
        fs.append(('attrs-unchanged', c.t('profile_attrs') == attrs.t))
        fs.append(('all-validated', FA([j], z3.Implies(z3.And(j >= 0, j < ln(attrs)), S.in_list(cols, at(attrs, j))),
                                       [at(attrs, j)])))
        return fs

    loops = {'0': LoopSpec(_inv0), '1': LoopSpec(_inv)}


register(Q + 'profile_table_for_join', [ProfileAll(), ProfileSome()], props=('C17',))
