"""Contracts for join/overlap_coefficient_join_py.py (C01, C02, C09 for overlap_coefficient_join).

_overlap_coefficient_join_split: the output rows are exactly the pairs (a, b) with
   both token lists empty and allow_empty                               (score 1.0), or
   overlap >= 1 and  fl(overlap / min(|a|, |b|))  comp_op  threshold    (score that double),
each at most once, built from the two source rows.  The double quotient is the value
py_stringmatching's OverlapCoefficient computes (not rounded, as C01/C02 state)."""
import z3
from .common import *  # noqa
from .externals import TOKENIZER
from .overlap import spec_axioms, CAND, OPF, index_obj, T_of
from .splits import SplitCfg, make_split_cases, done_rows, done_keys, done_list
from .rowspec import cidx
from pyvc import natives as N
from pyvc import fp as FP

OPS3 = ('>=', '>', '=')


def ovc(o, n, m):
    """the double float(o) / float(min(m, n)) -- term-identical to what the code computes"""
    return FP.flop('div', [z3.ToReal(o), z3.ToReal(z3.If(m <= n, m, n))])


class OvcSplitCfg(SplitCfg):
    qualname = 'py_stringsimjoin.join.overlap_coefficient_join_py._overlap_coefficient_join_split'
    props = ('C01', 'C02', 'C09', 'C11')
    table_names = ('ltable_list', 'rtable_list')

    def params(self, l_none, r_none, op='>='):
        return OD([('ltable_list', ROWS), ('rtable_list', ROWS), ('l_columns', LV), ('r_columns', LV),
                   ('l_key_attr', VAL), ('r_key_attr', VAL), ('l_join_attr', VAL), ('r_join_attr', VAL),
                   ('tokenizer', TOKENIZER), ('threshold', FLOAT), ('comp_op', vstr(op)), ('allow_empty', BOOL),
                   ('l_out_attrs', NONE if l_none else LV), ('r_out_attrs', NONE if r_none else LV),
                   ('l_out_prefix', VAL), ('r_out_prefix', VAL), ('out_sim_score', BOOL), ('show_progress', BOOL)])

    def specs(self, c, op='>='):
        class Sp(object):
            pass
        sp = Sp()
        sp.lt, sp.rt, sp.lcols, sp.rcols = c.p('ltable_list'), c.p('rtable_list'), c.p('l_columns'), c.p('r_columns')
        sp.lkey, sp.rkey, sp.lattr, sp.rattr = c['l_key_attr'], c['r_key_attr'], c['l_join_attr'], c['r_join_attr']
        sp.lp, sp.rp = c['l_out_prefix'], c['r_out_prefix']
        rs = c.f(c.p('tokenizer'), 'return_set')
        lj, rj = cidx(sp.lcols, sp.lattr), cidx(sp.rcols, sp.rattr)
        sp.Tl = lambda a: S.toks(rs, L_get(LV, at(sp.lt, a), lj))
        sp.Tr = lambda b: S.toks(rs, L_get(LV, at(sp.rt, b), rj))
        sp.n = lambda a: L_len(LV, sp.Tl(a))
        sp.m = lambda b: L_len(LV, sp.Tr(b))
        sp.o = lambda a, b: S.isectV(sp.Tl(a), sp.Tr(b))
        t = c['threshold']
        ae = c['allow_empty']
        both_empty = lambda a, b: z3.And(sp.n(a) == 0, sp.m(b) == 0)
        sim = lambda a, b: ovc(sp.o(a, b), sp.n(a), sp.m(b))
        sp.must = lambda a, b: z3.Or(z3.And(ae, both_empty(a, b)),
                                     z3.And(z3.Not(z3.And(ae, sp.m(b) == 0)), sp.o(a, b) >= 1, OPF[op](sim(a, b), t)))
        sp.may = sp.must
        sp.score = lambda a, b: z3.If(both_empty(a, b), S.val_of_float(z3.RealVal(1)), S.val_of_float(sim(a, b)))
        sp.lj, sp.rj, sp.rs, sp.t = lj, rj, rs, t
        return sp

    def requires(self, c, sp, lo, ro, op='>='):
        r = z3.Int('r!vreq')
        return [('set-mode', sp.rs), ('token-count-domain', S.toks_bounded()),
                ('join-values-present', z3.And(
                    FA([r], z3.Implies(z3.And(r >= 0, r < ln(sp.lt)),
                                       z3.Not(N.val_isnull(L_get(LV, at(sp.lt, r), sp.lj)))), [at(sp.lt, r)]),
                    FA([r], z3.Implies(z3.And(r >= 0, r < ln(sp.rt)),
                                       z3.Not(N.val_isnull(L_get(LV, at(sp.rt, r), sp.rj)))), [at(sp.rt, r)])))]

    def setup(self, c, op='>='):
        return spec_axioms()

    def appends(self):
        return [(0, lambda c: (c.t('l_id'), c.loop_idx[-2])), (1, lambda c: (c.t('cand'), c.loop_idx[-2]))]

    def loops(self):
        return {'0': done_rows, '0.0': done_list('l_empty_records'), '0.1': done_keys}

    def extra_hooks(self, op='>='):
        def after_fc(c):
            sp = self.specs(c, op=op)
            ri = c.loop_idx[-1]
            co = c.call_result
            a = z3.Int('a!vfc')
            inl = z3.And(a >= 0, a < ln(sp.lt))
            val = z3.If(D_has(CAND, co.t, a), D_get(CAND, co.t, a), 0)
            c.asserts.append(('probe-size', c.t('r_num_tokens') == sp.m(ri)))
            c.asserts.append(('candidate-counts-are-overlaps', FA([a], z3.Implies(inl, val == sp.o(a, ri)),
                                                                 [sp.Tl(a)])))
            c.extra.extend(f for _, f in self.ctx_facts(c, sp, op=op))
            c.asserts.append(('candidate-counts-bounded', FA([a], z3.Implies(D_has(CAND, co.t, a), z3.And(
                D_get(CAND, co.t, a) >= 1, D_get(CAND, co.t, a) <= sp.m(ri), D_get(CAND, co.t, a) <= sp.n(a),
                sp.m(ri) <= S.MAXTOK, sp.n(a) <= S.MAXTOK)), [D_get(CAND, co.t, a)])))
        return (Hook('overlap_filter.find_candidates', after_fc, ()),)

    def ctx_facts(self, c, sp, op='>='):
        a, b = ints('a!vc b!vc')
        return [('intersection-size-facts', FA([a, b], z3.Implies(
            z3.And(a >= 0, a < ln(sp.lt), b >= 0, b < ln(sp.rt)),
            z3.And(*S.isect_facts(VAL, V(LV, sp.Tl(a)), V(LV, sp.Tr(b))))), [z3.MultiPattern(sp.Tl(a), sp.Tr(b))]))]


_vcfg = OvcSplitCfg()
register(_vcfg.qualname,
         make_split_cases(_vcfg, [('%s-%s-%s' % (op, 'None' if a else 'list', 'None' if b else 'list'), a, b, dict(op=op))
                                  for (op, a, b) in [('>=', True, True), ('>=', False, False), ('>', True, True),
                                                     ('=', True, True), ('>=', False, True), ('>=', True, False)]]),
         props=_vcfg.props)


# ============================================================================ overlap_coefficient_join_py
from .drivers import DriverCfg, driver_cases  # noqa
from . import validation as VC  # noqa
from pyvc.pandas_model import DF  # noqa


class OvcDriverCfg(DriverCfg):
    qualname = 'py_stringsimjoin.join.overlap_coefficient_join_py.overlap_coefficient_join_py'
    core_target = '_overlap_coefficient_join_split'
    core_qual = OvcSplitCfg.qualname
    attr_params = ('l_join_attr', 'r_join_attr')
    props = ('C01', 'C02', 'C08', 'C09', 'C10', 'C11', 'C12', 'C15')

    def params(self, l_none, r_none, op='>=', tok_ok=True):
        return OD([('ltable', DF), ('rtable', DF), ('l_key_attr', VAL), ('r_key_attr', VAL),
                   ('l_join_attr', VAL), ('r_join_attr', VAL), ('tokenizer', TOKENIZER if tok_ok else VAL),
                   ('threshold', FLOAT), ('comp_op', vstr(op)), ('allow_empty', BOOL), ('allow_missing', BOOL),
                   ('l_out_attrs', NONE if l_none else LV), ('r_out_attrs', NONE if r_none else LV),
                   ('l_out_prefix', VAL), ('r_out_prefix', VAL), ('out_sim_score', BOOL), ('n_jobs', INT),
                   ('show_progress', BOOL)])

    def more_preconditions(self, c, op='>=', tok_ok=True):
        return z3.And(VC.threshold_valid('OVERLAP_COEFFICIENT', c['threshold']), z3.BoolVal(op in OPS3))


_vdc = OvcDriverCfg()
register(_vdc.qualname,
         driver_cases(_vdc, [('%s-%s-%s' % (op, 'None' if a else 'list', 'None' if b else 'list'), a, b, dict(op=op))
                             for (op, a, b) in [('>=', True, True), ('>=', False, False), ('>', True, True),
                                                ('=', True, True), ('>=', False, True), ('>=', True, False),
                                                ('<=', True, True)]], bad_extra=dict(op='>=')),
         props=_vdc.props)
