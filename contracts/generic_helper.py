"""Contracts for py_stringsimjoin/utils/generic_helper.py (C10, C11 and the helpers every
split function relies on)."""
import z3
from .common import *  # noqa
from pyvc.contract import REGISTRY

Q = 'py_stringsimjoin.utils.generic_helper.'
AIT = ArrT(INT, INT)
AVI = ArrT(VAL, INT)


# =============================================================================
# remove_redundant_attrs: order-preserving de-duplication without the key attribute
class RemoveRedundant(Case):
    name = 'list'
    params = OD([('out_attrs', LV), ('key_attr', VAL)])
    returns = LV
    locals = {'uniq_attrs': LV, 'seen_attrs': DictT(VAL, BOOL)}

    def ghost(self, c):
        return {'src': fresh(AIT, 'src'),       # result position -> position in out_attrs
                'dst': fresh(AIT, 'dst'),       # position in out_attrs -> result position
                'where': fresh(AVI, 'where')}   # attribute -> result position

    def _append(c):
        u = c.v('uniq_attrs')
        n = ln(u)
        i = c.loop_idx[-1]
        c.ghost['src'] = V(AIT, z3.Store(c.ghost['src'].t, n - 1, i))
        c.ghost['where'] = V(AVI, z3.Store(c.ghost['where'].t, at(u, n - 1), n - 1))

    hooks = (Hook('uniq_attrs.append', _append, ('src', 'where')),)

    @staticmethod
    def facts(out, key, res, src, where, upto):
        """The functional specification, relative to the first `upto` elements of out."""
        p, p2, j = ints('p p2 j')
        n = ln(res)
        return [
            ('elements', FA([p], z3.Implies(z3.And(p >= 0, p < n), z3.And(
                src[p] >= 0, src[p] < upto, at(res, p) == at(out, src[p]), at(res, p) != key,
                where[at(res, p)] == p)), [at(res, p)])),
            ('order-and-distinct', FA([p, p2], z3.Implies(z3.And(p >= 0, p < p2, p2 < n), z3.And(
                src[p] < src[p2], at(res, p) != at(res, p2))), [z3.MultiPattern(at(res, p), at(res, p2))])),
            ('complete', FA([j], z3.Implies(z3.And(j >= 0, j < upto, at(out, j) != key), z3.And(
                where[at(out, j)] >= 0, where[at(out, j)] < n, at(res, where[at(out, j)]) == at(out, j),
                src[where[at(out, j)]] <= j)), [at(out, j)])),
            ('first-occurrence', FA([p, j], z3.Implies(z3.And(p >= 0, p < n, j >= 0, j < src[p]),
                                                       at(out, j) != at(res, p)),
                                    [z3.MultiPattern(at(res, p), at(out, j))])),
            ('length', z3.And(n >= 0, n <= upto)),
        ]

    def _inv(c):
        out, key = c.p('out_attrs'), c['key_attr']
        u, seen = c.v('uniq_attrs'), c.v('seen_attrs')
        src, where = c.ghost['src'].t, c.ghost['where'].t
        a = z3.Const('a', ValSort)
        p = z3.Int('p')
        return RemoveRedundant.facts(out, key, u, src, where, c.i) + [
            ('seen-is-result-set', FA([a], z3.Implies(D_has(seen.ty, seen.t, a), z3.And(
                where[a] >= 0, where[a] < ln(u), at(u, where[a]) == a)), [D_has(seen.ty, seen.t, a)])),
            ('result-is-seen', FA([p], z3.Implies(z3.And(p >= 0, p < ln(u)),
                                                  D_has(seen.ty, seen.t, at(u, p))), [at(u, p)])),
        ]

    loops = {'0': LoopSpec(_inv)}

    def ensures(self, c, res):
        out, key = c.p('out_attrs'), c['key_attr']
        src = c.ghost_out('src', AIT)
        where = c.ghost_out('where', AVI)
        fs = RemoveRedundant.facts(out, key, res, src, where, ln(out))
        if c.proving:
            c.extra.append(res.t == S.dedup(out.t, key))      # definition of the spec function
        else:
            fs.append(('defn', res.t == S.dedup(out.t, key)))
        return fs


class RemoveRedundantNone(Case):
    name = 'None'
    params = OD([('out_attrs', NONE), ('key_attr', VAL)])
    returns = NONE


register(Q + 'remove_redundant_attrs', [RemoveRedundant(), RemoveRedundantNone()], props=('C11',))


# =============================================================================
# get_attrs_to_project: [key, join] ++ (outs without the join attribute)
class AttrsToProject(Case):
    name = 'list'
    params = OD([('out_attrs', LV), ('key_attr', VAL), ('join_attr', VAL)])
    returns = LV

    def ghost(self, c):
        return {'pos': fresh(AIT, 'pos')}       # position in out_attrs -> position in the result

    def _append(c):
        pr = c.v('proj_attrs')
        c.ghost['pos'] = V(AIT, z3.Store(c.ghost['pos'].t, c.loop_idx[-1], ln(pr) - 1))

    hooks = (Hook('proj_attrs.append', _append, ('pos',)),)

    @staticmethod
    def facts(out, key, join, res, pos, upto):
        j, p = ints('j p')
        n = ln(res)
        return [
            ('head', z3.And(n >= 2, n <= 2 + upto, at(res, 0) == key, at(res, 1) == join)),
            ('every-out-attr-projected', FA([j], z3.Implies(
                z3.And(j >= 0, j < upto, at(out, j) != join),
                z3.And(pos[j] >= 2, pos[j] < n, at(res, pos[j]) == at(out, j))), [at(out, j)])),
            ('only-requested', FA([p], z3.Implies(z3.And(p >= 2, p < n),
                                                  S.in_list(out, at(res, p), upto)), [at(res, p)])),
        ]

    def _inv(c):
        return AttrsToProject.facts(c.p('out_attrs'), c['key_attr'], c['join_attr'], c.v('proj_attrs'),
                                    c.ghost['pos'].t, c.i)

    loops = {'0': LoopSpec(_inv)}

    def ensures(self, c, res):
        out = c.p('out_attrs')
        fs = AttrsToProject.facts(out, c['key_attr'], c['join_attr'], res, c.ghost_out('pos', AIT), ln(out))
        d = res.t == S.proj_attrs(out.t, c['key_attr'], c['join_attr'])
        if c.proving:
            c.extra.append(d)
        else:
            fs.append(('defn', d))
        return fs


class AttrsToProjectNone(Case):
    name = 'None'
    params = OD([('out_attrs', NONE), ('key_attr', VAL), ('join_attr', VAL)])
    returns = LV

    def ensures(self, c, res):
        d = res.t == S.proj_attrs0(c['key_attr'], c['join_attr'])
        if c.proving:
            c.extra.append(d)
        return [('value', z3.And(ln(res) == 2, at(res, 0) == c['key_attr'], at(res, 1) == c['join_attr']))] + \
               ([] if c.proving else [('defn', d)])


register(Q + 'get_attrs_to_project', [AttrsToProject(), AttrsToProjectNone()], props=('C11',))


# =============================================================================
# find_output_attribute_indices
class FindIndices(Case):
    name = 'list'
    params = OD([('original_columns', LV), ('output_attributes', LV)])
    returns = LI
    locals = {'output_attribute_indices': LI}

    def requires(self, c):
        cols, outs = c.p('original_columns'), c.p('output_attributes')
        j = z3.Int('j')
        return [('outs-are-columns', FA([j], z3.Implies(z3.And(j >= 0, j < ln(outs)),
                                                       S.in_list(cols, at(outs, j), ln(cols))),
                                        [at(outs, j)]))]

    @staticmethod
    def facts(cols, outs, res, upto):
        j, k = ints('j k')
        return [('length', ln(res) == upto),
                ('indices', FA([j], z3.Implies(z3.And(j >= 0, j < upto), z3.And(
                    at(res, j) >= 0, at(res, j) < ln(cols), at(cols, at(res, j)) == at(outs, j),
                    at(res, j) == L_index(LV, cols.t, at(outs, j)))),
                    [at(res, j), at(outs, j)])),
                ('first', FA([j, k], z3.Implies(z3.And(j >= 0, j < upto, k >= 0, k < at(res, j)),
                                                at(cols, k) != at(outs, j)),
                             [z3.MultiPattern(at(res, j), at(cols, k))]))]

    def _inv(c):
        return FindIndices.facts(c.p('original_columns'), c.p('output_attributes'),
                                 c.v('output_attribute_indices'), c.i)

    loops = {'0': LoopSpec(_inv)}

    def ensures(self, c, res):
        outs = c.p('output_attributes')
        return FindIndices.facts(c.p('original_columns'), outs, res, ln(outs))


class FindIndicesNone(Case):
    name = 'None'
    params = OD([('original_columns', LV), ('output_attributes', NONE)])
    returns = LI
    locals = {'output_attribute_indices': LI}

    def ensures(self, c, res):
        return [('empty', ln(res) == 0)]


register(Q + 'find_output_attribute_indices', [FindIndices(), FindIndicesNone()], props=('C11', 'C02'))


# =============================================================================
# get_output_row_from_tables
def _row_spec(lrow, rrow, lk, rk, lidx, ridx, res, nl, nr):
    """res = [lrow[lk], rrow[rk]] ++ [lrow[i] for i in lidx[:nl]] ++ [rrow[i] for i in ridx[:nr]]"""
    j = z3.Int('j')
    fs = [('keys', z3.And(ln(res) == 2 + nl + nr, at(res, 0) == at(lrow, lk), at(res, 1) == at(rrow, rk)))]
    if lidx is not None:
        fs.append(('left-cells', FA([j], z3.Implies(z3.And(j >= 0, j < nl),
                                                    at(res, 2 + j) == at(lrow, at(lidx, j))),
                                    [at(lidx, j)])))
    if ridx is not None:
        fs.append(('right-cells', FA([j], z3.Implies(z3.And(j >= 0, j < nr),
                                                     at(res, 2 + nl + j) == at(rrow, at(ridx, j))),
                                     [at(ridx, j)])))
    return fs


class OutputRow(Case):
    """Index lists given (possibly empty)."""
    name = 'lists'
    params = OD([('l_row', LV), ('r_row', LV), ('l_key_attr_index', INT), ('r_key_attr_index', INT),
                 ('l_out_attrs_indices', LI), ('r_out_attrs_indices', LI)])
    returns = LV
    locals = {'output_row': LV}

    def requires(self, c):
        lrow, rrow = c.p('l_row'), c.p('r_row')
        lidx, ridx = c.p('l_out_attrs_indices'), c.p('r_out_attrs_indices')
        j = z3.Int('j')
        return [('key-indices-in-range', z3.And(c['l_key_attr_index'] >= 0, c['l_key_attr_index'] < ln(lrow),
                                                c['r_key_attr_index'] >= 0, c['r_key_attr_index'] < ln(rrow))),
                ('left-indices-in-range', FA([j], z3.Implies(z3.And(j >= 0, j < ln(lidx)), z3.And(
                    at(lidx, j) >= 0, at(lidx, j) < ln(lrow))), [at(lidx, j)])),
                ('right-indices-in-range', FA([j], z3.Implies(z3.And(j >= 0, j < ln(ridx)), z3.And(
                    at(ridx, j) >= 0, at(ridx, j) < ln(rrow))), [at(ridx, j)]))]

    def _inv0(c):
        return _row_spec(c.p('l_row'), c.p('r_row'), c['l_key_attr_index'], c['r_key_attr_index'],
                         c.p('l_out_attrs_indices'), None, c.v('output_row'), c.i, 0)

    def _inv1(c):
        lidx = c.p('l_out_attrs_indices')
        return _row_spec(c.p('l_row'), c.p('r_row'), c['l_key_attr_index'], c['r_key_attr_index'],
                         lidx, c.p('r_out_attrs_indices'), c.v('output_row'), ln(lidx), c.i)

    loops = {'0': LoopSpec(_inv0), '1': LoopSpec(_inv1)}

    def ensures(self, c, res):
        lidx, ridx = c.p('l_out_attrs_indices'), c.p('r_out_attrs_indices')
        return _row_spec(c.p('l_row'), c.p('r_row'), c['l_key_attr_index'], c['r_key_attr_index'],
                         lidx, ridx, res, ln(lidx), ln(ridx))


register(Q + 'get_output_row_from_tables', [OutputRow()], props=('C11', 'C02'))


# =============================================================================
# get_output_header_from_tables
def _header_spec(lkey, rkey, louts, routs, lp, rp, res, nl, nr):
    j = z3.Int('j')
    cat = S.concat
    fs = [('keys', z3.And(ln(res) == 2 + nl + nr, at(res, 0) == cat(lp, lkey), at(res, 1) == cat(rp, rkey)))]
    if louts is not None:
        fs.append(('left-names', FA([j], z3.Implies(z3.And(j >= 0, j < nl),
                                                    at(res, 2 + j) == cat(lp, at(louts, j))), [at(louts, j)])))
    if routs is not None:
        fs.append(('right-names', FA([j], z3.Implies(z3.And(j >= 0, j < nr),
                                                     at(res, 2 + nl + j) == cat(rp, at(routs, j))),
                                     [at(routs, j)])))
    return fs


def _mk_header_case(l_none, r_none):
    class OutputHeader(Case):
        name = ('None' if l_none else 'list') + '-' + ('None' if r_none else 'list')
        params = OD([('l_key_attr', VAL), ('r_key_attr', VAL),
                     ('l_out_attrs', NONE if l_none else LV), ('r_out_attrs', NONE if r_none else LV),
                     ('l_out_prefix', VAL), ('r_out_prefix', VAL)])
        returns = LV
        locals = {'output_header': LV}

        def _args(c):
            lo = None if l_none else c.p('l_out_attrs')
            ro = None if r_none else c.p('r_out_attrs')
            return (c['l_key_attr'], c['r_key_attr'], lo, ro, c['l_out_prefix'], c['r_out_prefix'])

        def _inv_l(c):
            a = OutputHeader._args(c)
            return _header_spec(a[0], a[1], a[2], None, a[4], a[5], c.v('output_header'), c.i, 0)

        def _inv_r(c):
            a = OutputHeader._args(c)
            nl = 0 if l_none else ln(a[2])
            return _header_spec(a[0], a[1], a[2], a[3], a[4], a[5], c.v('output_header'), nl, c.i)

        loops = {}

        def ensures(self, c, res):
            a = OutputHeader._args(c)
            fs = _header_spec(a[0], a[1], a[2], a[3], a[4], a[5], res,
                              0 if l_none else ln(a[2]), 0 if r_none else ln(a[3]))
            d = res.t == S.out_header(a[0], a[1], None if l_none else a[2].t, None if r_none else a[3].t, a[4], a[5])
            if c.proving:
                c.extra.append(d)          # definition of the spec function
            else:
                fs.append(('defn', d))
            return fs
    k = 0
    if not l_none:
        OutputHeader.loops[str(k)] = LoopSpec(OutputHeader._inv_l)
        k += 1
    if not r_none:
        OutputHeader.loops[str(k)] = LoopSpec(OutputHeader._inv_r)
    return OutputHeader()


# note: with l_out_attrs None the first loop is skipped, but loop ordinals are positional in
# the source (loop 0 = left loop, loop 1 = right loop) whatever the path
def _fix_ordinals(case, l_none, r_none):
    loops = {}
    if not l_none:
        loops['0'] = LoopSpec(type(case)._inv_l)
    if not r_none:
        loops['1'] = LoopSpec(type(case)._inv_r)
    type(case).loops = loops
    return case


register(Q + 'get_output_header_from_tables',
         [_fix_ordinals(_mk_header_case(a, b), a, b) for a in (False, True) for b in (False, True)],
         props=('C11',))


# =============================================================================
# get_num_processes_to_launch
class NumProcs(Case):
    name = 'int'
    params = OD([('n_jobs', INT)])
    returns = INT

    def ensures(self, c, res):
        n = c['n_jobs']
        return [('at-least-one', res.t >= 1),
                ('non-negative-n_jobs', z3.Implies(n >= 0, res.t == z3.If(n >= 1, n, 1))),
                ('negative-n_jobs', z3.Implies(n < 0, res.t == z3.If(S.cpu_count + 1 + n >= 1,
                                                                     S.cpu_count + 1 + n, 1)))]


register(Q + 'get_num_processes_to_launch', [NumProcs()], props=('C10',))


# =============================================================================
# split_table: contiguous chunks [b(i), b(i+1)) with b(0) = 0, b(k) = len(table), b monotone
from pyvc.lemmas import inst  # noqa


class SplitTable(Case):
    name = 'rows'
    params = OD([('table', ROWS), ('num_splits', INT)])
    returns = ListT(ROWS)
    locals = {'splits': ListT(ROWS)}

    def requires(self, c):
        k, L = c['num_splits'], ln(c.p('table'))
        return [('at-least-one-split', k >= 1), ('domain', z3.And(k <= S.MAXTOK, L <= S.MAXTOK))]

    @staticmethod
    def _terms(c, js):
        """Ground definitions split_bnd(j,k,L) == int(round(j*split_size)) for the given j's, plus
        the lemma instances that make b(0)=0, b(k)=L and monotonicity linear."""
        k, tbl = c['num_splits'], c.p('table')
        L = ln(tbl)
        log = c.fp
        rk, rL = R_(k), R_(L)
        inv = log.find('div', rv(1), rk)
        ssop = inv and log.find('mul', inv.r, rL)
        if not ssop:
            c.ex.notes.append('hint lookup failed in split_table: split_size is no longer 1.0/num_splits*len(table)')
            return []
        ss = ssop.r
        hs = [inst('split_end', rk, inv.e, inv.r, rL, ss), inst('split_size_bounds', rk, inv.e, inv.r, rL, ss),
              inst('quot_lower', inv.e, rk, rv(1), rv(2 ** 31)), inst('quot_upper', inv.e, rk, rv(1), rv(1)),
              inst('mul_lower', inv.r, rL, rv(Fraction(1, 2 ** 32)), rv(1)),
              inst('mul_abs', inv.r, rL, rv(4), rv(0))]
        terms = {}
        for j in js:
            b, P, p, fj = S.split_bnd_model(log, j, ss)
            terms[j] = (b, P, p, fj)
            hs.append(S.split_bnd(j, k, L) == b)
            hs += [inst('mul_nonneg', fj, ss), inst('mul_abs', fj, ss, rv(2 ** 31), rv(2 ** 33))]
        for j1 in js:
            for j2 in js:
                if j1 is not j2:
                    hs.append(inst('mul_mono_l', terms[j1][3], terms[j2][3], ss))
        return hs

    @staticmethod
    def facts(c, splits, upto):
        k, tbl = c['num_splits'], c.p('table')
        L = ln(tbl)
        b = lambda j: S.split_bnd(j, k, L)
        p, j = ints('p j')
        chunk = lambda q: V(ROWS, at(splits, q))
        return [
            ('count', ln(splits) == upto),
            ('start-at-zero', b(ival(0)) == 0),
            ('end-at-length', b(k) == L),
            ('monotone', FA([p], z3.Implies(z3.And(p >= 0, p < upto), z3.And(b(p) <= b(p + 1), b(p) >= 0, b(p + 1) <= L)),
                            [b(p)])),
            ('chunk-lengths', FA([p], z3.Implies(z3.And(p >= 0, p < upto), ln(chunk(p)) == b(p + 1) - b(p)),
                                 [at(splits, p)])),
            ('chunks-are-slices', FA([p, j], z3.Implies(z3.And(p >= 0, p < upto, j >= 0, j < b(p + 1) - b(p)),
                                                        at(chunk(p), j) == at(tbl, b(p) + j)),
                                     [at(chunk(p), j)])),
        ]

    def _inv(c):
        k = c['num_splits']
        c.extra.extend(SplitTable._terms(c, [ival(0), c.i, c.i + 1, k]))
        return SplitTable.facts(c, c.v('splits'), c.i)

    loops = {'0': LoopSpec(_inv)}

    def ensures(self, c, res):
        return SplitTable.facts(c, res, c['num_splits'])


register(Q + 'split_table', [SplitTable()], props=('C10', 'C05'))


# split_table on a DataFrame (candidate sets): positional row slices, same columns
from pyvc.pandas_model import DF as _DF  # noqa


class SplitFrame(Case):
    name = 'frame'
    params = OD([('table', _DF), ('num_splits', INT)])
    returns = ListT(_DF)
    locals = {'splits': ListT(_DF)}

    def requires(self, c):
        k, L = c['num_splits'], ln(rec_field(c.p('table'), 'rows'))
        return [('at-least-one-split', k >= 1), ('domain', z3.And(k <= S.MAXTOK, L <= S.MAXTOK))]

    @staticmethod
    def _terms(c, js):
        # same arithmetic as the array case: reuse its term construction with the row list as the table
        class Shim(object):
            pass
        sh = Shim()
        sh.fp, sh.ex = c.fp, c.ex
        rows = rec_field(c.p('table'), 'rows')
        sh.p = lambda name: rows if name == 'table' else c.p(name)
        sh.__class__.__getitem__ = lambda self, name: c[name]
        return SplitTable._terms(sh, js)

    @staticmethod
    def facts(c, splits, upto):
        k, tbl = c['num_splits'], c.p('table')
        rows, index = rec_field(tbl, 'rows'), rec_field(tbl, 'index')
        L = ln(rows)
        b = lambda j: S.split_bnd(j, k, L)
        p, j = ints('p j')
        lt = ListT(_DF)
        chunk = lambda q: V(_DF, L_get(lt, splits.t, q))
        crow = lambda q: rec_field(chunk(q), 'rows')
        cidx = lambda q: rec_field(chunk(q), 'index')
        return [
            ('count', L_len(lt, splits.t) == upto),
            ('start-at-zero', b(ival(0)) == 0),
            ('end-at-length', b(k) == L),
            ('monotone', FA([p], z3.Implies(z3.And(p >= 0, p < upto), z3.And(b(p) <= b(p + 1), b(p) >= 0, b(p + 1) <= L)),
                            [b(p)])),
            ('chunk-shape', FA([p], z3.Implies(z3.And(p >= 0, p < upto), z3.And(
                ln(crow(p)) == b(p + 1) - b(p), ln(cidx(p)) == b(p + 1) - b(p),
                R_get(_DF, chunk(p).t, 'cols') == R_get(_DF, tbl.t, 'cols'),
                R_get(_DF, chunk(p).t, 'dtypes') == R_get(_DF, tbl.t, 'dtypes'))), [L_get(lt, splits.t, p)])),
            ('chunk-rows-are-slices', FA([p, j], z3.Implies(z3.And(p >= 0, p < upto, j >= 0, j < b(p + 1) - b(p)),
                                                            at(crow(p), j) == at(rows, b(p) + j)), [at(crow(p), j)])),
            ('chunk-index-labels-are-slices', FA([p, j], z3.Implies(
                z3.And(p >= 0, p < upto, j >= 0, j < b(p + 1) - b(p)),
                at(cidx(p), j) == at(index, b(p) + j)), [at(cidx(p), j)])),
        ]

    def _inv(c):
        k = c['num_splits']
        c.extra.extend(SplitFrame._terms(c, [ival(0), c.i, c.i + 1, k]))
        return SplitFrame.facts(c, c.v('splits'), c.i)

    loops = {'0': LoopSpec(_inv)}

    def ensures(self, c, res):
        return SplitFrame.facts(c, res, c['num_splits'])


REGISTRY[Q + 'split_table'].cases.append(SplitFrame())
