"""Contracts for PrefixFilter._filter_tables_split / filter_tables (C04, C09, C14; set measures).

Proved, exact: the output pairs are exactly (a) the pairs of two token-less values iff allow_empty,
and (b) the pairs whose two prefixes (first plen(size) ranks under the table-level token order)
share a rank.  Derived for callers:
  C14  a listed pair has a token in common unless both values have no tokens
       (from (b) and the fact that every rank in ranks(o, T) is the rank of a token of T);
  C04  a pair whose similarity meets the threshold is listed
       (from (b), the proved prefix-length theorem A2 and the prefix principle PP (Lean: lemmas/Lemmas.lean) of pure
       mathematics: two duplicate-free sorted rank lists with at least max(n - p + 1, m - q + 1)
       common elements share an element within their first p and q positions)."""
import z3
from .common import *  # noqa
from .externals import TOKENIZER
from .splits import SplitCfg, make_split_cases, done_rows, done_keys, done_list, AII, AIII
from .rowspec import cidx
from .token_ordering import ORD, ord_injective, all_ranked, covers_table
from .prefix import plen_of, filter_obj, MEASURES, SETM
from .theorems import arithmetic_axioms, required_sym, range_axioms
from pyvc import natives as N

QS = 'py_stringsimjoin.filter.prefix_filter._filter_tables_split'
QF = 'py_stringsimjoin.filter.prefix_filter.PrefixFilter.'


def pshare_def(M, o, A, B, t, q):
    """the prefixes of ranks(o, A) and ranks(o, B) share a rank"""
    XA, XB = S.ranks(o, A), S.ranks(o, B)
    i, j = ints('i!pt j!pt')

    def pl(X):
        n = L_len(LI, X)
        p = plen_of(M, n, t, q)
        return z3.If(p <= n, z3.If(p >= 0, p, 0), n)
    return z3.Exists([i, j], z3.And(i >= 0, i < pl(XB), j >= 0, j < pl(XA), L_get(LI, XB, i) == L_get(LI, XA, j)),
                     patterns=[z3.MultiPattern(L_get(LI, XB, i), L_get(LI, XA, j))])


_PS = {}


def pshare(M, o, A, B, t, q):
    """the same, as an atom: PS_M(o, A, B, t, q), defined by pshare_axiom (keeps quantifiers out of invariants)"""
    if M not in _PS:
        _PS[M] = z3.Function('prefix_share_' + M, sort_of(ORD), sort_of(LV), sort_of(LV), t.sort(), z3.IntSort(), z3.BoolSort())
    return _PS[M](o, A, B, t, q)


def pshare_axiom(M, o, t, q):
    """definition of PS_M for this call's ordering, threshold and qval"""
    A, B = z3.Consts('A!psd B!psd', sort_of(LV))
    return [z3.ForAll([A, B], pshare(M, o, A, B, t, q) == pshare_def(M, o, A, B, t, q),
                      patterns=[pshare(M, o, A, B, t, q)])]


class PrefixSplitCfg(SplitCfg):
    qualname = QS
    score_param = None
    props = ('C04', 'C09', 'C11', 'C14')

    def params(self, l_none, r_none, M='JACCARD'):
        return OD([('ltable', ROWS), ('rtable', ROWS), ('l_columns', LV), ('r_columns', LV),
                   ('l_key_attr', VAL), ('r_key_attr', VAL), ('l_filter_attr', VAL), ('r_filter_attr', VAL),
                   ('prefix_filter', filter_obj(M)),
                   ('l_out_attrs', NONE if l_none else LV), ('r_out_attrs', NONE if r_none else LV),
                   ('l_out_prefix', VAL), ('r_out_prefix', VAL), ('show_progress', BOOL)])

    def specs(self, c, M='JACCARD'):
        class Sp(object):
            pass
        sp = Sp()
        f = c.p('prefix_filter')
        sp.lt, sp.rt, sp.lcols, sp.rcols = c.p('ltable'), c.p('rtable'), c.p('l_columns'), c.p('r_columns')
        sp.lkey, sp.rkey, sp.lattr, sp.rattr = c['l_key_attr'], c['r_key_attr'], c['l_filter_attr'], c['r_filter_attr']
        sp.lp, sp.rp = c['l_out_prefix'], c['r_out_prefix']
        rs = c.f(c.field(f, 'tokenizer'), 'return_set')
        q = c.f(c.field(f, 'tokenizer'), 'qval')
        t = c.f(f, 'threshold')
        lj, rj = cidx(sp.lcols, sp.lattr), cidx(sp.rcols, sp.rattr)
        sp.Tl = lambda a: S.toks(rs, L_get(LV, at(sp.lt, a), lj))
        sp.Tr = lambda b: S.toks(rs, L_get(LV, at(sp.rt, b), rj))
        sp.n = lambda a: L_len(LV, sp.Tl(a))
        sp.m = lambda b: L_len(LV, sp.Tr(b))
        sp.o = lambda a, b: S.isectV(sp.Tl(a), sp.Tr(b))
        he = c.f(f, 'allow_empty')
        both_empty = lambda a, b: z3.And(sp.n(a) == 0, sp.m(b) == 0)
        try:
            o = c.t('token_ordering')
        except Exception:
            o = None
        sp.ordering = o
        if o is not None:
            # inside the function (exact): rank lists, their lengths decide emptiness
            sp.Xl = lambda a: S.ranks(o, sp.Tl(a))
            sp.Xr = lambda b: S.ranks(o, sp.Tr(b))
            xe = lambda a, b: z3.And(L_len(LI, sp.Xl(a)) == 0, L_len(LI, sp.Xr(b)) == 0)
            sp.cand = lambda a, b: pshare(M, o, sp.Tl(a), sp.Tr(b), t, q)
            sp.must = lambda a, b: z3.Or(z3.And(he, xe(a, b)),
                                         z3.And(z3.Not(z3.And(he, L_len(LI, sp.Xr(b)) == 0)), sp.cand(a, b)))
            sp.may = sp.must
        else:
            # for callers: the property-level guarantees derived in `ensures`
            sp.must = lambda a, b: z3.Or(z3.And(he, both_empty(a, b)),
                                         z3.And(rs, required_sym(M, sp.o(a, b), sp.n(a), sp.m(b), t)))
            sp.may = lambda a, b: z3.Or(z3.And(he, both_empty(a, b)), sp.o(a, b) >= 1)
        sp.score = lambda a, b: None
        sp.lj, sp.rj, sp.rs, sp.t, sp.q, sp.he, sp.both_empty = lj, rj, rs, t, q, he, both_empty
        return sp

    def requires(self, c, sp, lo, ro, M='JACCARD'):
        r = z3.Int('r!preq')
        return [('threshold-valid', z3.And(sp.t > 0, sp.t <= 1)), ('token-count-domain', S.toks_bounded()),
                ('filter-values-present', z3.And(
                    FA([r], z3.Implies(z3.And(r >= 0, r < ln(sp.lt)),
                                       z3.Not(N.val_isnull(L_get(LV, at(sp.lt, r), sp.lj)))), [at(sp.lt, r)]),
                    FA([r], z3.Implies(z3.And(r >= 0, r < ln(sp.rt)),
                                       z3.Not(N.val_isnull(L_get(LV, at(sp.rt, r), sp.rj)))), [at(sp.rt, r)])))]

    def setup(self, c, M='JACCARD'):
        f = c.p('prefix_filter')
        return S.toks_axioms() + range_axioms(M, c.f(f, 'threshold'))

    def appends(self):
        return [(0, lambda c: (c.t('l_id'), c.loop_idx[-2])), (1, lambda c: (c.t('cand'), c.loop_idx[-2]))]

    def loops(self):
        return {'0': done_rows, '0.0': done_list('l_empty_records'), '0.1': done_keys}

    def extra_hooks(self, M='JACCARD'):
        def after_fc(c):
            sp = self.specs(c, M=M)
            ri = c.loop_idx[-1]
            cands = c.call_result
            a = z3.Int('a!pfc')
            inl = z3.And(a >= 0, a < ln(sp.lt))
            c.extra.extend(pshare_axiom(M, sp.ordering, sp.t, sp.q))
            c.asserts.append(('candidates-are-the-rows-sharing-a-prefix-rank', FA([a], z3.Implies(
                inl, z3.Select(cands.t, a) == sp.cand(a, ri)), [sp.Tl(a)])))
            c.asserts.append(('candidates-in-range', FA([a], z3.Implies(z3.Select(cands.t, a), inl),
                                                        [z3.Select(cands.t, a)])))
        return (Hook('prefix_filter.find_candidates', after_fc, ()),)


_pcfg = PrefixSplitCfg()
_pcases = make_split_cases(_pcfg, [('%s-%s-%s' % (M, 'None' if a else 'list', 'None' if b else 'list'), a, b, dict(M=M))
                                   for (M, a, b) in [('JACCARD', True, True), ('JACCARD', False, False), ('COSINE', True, True),
                                                     ('DICE', True, True)]])
register(_pcfg.qualname, _pcases, props=_pcfg.props)


def _derived(_cls, _old):
    def ensures(self, c, res):
        fs = _old(self, c, res)
        if not c.proving:
            return fs
        M = _cls.variant['M']
        sp = _pcfg.specs(c, M=M)
        o = sp.ordering
        a, b, k = ints('a!pd b!pd k!pd')
        rows = rec_field(res, 'rows')
        gc, gr, wh = c.ghost_out('gc', AII), c.ghost_out('gr', AII), c.ghost_out('wh', AIII)
        inr = z3.And(a >= 0, a < ln(sp.lt), b >= 0, b < ln(sp.rt))
        ps = lambda x, y: sp.cand(x, y)
        ov = lambda x, y: sp.o(x, y)

        def pl(n):
            p = plen_of(M, n, sp.t, sp.q)
            return z3.If(p <= n, z3.If(p >= 0, p, 0), n)
        lj, rj = sp.lj, sp.rj
        covers = z3.And(covers_table(o, sp.rs, sp.lt, lj), covers_table(o, sp.rs, sp.rt, rj), ord_injective(o))
        # K2 vocabulary (bounded contract of order_using_token_ordering): all tokens ranked => one rank per token
        RL = z3.Implies(covers, z3.And(
            FA([a], z3.Implies(z3.And(a >= 0, a < ln(sp.lt)), L_len(LI, sp.Xl(a)) == sp.n(a)), [sp.Xl(a)]),
            FA([b], z3.Implies(z3.And(b >= 0, b < ln(sp.rt)), L_len(LI, sp.Xr(b)) == sp.m(b)), [sp.Xr(b)])))
        # PP / PC: pure mathematics about sorted duplicate-free rank lists (proved in Lean; the correspondence is trusted)
        PP = z3.Implies(z3.And(covers, sp.rs), FA([a, b], z3.Implies(
            z3.And(inr, ov(a, b) >= 1, ov(a, b) >= sp.n(a) - pl(sp.n(a)) + 1, ov(a, b) >= sp.m(b) - pl(sp.m(b)) + 1),
            ps(a, b)), [ov(a, b)]))
        PC = z3.Implies(covers, FA([a, b], z3.Implies(z3.And(inr, ps(a, b)), ov(a, b) >= 1), [ps(a, b)]))
        c.ex.assumed_log.append('lemma PP (pure mathematics) [proved in Lean, lemmas/Lemmas.lean prefix_principle; statement correspondence assumed: prefix principle: duplicate-free token lists with overlap >= '
                                'max(n - p + 1, m - q + 1) >= 1 share a rank within their first p and q sorted ranks]')
        c.ex.assumed_log.append('lemma PC (pure mathematics) [proved in Lean, lemmas/Lemmas.lean shared_element_inter_pos; statement correspondence assumed: token lists whose rank prefixes share a rank under an injective '
                                'order have a token in common]')
        c.extra.extend([RL, PP, PC] + pshare_axiom(M, o, sp.t, sp.q) + arithmetic_axioms(M, sp.t))
        c.extra.extend(f for _, f in _pcfg.ctx_facts(c, sp, M=M))
        be = sp.both_empty
        fs.append(('listed-pairs-have-a-common-token-or-are-admitted-empty-pairs', FA([k], z3.Implies(
            z3.And(k >= 0, k < ln(rows)),
            z3.Or(z3.And(sp.he, be(gc[k], gr[k])), ov(gc[k], gr[k]) >= 1)), [at(rows, k)])))
        fs.append(('every-pair-meeting-the-threshold-is-listed', FA([a, b], z3.Implies(
            z3.And(inr, z3.Or(z3.And(sp.he, be(a, b)),
                              z3.And(sp.rs, required_sym(M, ov(a, b), sp.n(a), sp.m(b), sp.t)))),
            z3.And(wh[a][b] >= 0, wh[a][b] < ln(rows), gc[wh[a][b]] == a, gr[wh[a][b]] == b)), [wh[a][b]])))
        return fs
    return ensures


def _ctx_facts(self, c, sp, M='JACCARD'):
    a, b = ints('a!pc b!pc')
    return [('intersection-size-facts', FA([a, b], z3.Implies(
        z3.And(a >= 0, a < ln(sp.lt), b >= 0, b < ln(sp.rt)),
        z3.And(*S.isect_facts(VAL, V(LV, sp.Tl(a)), V(LV, sp.Tr(b))))), [z3.MultiPattern(sp.Tl(a), sp.Tr(b))]))]


PrefixSplitCfg.ctx_facts = _ctx_facts
for _cs in _pcases:
    type(_cs).ensures = _derived(type(_cs), type(_cs).ensures)


# ============================================================================ PrefixFilter.filter_tables
from .drivers import DriverCfg, driver_cases  # noqa
from pyvc.pandas_model import DF  # noqa


class PrefixTablesCfg(DriverCfg):
    qualname = QF + 'filter_tables'
    core_target = '_filter_tables_split'
    core_qual = QS
    props = ('C04', 'C08', 'C09', 'C10', 'C11', 'C14', 'C15')

    def params(self, l_none, r_none, M='JACCARD'):
        return OD([('self', filter_obj(M)), ('ltable', DF), ('rtable', DF), ('l_key_attr', VAL), ('r_key_attr', VAL),
                   ('l_filter_attr', VAL), ('r_filter_attr', VAL),
                   ('l_out_attrs', NONE if l_none else LV), ('r_out_attrs', NONE if r_none else LV),
                   ('l_out_prefix', VAL), ('r_out_prefix', VAL), ('n_jobs', INT), ('show_progress', BOOL)])

    def allow_missing(self, c):
        return c.f(c.p('self'), 'allow_missing')

    def score(self, c):
        return z3.BoolVal(False)

    def extra_requires(self, c, M='JACCARD'):
        t = c.f(c.p('self'), 'threshold')
        return [('object-invariant-threshold-valid', z3.And(t > 0, t <= 1))]


_ptc = PrefixTablesCfg()
register(_ptc.qualname,
         driver_cases(_ptc, [('%s-%s-%s' % (M, 'None' if a else 'list', 'None' if b else 'list'), a, b, dict(M=M))
                             for (M, a, b) in [('JACCARD', True, True), ('JACCARD', False, False), ('COSINE', True, True),
                                               ('DICE', True, True)]], bad_extra=dict(M='JACCARD')),
         props=_ptc.props)
