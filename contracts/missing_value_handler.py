"""Contract for utils/missing_value_handler.get_pairs_with_missing_value (C08, C11).

Postcondition (over the *original* tables): the result has the documented header and one row
for every (left row a, right row b) with a missing join value on at least one side --
exactly one (ghost origin maps ga/gb are inverse to wh) -- built from those two rows, with
NaN as score when a score column is requested.  Every row has the header's width, which is
also pandas' precondition for DataFrame(rows, columns=header)."""
import z3
from .common import *  # noqa
from .rowspec import row_facts, header_facts, attrs_in, cidx, header_term
from pyvc.pandas_model import DF, LB, col_vals, col_index, isnull_list, notnull_list, sel_src, sel_dst, sel_rows
from pyvc import natives as N

Q = 'py_stringsimjoin.utils.missing_value_handler.'
AII = ArrT(INT, INT)
AIII = ArrT(INT, AII)
NAN = N.NAN_CELL


def _masks(c):
    lt, rt = c.p('ltable'), c.p('rtable')
    lcols, rcols = rec_field(lt, 'cols'), rec_field(rt, 'cols')
    lvals = col_vals(lt.t, col_index(lcols.t, c['l_join_attr']))
    rvals = col_vals(rt.t, col_index(rcols.t, c['r_join_attr']))
    return isnull_list(lvals), notnull_list(lvals), isnull_list(rvals)


def _mk(l_none, r_none):
    class MissingPairs(Case):
        name = ('None' if l_none else 'list') + '-' + ('None' if r_none else 'list')
        params = OD([('ltable', DF), ('rtable', DF), ('l_key_attr', VAL), ('r_key_attr', VAL),
                     ('l_join_attr', VAL), ('r_join_attr', VAL),
                     ('l_out_attrs', NONE if l_none else LV), ('r_out_attrs', NONE if r_none else LV),
                     ('l_out_prefix', VAL), ('r_out_prefix', VAL), ('out_sim_score', BOOL),
                     ('show_progress', BOOL)])
        returns = DF
        locals = {'output_rows': ROWS}

        @staticmethod
        def outs(c):
            return (None if l_none else c.p('l_out_attrs'), None if r_none else c.p('r_out_attrs'))

        def requires(self, c):
            lcols, rcols = rec_field(c.p('ltable'), 'cols'), rec_field(c.p('rtable'), 'cols')
            lo, ro = self.outs(c)
            return [('key-and-join-attributes-exist', z3.And(
                S.in_list(lcols, c['l_key_attr']), S.in_list(lcols, c['l_join_attr']),
                S.in_list(rcols, c['r_key_attr']), S.in_list(rcols, c['r_join_attr']))),
                ('output-attributes-exist', z3.And(attrs_in(lo, lcols), attrs_in(ro, rcols)))]

        def ghost(self, c):
            return {'ga': fresh(AII, 'ga'), 'gb': fresh(AII, 'gb'), 'wh': fresh(AIII, 'wh')}

        @staticmethod
        def _record(c, a, b):
            out = c.v('output_rows')
            k = ln(out) - 1
            c.ghost['ga'] = V(AII, z3.Store(c.ghost['ga'].t, k, a))
            c.ghost['gb'] = V(AII, z3.Store(c.ghost['gb'].t, k, b))
            wh = c.ghost['wh'].t
            c.ghost['wh'] = V(AIII, z3.Store(wh, a, z3.Store(z3.Select(wh, a), b, k)))

        def _hook0(c):
            lnull, lnot, rnull = _masks(c)
            MissingPairs._record(c, sel_src(lnull, c.loop_idx[-2]), c.loop_idx[-1])

        def _hook1(c):
            lnull, lnot, rnull = _masks(c)
            MissingPairs._record(c, sel_src(lnot, c.loop_idx[-1]), sel_src(rnull, c.loop_idx[-2]))

        hooks = (Hook('output_rows.append', _hook0, ('ga', 'gb', 'wh'), nth=0),
                 Hook('output_rows.append', _hook1, ('ga', 'gb', 'wh'), nth=1))

        @staticmethod
        def facts(c, out, emitted, score_for):
            """(O1) every row so far has an emitted origin and is built from it; (O2) every emitted
            pair has its row.  score_for(a): None or the score cell for rows originating at left row a."""
            lt, rt = c.p('ltable'), c.p('rtable')
            lrows, rrows = rec_field(lt, 'rows'), rec_field(rt, 'rows')
            lcols, rcols = rec_field(lt, 'cols'), rec_field(rt, 'cols')
            lo, ro = MissingPairs.outs(c)
            ga, gb, wh = c.ghost_out('ga', AII), c.ghost_out('gb', AII), c.ghost_out('wh', AIII)
            k, a, b = ints('k a b')
            n, NL, NR = ln(out), ln(lrows), ln(rrows)
            inr = z3.And(k >= 0, k < n)
            fs = [('origin-in-range', FA([k], z3.Implies(inr, z3.And(
                ga[k] >= 0, ga[k] < NL, gb[k] >= 0, gb[k] < NR)), [at(out, k), ga[k], gb[k]])),
                ('origin-has-missing-value', FA([k], z3.Implies(inr, emitted(ga[k], gb[k])), [at(out, k), ga[k], gb[k]])),
                ('origin-unique', FA([k], z3.Implies(inr, wh[ga[k]][gb[k]] == k), [at(out, k), ga[k], gb[k]])),
                ('complete', FA([a, b], z3.Implies(z3.And(a >= 0, a < NL, b >= 0, b < NR, emitted(a, b)), z3.And(
                    wh[a][b] >= 0, wh[a][b] < n, ga[wh[a][b]] == a, gb[wh[a][b]] == b)), [wh[a][b]]))]
            sc = c['out_sim_score']
            for with_score in (True, False):
                g = z3.And(inr, sc if with_score else z3.Not(sc))
                for (lab, f) in row_facts(at(out, k), at(lrows, ga[k]), at(rrows, gb[k]), g, [k], lcols, rcols,
                                          c['l_key_attr'], c['r_key_attr'], lo, ro,
                                          score_for(ga[k]) if with_score else None, [at(out, k)]):
                    fs.append((lab + ('-with-score' if with_score else '-no-score'), f))
            return fs

    MP = MissingPairs

    def emitted_fn(c, stage, i=None, j=None):
        lnull, lnot, rnull = _masks(c)
        ln_ = lambda a: L_get(LB, lnull, a)
        rn_ = lambda b: L_get(LB, rnull, b)
        dL = lambda a: sel_dst(lnull, a)
        dLn = lambda a: sel_dst(lnot, a)
        dR = lambda b: sel_dst(rnull, b)
        if stage == 'loop0':
            return lambda a, b: z3.And(ln_(a), dL(a) < i)
        if stage == 'loop0.0':
            return lambda a, b: z3.And(ln_(a), z3.Or(dL(a) < i, z3.And(dL(a) == i, b < j)))
        if stage == 'loop1':
            return lambda a, b: z3.Or(ln_(a), z3.And(z3.Not(ln_(a)), rn_(b), dR(b) < i))
        if stage == 'loop1.0':
            return lambda a, b: z3.Or(ln_(a), z3.And(z3.Not(ln_(a)), rn_(b),
                                                      z3.Or(dR(b) < i, z3.And(dR(b) == i, dLn(a) < j))))
        return lambda a, b: z3.Or(ln_(a), rn_(b))

    # the score cell of a row: NaN (the property); rows of both blocks must carry it
    score = lambda a: NAN

    def inv0(c):
        return MP.facts(c, c.v('output_rows'), emitted_fn(c, 'loop0', c.i), score) + _tables(c)

    def inv00(c):
        return MP.facts(c, c.v('output_rows'), emitted_fn(c, 'loop0.0', c.outer[-1], c.i), score) + _tables(c)

    def inv1(c):
        return MP.facts(c, c.v('output_rows'), emitted_fn(c, 'loop1', c.i), score) + _tables(c)

    def inv10(c):
        return MP.facts(c, c.v('output_rows'), emitted_fn(c, 'loop1.0', c.outer[-1], c.i), score) + _tables(c)

    def _tables(c):
        """the three selections are what they were computed to be (locals are not reassigned)"""
        lnull, lnot, rnull = _masks(c)
        lt, rt = c.p('ltable'), c.p('rtable')
        fs = []
        for (nm, src, mask) in (('ltable_missing', lt, lnull), ('ltable_not_missing', lt, lnot),
                                ('rtable_missing', rt, rnull)):
            if c.has(nm):
                fs.append((nm, R_get(DF, c.t(nm), 'rows') == sel_rows(R_get(DF, src.t, 'rows'), mask)))
        return fs

    MissingPairs.loops = {'0': LoopSpec(inv0), '0.0': LoopSpec(inv00), '1': LoopSpec(inv1), '1.0': LoopSpec(inv10)}

    def ensures(self, c, res):
        rows, cols = rec_field(res, 'rows'), rec_field(res, 'cols')
        lo, ro = MP.outs(c)
        fs = MP.facts(c, rows, emitted_fn(c, 'final'), score)
        sc = c['out_sim_score']
        for with_score in (True, False):
            for (lab, f) in header_facts(cols, c['l_key_attr'], c['r_key_attr'], lo, ro,
                                         c['l_out_prefix'], c['r_out_prefix'], False, with_score,
                                         assumed=not c.proving):
                fs.append((lab + ('-with-score' if with_score else '-no-score'),
                           z3.Implies(sc if with_score else z3.Not(sc), f)))
        fs.append(('header-term', cols.t == header_term(c['l_key_attr'], c['r_key_attr'], lo, ro,
                                                        c['l_out_prefix'], c['r_out_prefix'], sc)))
        return fs

    MissingPairs.ensures = ensures
    return MissingPairs()


register(Q + 'get_pairs_with_missing_value', [_mk(a, b) for a in (False, True) for b in (False, True)],
         props=('C08', 'C11', 'C15'))
