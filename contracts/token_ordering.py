"""Contracts for utils/token_ordering.py.

K1  gen_token_ordering_for_tables: the returned ordering is defined on every token of every
    row of both tables, injective, positive.
K2  order_using_token_ordering: the sorted list of ranks of the tokens that have a rank;
    deterministic (result == ranks(ordering, tokens)).
"""
import z3
from .common import *  # noqa
from .externals import TOKENIZER
from pyvc import natives as N

Q = 'py_stringsimjoin.utils.token_ordering.'
ORD = DictT(VAL, INT)


def ord_injective(o):
    a, b = z3.Consts('a!inj b!inj', ValSort)
    return FA([a, b], z3.Implies(z3.And(D_has(ORD, o, a), D_has(ORD, o, b), a != b),
                                 D_get(ORD, o, a) != D_get(ORD, o, b)),
              [z3.MultiPattern(D_get(ORD, o, a), D_get(ORD, o, b))])


def ord_positive(o):
    a = z3.Const('a!pos', ValSort)
    return FA([a], z3.Implies(D_has(ORD, o, a), D_get(ORD, o, a) >= 1), [D_get(ORD, o, a)])


def covers_table(o, rs, table, attr):
    """every token of every row's cell `attr` has a rank"""
    r, j = ints('r!cov j!cov')
    cell = L_get(LV, at(table, r), attr)
    tk = S.toks(rs, cell)
    return FA([r, j], z3.Implies(z3.And(r >= 0, r < ln(table), j >= 0, j < L_len(LV, tk)),
                                 D_has(ORD, o, L_get(LV, tk, j))), [L_get(LV, tk, j)])


def table_ok(table, attr):
    """rows wide enough and the cell present (tokenize raises on a missing value)"""
    r = z3.Int('r!tok')
    return FA([r], z3.Implies(z3.And(r >= 0, r < ln(table)), z3.And(
        attr >= 0, attr < L_len(LV, at(table, r)),
        z3.Not(N.val_isnull(L_get(LV, at(table, r), attr))))), [at(table, r)])


class OrderingForTables(Case):
    name = 'two-tables'
    status = 'bounded'
    params = OD([('table_list', ListT(ROWS)), ('attr_list', LI), ('tokenizer', TOKENIZER),
                 ('sim_measure_type', VAL)])
    returns = ORD

    def requires(self, c):
        tl, al = c.p('table_list'), c.p('attr_list')
        return [('two-tables', z3.And(ln(tl) == 2, ln(al) == 2)),
                ('left-cells-present', table_ok(V(ROWS, at(tl, 0)), at(al, 0))),
                ('right-cells-present', table_ok(V(ROWS, at(tl, 1)), at(al, 1)))]

    def ensures(self, c, res):
        tl, al = c.p('table_list'), c.p('attr_list')
        rs = c.f(c.p('tokenizer'), 'return_set')
        return [('covers-left', covers_table(res.t, rs, V(ROWS, at(tl, 0)), at(al, 0))),
                ('covers-right', covers_table(res.t, rs, V(ROWS, at(tl, 1)), at(al, 1))),
                ('injective', ord_injective(res.t)), ('positive', ord_positive(res.t))]


register(Q + 'gen_token_ordering_for_tables', [OrderingForTables()], props=('C01', 'C03', 'C04', 'C10'))


def all_ranked(o, tokens):
    j = z3.Int('j!ar')
    return FA([j], z3.Implies(z3.And(j >= 0, j < ln(tokens)), D_has(ORD, o, at(tokens, j))), [at(tokens, j)])


def ranks_facts(o, tokens):
    """facts about X = ranks(o, tokens) (spec function: the real order_using_token_ordering)"""
    X = V(LI, S.ranks(o, tokens.t))
    i, j = ints('i!rk j!rk')
    inj = ord_injective(o)
    return [
        z3.And(ln(X) >= 0, ln(X) <= ln(tokens)),
        z3.Implies(all_ranked(o, tokens), ln(X) == ln(tokens)),
        FA([i, j], z3.Implies(z3.And(i >= 0, i < j, j < ln(X)), at(X, i) <= at(X, j)),
           [z3.MultiPattern(at(X, i), at(X, j))]),
        z3.Implies(z3.And(S.dupfree(LV, tokens.t), inj),
                   FA([i, j], z3.Implies(z3.And(i >= 0, i < j, j < ln(X)), at(X, i) < at(X, j)),
                      [z3.MultiPattern(at(X, i), at(X, j))])),
        z3.Implies(z3.And(S.dupfree(LV, tokens.t), inj), S.nsetI(X.t) == ln(X)),
        S.nsetI(X.t) >= 0, S.nsetI(X.t) <= ln(X), (S.nsetI(X.t) == 0) == (ln(X) == 0),
    ]


def inj_image(o, a, b):
    """(lemma, pure mathematics) an injective rank map defined on all tokens of a and b
    preserves the sizes of the element sets and of their intersection"""
    Xa, Xb = S.ranks(o, a.t), S.ranks(o, b.t)
    return z3.Implies(z3.And(ord_injective(o), all_ranked(o, a), all_ranked(o, b)),
                      z3.And(S.isectI(Xa, Xb) == S.isectV(a.t, b.t),
                             S.nsetI(Xa) == S.nsetV(a.t), S.nsetI(Xb) == S.nsetV(b.t)))


class OrderUsing(Case):
    name = 'default'
    status = 'bounded'
    params = OD([('tokens', LV), ('token_ordering', ORD)])
    returns = LI

    def ensures(self, c, res):
        o, tk = c['token_ordering'], c.p('tokens')
        return [('deterministic', res.t == S.ranks(o, tk.t))] + \
               [('ranks-%d' % k, f) for k, f in enumerate(ranks_facts(o, tk))]


register(Q + 'order_using_token_ordering', [OrderUsing()], props=('C01', 'C03', 'C04', 'C10'))
