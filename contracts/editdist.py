"""Contracts for join/edit_distance_join_py.py (C03).

_edit_distance_join_split: every output row stems from a pair (a, b) whose Levenshtein distance
satisfies comp_op against the threshold, at most one row per pair, _sim_score = the distance,
cells projected from the two source rows (all proved).  Completeness: every pair that passes
the length filter, satisfies the comparison and is a prefix-filter candidate has its row
(proved); together with two ASSUMED facts of pure mathematics
   L1  |len(l) - len(r)| <= lev(l, r)
   L2  (q-gram prefix principle) lev(l, r) <= t and the q-gram bags share a token  ==>  the
       (q*t+1)-prefixes of the two bags under one injective total order share a token
this gives the documented guarantee: every qualifying pair sharing a q-gram is returned."""
import z3
from .common import *  # noqa
from .externals import TOKENIZER
from .splits import SplitCfg, make_split_cases, done_rows, done_keys
from .rowspec import cidx
from .token_ordering import ORD, ord_injective, all_ranked
from .prefix import plen_of, imul_facts, X_of, pl_of, POS, WJ
from pyvc import natives as N
from pyvc import fp as FP
from pyvc.pandas_model import val_of_int

OPS_ED = {'<=': lambda a, b: a <= b, '<': lambda a, b: a < b, '=': lambda a, b: a == b}
M = 'EDIT_DISTANCE'


def prefix_share(o, A, B, t, q):
    """the (q*t+1)-prefixes of the rank lists of token lists A and B share a rank"""
    XA, XB = S.ranks(o, A), S.ranks(o, B)
    i, j = ints('i!ps j!ps')

    def pl(X):
        n = L_len(LI, X)
        p = plen_of(M, n, t, q)
        return z3.If(p <= n, z3.If(p >= 0, p, 0), n)
    return z3.Exists([i, j], z3.And(i >= 0, i < pl(XB), j >= 0, j < pl(XA), L_get(LI, XB, i) == L_get(LI, XA, j)),
                     patterns=[z3.MultiPattern(L_get(LI, XB, i), L_get(LI, XA, j))])


class EdSplitCfg(SplitCfg):
    qualname = 'py_stringsimjoin.join.edit_distance_join_py._edit_distance_join_split'
    props = ('C03', 'C11')
    table_names = ('ltable_list', 'rtable_list')
    inline = ('py_stringsimjoin.utils.simfunctions.get_sim_function',)

    def params(self, l_none, r_none, op='<='):
        return OD([('ltable_list', ROWS), ('rtable_list', ROWS), ('l_columns', LV), ('r_columns', LV),
                   ('l_key_attr', VAL), ('r_key_attr', VAL), ('l_join_attr', VAL), ('r_join_attr', VAL),
                   ('tokenizer', TOKENIZER), ('threshold', INT), ('comp_op', vstr(op)),
                   ('l_out_attrs', NONE if l_none else LV), ('r_out_attrs', NONE if r_none else LV),
                   ('l_out_prefix', VAL), ('r_out_prefix', VAL), ('out_sim_score', BOOL), ('show_progress', BOOL)])

    def specs(self, c, op='<='):
        class Sp(object):
            pass
        sp = Sp()
        sp.lt, sp.rt, sp.lcols, sp.rcols = c.p('ltable_list'), c.p('rtable_list'), c.p('l_columns'), c.p('r_columns')
        sp.lkey, sp.rkey, sp.lattr, sp.rattr = c['l_key_attr'], c['r_key_attr'], c['l_join_attr'], c['r_join_attr']
        sp.lp, sp.rp = c['l_out_prefix'], c['r_out_prefix']
        rs = c.f(c.p('tokenizer'), 'return_set')
        q = c.f(c.p('tokenizer'), 'qval')
        lj, rj = cidx(sp.lcols, sp.lattr), cidx(sp.rcols, sp.rattr)
        sp.sl = lambda a: L_get(LV, at(sp.lt, a), lj)
        sp.sr = lambda b: L_get(LV, at(sp.rt, b), rj)
        sp.Tl = lambda a: S.toks(rs, sp.sl(a))
        sp.Tr = lambda b: S.toks(rs, sp.sr(b))
        t = c['threshold']
        d = lambda a, b: S.lev(sp.sl(a), sp.sr(b))
        lenok = lambda a, b: z3.And(N.val_len(sp.sr(b)) - t <= N.val_len(sp.sl(a)),
                                    N.val_len(sp.sl(a)) <= N.val_len(sp.sr(b)) + t)
        sp.qual = lambda a, b: OPS_ED[op](d(a, b), t)
        sp.may = sp.qual                                                    # soundness (C03)
        try:
            o = c.t('token_ordering')
        except Exception:
            o = None
        sp.ordering = o
        sp.cand = (lambda a, b: prefix_share(o, sp.Tl(a), sp.Tr(b), t, q)) if o is not None else None
        share = lambda a, b: S.isectV(sp.Tl(a), sp.Tr(b)) >= 1
        # inside the function: candidates of the prefix filter; for callers: the documented guarantee
        # (the postcondition every-qualifying-pair-sharing-a-qgram proved below)
        sp.must = (lambda a, b: z3.And(lenok(a, b), sp.qual(a, b), sp.cand(a, b))) if o is not None \
            else (lambda a, b: z3.And(sp.qual(a, b), share(a, b)))
        sp.score = lambda a, b: val_of_int(d(a, b))
        sp.lj, sp.rj, sp.rs, sp.t, sp.q, sp.d, sp.lenok = lj, rj, rs, t, q, d, lenok
        return sp

    def requires(self, c, sp, lo, ro, op='<='):
        r = z3.Int('r!ereq')
        return [('threshold-valid', z3.And(sp.t >= 0, sp.q >= 1)), ('token-count-domain', S.toks_bounded()),
                ('qgram-tokenizer', c.f(c.p('tokenizer'), 'is_qgram')),
                ('join-values-present', z3.And(
                    FA([r], z3.Implies(z3.And(r >= 0, r < ln(sp.lt)),
                                       z3.Not(N.val_isnull(L_get(LV, at(sp.lt, r), sp.lj)))), [at(sp.lt, r)]),
                    FA([r], z3.Implies(z3.And(r >= 0, r < ln(sp.rt)),
                                       z3.Not(N.val_isnull(L_get(LV, at(sp.rt, r), sp.rj)))), [at(sp.rt, r)])))]

    def setup(self, c, op='<='):
        return S.toks_axioms() + imul_facts(M, c.f(c.p('tokenizer'), 'qval'), c['threshold'])

    def appends(self):
        return [(0, lambda c: (c.t('cand'), c.loop_idx[-2]))]

    def loops(self):
        return {'1': done_rows, '1.0': done_keys}

    def extra_hooks(self, op='<='):
        def after_fc(c):
            sp = self.specs(c, op=op)
            ri = c.loop_idx[-1]
            cands = c.call_result
            a = z3.Int('a!efc')
            inl = z3.And(a >= 0, a < ln(sp.lt))
            c.asserts.append(('candidates-are-the-rows-sharing-a-prefix-rank', FA([a], z3.Implies(
                inl, z3.Select(cands.t, a) == sp.cand(a, ri)), [sp.Tl(a)])))
            c.asserts.append(('candidates-in-range', FA([a], z3.Implies(z3.Select(cands.t, a), inl),
                                                        [z3.Select(cands.t, a)])))
        return (Hook('prefix_filter.find_candidates', after_fc, ()),)


_ecfg = EdSplitCfg()
_cases = make_split_cases(_ecfg, [('%s-%s-%s' % (op, 'None' if a else 'list', 'None' if b else 'list'), a, b, dict(op=op))
                                  for (op, a, b) in [('<=', True, True), ('<=', False, False), ('<', True, True),
                                                     ('=', True, True), ('<=', False, True), ('<=', True, False)]])


def _len_cache_inv(c):
    """loop 0: l_join_attr_list[k] == len(ltable_list[k][l_join_attr_index])"""
    lt = c.p('ltable_list')
    lj = cidx(c.p('l_columns'), c['l_join_attr'])
    lst = c.v('l_join_attr_list')
    k = z3.Int('k!lc')
    return [('length-cache', z3.And(ln(lst) == c.i, FA([k], z3.Implies(
        z3.And(k >= 0, k < c.i), at(lst, k) == N.val_len(L_get(LV, at(lt, k), lj))), [at(lst, k)])))]


for _cs in _cases:
    _cls = type(_cs)
    _cls.loops = dict(_cls.loops, **{'0': LoopSpec(_len_cache_inv)})
    _cls.locals = dict(_cls.locals, l_join_attr_list=LI)

    def _mk(_cls=_cls, _old=_cls.ensures):
        def ensures(self, c, res):
            fs = _old(self, c, res)
            if not c.proving:
                return fs
            sp = _ecfg.specs(c, **_cls.variant)
            # the documented completeness guarantee, from the proved `every-qualifying-pair` and the
            # two assumed mathematical facts L1, L2 (instantiated for this call's ordering)
            a, b = ints('a!ed b!ed')
            rows = rec_field(res, 'rows')
            from .splits import AII, AIII
            gc, gr, wh = c.ghost_out('gc', AII), c.ghost_out('gr', AII), c.ghost_out('wh', AIII)
            inr = z3.And(a >= 0, a < ln(sp.lt), b >= 0, b < ln(sp.rt))
            share = S.isectV(sp.Tl(a), sp.Tr(b)) >= 1
            L1 = FA([a, b], z3.Implies(inr, z3.And(N.val_len(sp.sl(a)) - N.val_len(sp.sr(b)) <= sp.d(a, b),
                                                   N.val_len(sp.sr(b)) - N.val_len(sp.sl(a)) <= sp.d(a, b))),
                    [sp.d(a, b)])
            L2 = FA([a, b], z3.Implies(z3.And(inr, sp.d(a, b) <= sp.t, share), sp.cand(a, b)), [sp.d(a, b)])
            if c.proving:
                c.ex.assumed_log.append('lemma L1 (pure mathematics) [assumed: |len(l) - len(r)| <= Levenshtein(l, r)]')
                c.ex.assumed_log.append('lemma L2 (pure mathematics) [assumed: q-gram prefix principle for edit distance: '
                                        'lev <= t and a shared q-gram imply a shared rank in the (q*t+1)-prefixes '
                                        'under any injective order covering both bags]')
                c.extra.extend([L1, L2])
            fs.append(('every-qualifying-pair-sharing-a-qgram', FA([a, b], z3.Implies(
                z3.And(inr, sp.qual(a, b), share),
                z3.And(wh[a][b] >= 0, wh[a][b] < ln(rows), gc[wh[a][b]] == a, gr[wh[a][b]] == b)), [wh[a][b]])))
            return fs
        return ensures
    _cls.ensures = _mk()

register(_ecfg.qualname, _cases, props=_ecfg.props)


# ============================================================================ edit_distance_join_py
from .drivers import DriverCfg, driver_cases  # noqa
from . import validation as VC  # noqa
from pyvc.pandas_model import DF  # noqa


class EdDriverCfg(DriverCfg):
    qualname = 'py_stringsimjoin.join.edit_distance_join_py.edit_distance_join_py'
    core_target = '_edit_distance_join_split'
    core_qual = EdSplitCfg.qualname
    attr_params = ('l_join_attr', 'r_join_attr')
    props = ('C03', 'C08', 'C10', 'C11', 'C12', 'C15')

    def params(self, l_none, r_none, op='<=', thr_ty=INT):
        return OD([('ltable', DF), ('rtable', DF), ('l_key_attr', VAL), ('r_key_attr', VAL),
                   ('l_join_attr', VAL), ('r_join_attr', VAL), ('threshold', thr_ty), ('comp_op', vstr(op)),
                   ('allow_missing', BOOL), ('l_out_attrs', NONE if l_none else LV), ('r_out_attrs', NONE if r_none else LV),
                   ('l_out_prefix', VAL), ('r_out_prefix', VAL), ('out_sim_score', BOOL), ('n_jobs', INT),
                   ('show_progress', BOOL), ('tokenizer', TOKENIZER)])

    def more_preconditions(self, c, op='<=', thr_ty=INT):
        return z3.And(c.f(c.p('tokenizer'), 'is_qgram'), VC.threshold_valid('EDIT_DISTANCE', c['threshold']),
                      z3.BoolVal(op in OPS_ED))

    def extra_requires(self, c, op='<=', thr_ty=INT):
        return [('qval-positive', c.f(c.p('tokenizer'), 'qval') >= 1),
                ('threshold-domain', R_(c['threshold']) <= S.MAXTOK)]


_edc = EdDriverCfg()
register(_edc.qualname,
         driver_cases(_edc, [('%s-%s-%s%s' % (op, 'None' if a else 'list', 'None' if b else 'list',
                                              '' if ty == INT else '-float-threshold'), a, b, dict(op=op, thr_ty=ty))
                             for (op, a, b, ty) in [('<=', True, True, INT), ('<=', False, False, INT), ('<', True, True, INT),
                                                    ('=', True, True, INT), ('<=', True, True, FLOAT),
                                                    ('>=', True, True, INT)]], bad_extra=dict(op='<=')),
         props=_edc.props)
