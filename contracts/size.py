"""Contracts for index/size_index.py and filter/size_filter.py (C04, C09, C14): proved, exact.

SizeFilter decides on the two token counts alone: find_candidates returns exactly the non-empty
left rows whose size lies in the window [lb(m), ub(m)] of the probe size m (and nothing when
lb(m) > m); filter_pair drops a pair iff the right size is outside the window of the left size."""
import z3
from .common import *  # noqa
from .externals import TOKENIZER
from .token_ordering import table_ok
from .position import Ctor, filter_init_cases
from . import validation as VC
from .splits import SplitCfg, make_split_cases, done_rows, done_keys, done_list
from .rowspec import cidx
from .theorems import arithmetic_axioms, required_sym, range_axioms
from pyvc import natives as N

QI = 'py_stringsimjoin.index.size_index.SizeIndex.'
QF = 'py_stringsimjoin.filter.size_filter.SizeFilter.'
SETM = S.SET_MEASURES
INDEX = DictT(INT, LI)
POS = ArrT(INT, ArrT(INT, INT))
CANDS = SetT(INT)
MAXSIZE = 2 ** 63 - 1


class IndexInit(Ctor):
    name = 'default'
    params = OD([('self', ObjSpec('SizeIndex')), ('table', ROWS), ('index_attr', INT), ('tokenizer', TOKENIZER)])

    def fields(self, c):
        return OD([('table', c.p('table')), ('index_attr', c.p('index_attr')), ('tokenizer', c.p('tokenizer')),
                   ('index', vnone()), ('min_length', vint(MAXSIZE)), ('max_length', vint(0))])


register(QI + '__init__', [IndexInit()], props=('C04', 'C09', 'C14'))


def index_obj(built=True):
    return ObjSpec('SizeIndex', table=ROWS, index_attr=INT, tokenizer=TOKENIZER,
                   index=INDEX if built else ANY, min_length=INT, max_length=INT)


def n_of(c, idx, row):
    """token count of row `row` of the indexed table"""
    tbl = c.field(idx, 'table')
    rs = c.f(c.field(idx, 'tokenizer'), 'return_set')
    return L_len(LV, S.toks(rs, L_get(LV, at(tbl, row), c.f(idx, 'index_attr'))))


def wf_size_index(c, idx, index_t, pos, mn, mx, rows_done):
    s_, k, k2, r = ints('s!szi k!szi k2!szi r!szi')
    has = lambda x: D_has(INDEX, index_t, x)
    ent = lambda x: D_get(INDEX, index_t, x)
    e = lambda x, q: L_get(LI, ent(x), q)
    n = lambda q: n_of(c, idx, q)
    return [
        ('entries-sound', FA([s_, k], z3.Implies(z3.And(has(s_), k >= 0, k < L_len(LI, ent(s_))), z3.And(
            s_ >= 1, e(s_, k) >= 0, e(s_, k) < rows_done, n(e(s_, k)) == s_, pos[s_][e(s_, k)] == k)), [e(s_, k)])),
        ('entries-complete', FA([r], z3.Implies(z3.And(r >= 0, r < rows_done, n(r) >= 1), z3.And(
            has(n(r)), pos[n(r)][r] >= 0, pos[n(r)][r] < L_len(LI, ent(n(r))), e(n(r), pos[n(r)][r]) == r)),
            [n(r)])),
        ('lists-well-formed', FA([s_], z3.Implies(has(s_), L_len(LI, ent(s_)) >= 1), [ent(s_)])),
        ('min-max-bound-all-sizes', FA([r], z3.Implies(z3.And(r >= 0, r < rows_done),
                                                       z3.And(mn <= n(r), n(r) <= mx)), [n(r)])),
        ('min-max-initial-or-attained', z3.And(mx >= 0, mn >= 0)),
    ]


class IndexBuild(Case):
    name = 'default'
    params = OD([('self', index_obj(built=False)), ('cache_empty_records', BOOL)])
    defaults = {'cache_empty_records': vbool(True)}
    modifies = (('self.index', INDEX), 'self.min_length', 'self.max_length')
    field_types = {'index': INDEX}
    locals = {'empty_records': LI}

    def requires(self, c):
        idx = c.p('self')
        return [('cells-present', table_ok(c.field(idx, 'table'), c.f(idx, 'index_attr'))),
                ('fresh-index', z3.And(c.f(idx, 'min_length') == MAXSIZE, c.f(idx, 'max_length') == 0)),
                ('token-count-domain', S.toks_bounded())]

    def setup(self, c):
        return S.toks_axioms()

    def ghost(self, c):
        return {'pos': fresh(POS, 'pos'), 'er_dst': fresh(ArrT(INT, INT), 'er_dst')}

    def _after_append(c):
        idx = c.p('self')
        nt = c.t('num_tokens')
        rid = c.t('row_id')
        lst = D_get(INDEX, c.f(idx, 'index'), nt)
        pos = c.ghost['pos'].t
        c.ghost['pos'] = V(POS, z3.Store(pos, nt, z3.Store(z3.Select(pos, nt), rid, L_len(LI, lst) - 1)))

    def _after_empty(c):
        er = c.v('empty_records')
        c.ghost['er_dst'] = V(ArrT(INT, INT), z3.Store(c.ghost['er_dst'].t, c.t('row_id'), ln(er) - 1))

    hooks = (Hook('self.index.get(num_tokens).append', _after_append, ('pos',)),
             Hook('empty_records.append', _after_empty, ('er_dst',)))

    def returns(self, ex, st, c):
        from pyvc.executor import PyDict
        er = fresh(LI, 'empty_records')
        for f in wf(er):
            st.assume(f)
        return PyDict({'empty_records': er})

    @staticmethod
    def empties(c, idx, er, er_dst, upto):
        r, p = ints('r!sze p!sze')
        n = lambda q: n_of(c, idx, q)
        return [('empty-records-sound', FA([p], z3.Implies(z3.And(p >= 0, p < ln(er)), z3.And(
            c['cache_empty_records'], at(er, p) >= 0, at(er, p) < upto, n(at(er, p)) == 0, er_dst[at(er, p)] == p)),
            [at(er, p)])),
            ('empty-records-complete', FA([r], z3.Implies(z3.And(c['cache_empty_records'], r >= 0, r < upto, n(r) == 0),
                                                          z3.And(er_dst[r] >= 0, er_dst[r] < ln(er), at(er, er_dst[r]) == r)),
                                          [er_dst[r], n(r)]))]

    def _inv(c):
        idx = c.p('self')
        return wf_size_index(c, idx, c.f(idx, 'index'), c.ghost['pos'].t, c.f(idx, 'min_length'),
                             c.f(idx, 'max_length'), c.i) + \
            IndexBuild.empties(c, idx, c.v('empty_records'), c.ghost['er_dst'].t, c.i) + \
            [('row-id', c.t('row_id') == c.i)]

    loops = {'0': LoopSpec(_inv)}

    def ensures(self, c, res):
        idx = c.p('self')
        NL = ln(c.field(idx, 'table'))
        return wf_size_index(c, idx, c.f(idx, 'index'), c.ghost_out('pos', POS), c.f(idx, 'min_length'),
                             c.f(idx, 'max_length'), NL) + \
            IndexBuild.empties(c, idx, res.d['empty_records'], c.ghost_out('er_dst', ArrT(INT, INT)), NL)


register(QI + 'build', [IndexBuild()], props=('C04', 'C09', 'C14'))


# ============================================================================ SizeFilter
def _filter_init(Mgiven, thr_ty):
    M = Mgiven.upper()

    class Init(Ctor):
        name = '%s-%s' % (Mgiven, 'float' if thr_ty == FLOAT else 'int')
        params = OD([('self', ObjSpec('SizeFilter')), ('tokenizer', TOKENIZER), ('sim_measure_type', vstr(Mgiven)),
                     ('threshold', thr_ty), ('allow_empty', BOOL), ('allow_missing', BOOL)])
        defaults = {'allow_empty': vbool(True), 'allow_missing': vbool(False)}

        def raises(self, c):
            conds = {'AssertionError': z3.Not(VC.threshold_valid(M, c['threshold']))}
            if M == 'EDIT_DISTANCE':
                conds['AssertionError'] = z3.Or(z3.Not(c.f(c.p('tokenizer'), 'is_qgram')), conds['AssertionError'])
            return conds

        def fields(self, c):
            return OD([('tokenizer', c.p('tokenizer')), ('sim_measure_type', vstr(M)), ('threshold', c.p('threshold')),
                       ('allow_empty', c.p('allow_empty')), ('allow_missing', c.p('allow_missing'))])
    return Init()


register(QF + '__init__', filter_init_cases(_filter_init), props=('C15', 'C04'))


def filter_obj(M, thr_ty=FLOAT):
    return ObjSpec('SizeFilter', tokenizer=TOKENIZER, sim_measure_type=vstr(M), threshold=thr_ty,
                   allow_empty=BOOL, allow_missing=BOOL)


def window(M, t, m, n):
    """the size window of a probe of size m admits size n (set measures)"""
    return z3.And(S.lbnd[M](m, t) <= n, n <= S.ubnd[M](m, t))


def thr_ok(M, t):
    return z3.And(t > 0, t <= 1, t >= rv(Fraction(1, 2 ** 400)))       # valid and not extreme (finding D8)


def _find_candidates(M):
    class FindCandidates(Case):
        name = M
        params = OD([('self', filter_obj(M)), ('probe_size', INT), ('size_index', index_obj())])
        returns = CANDS
        locals = {'candidates': CANDS}
        inline = (QI + 'probe',)

        def requires(self, c):
            idx = c.p('size_index')
            f = c.p('self')
            pos = c.ghost_in('pos', POS)
            return wf_size_index(c, idx, c.f(idx, 'index'), pos, c.f(idx, 'min_length'), c.f(idx, 'max_length'),
                                 ln(c.field(idx, 'table'))) + \
                [('probe-size-domain', z3.And(c['probe_size'] >= 0, c['probe_size'] <= S.MAXTOK)),
                 ('threshold-valid', thr_ok(M, c.f(f, 'threshold'))),
                 ('token-count-domain', S.toks_bounded())]

        def setup(self, c):
            return S.toks_axioms()

        @staticmethod
        def members(c, cands, upto_size, extra=None):
            """r in cands  <=>  n_r >= 1, in the window, lb <= m, and n_r < upto_size (or extra(r))"""
            idx, f = c.p('size_index'), c.p('self')
            t, m = c.f(f, 'threshold'), c['probe_size']
            NL = ln(c.field(idx, 'table'))
            r = z3.Int('r!szm')
            n = lambda q: n_of(c, idx, q)
            inwin = lambda q: z3.And(n(q) >= 1, window(M, t, m, n(q)), S.lbnd[M](m, t) <= m)
            done = lambda q: z3.Or(n(q) < upto_size, extra(q)) if extra else n(q) < upto_size
            return [('members', FA([r], z3.Implies(z3.And(r >= 0, r < NL),
                                                   z3.Select(cands, r) == z3.And(inwin(r), done(r))), [n(r)])),
                    ('members-in-range', FA([r], z3.Implies(z3.Select(cands, r), z3.And(r >= 0, r < NL)),
                                            [z3.Select(cands, r)]))]

        def _inv_sizes(c):
            lo = c.seq.lo
            return FindCandidates.members(c, c.t('candidates'), lo + c.i)

        def _inv_entries(c):
            idx = c.p('size_index')
            cs = c.v('cand_size').t
            k = c.i
            pos = c.ghost_in('pos', POS)
            extra = lambda q: z3.And(n_of(c, idx, q) == cs, D_has(INDEX, c.f(idx, 'index'), cs), pos[cs][q] < k)
            return FindCandidates.members(c, c.t('candidates'), cs, extra)

        loops = {'0': LoopSpec(_inv_sizes), '0.0': LoopSpec(_inv_entries)}

        def ensures(self, c, res):
            return FindCandidates.members(c, res.t, ival(2 ** 62))
    return FindCandidates()


register(QF + 'find_candidates', [_find_candidates(M) for M in SETM], props=('C04', 'C14'))


def _filter_pair(M):
    class FilterPair(Case):
        """exact: dropped iff missing-and-not-allowed, or both empty and not allow_empty, or the right
        size is outside the window of the left size"""
        name = M
        params = OD([('self', filter_obj(M)), ('lstring', VAL), ('rstring', VAL)])
        returns = BOOL

        def requires(self, c):
            return [('threshold-valid', thr_ok(M, c.f(c.p('self'), 'threshold'))), ('token-count-domain', S.toks_bounded())]

        def setup(self, c):
            return S.toks_axioms() + arithmetic_axioms(M, c.f(c.p('self'), 'threshold'))

        def ensures(self, c, res):
            f = c.p('self')
            l, r = c['lstring'], c['rstring']
            rs = c.f(c.field(f, 'tokenizer'), 'return_set')
            t = c.f(f, 'threshold')
            nl, nr = L_len(LV, S.toks(rs, l)), L_len(LV, S.toks(rs, r))
            missing = z3.Or(N.val_isnull(l), N.val_isnull(r))
            o = S.isectV(S.toks(rs, l), S.toks(rs, r))
            return [('exact', res.t == z3.If(missing, z3.Not(c.f(f, 'allow_missing')),
                                             z3.If(z3.And(nl == 0, nr == 0), z3.Not(c.f(f, 'allow_empty')),
                                                   z3.Not(window(M, t, nl, nr))))),
                    # C04: present values whose similarity meets the threshold (set mode) are never dropped
                    ('never-drops-a-qualifying-pair', z3.Implies(
                        z3.And(z3.Not(missing), rs, z3.Or(nl > 0, nr > 0), required_sym(M, o, nl, nr, t)),
                        z3.Not(res.t)))]
    return FilterPair()


def _filter_pair_int(M):
    """EDIT_DISTANCE / OVERLAP (integer threshold): exact -- the counts alone decide (C14): EDIT_DISTANCE keeps a pair
    iff the two token counts differ by at most the threshold (two token-less values are kept); OVERLAP keeps it
    iff the right count reaches the threshold (two token-less values are dropped)"""
    class FilterPairInt(Case):
        name = M
        params = OD([('self', filter_obj(M, INT)), ('lstring', VAL), ('rstring', VAL)])
        returns = BOOL

        def requires(self, c):
            t = c.f(c.p('self'), 'threshold')
            return [('threshold-valid', t >= 0 if M == 'EDIT_DISTANCE' else t > 0), ('token-count-domain', S.toks_bounded())]

        def setup(self, c):
            return S.toks_axioms()

        def ensures(self, c, res):
            f = c.p('self')
            l, r = c['lstring'], c['rstring']
            rs = c.f(c.field(f, 'tokenizer'), 'return_set')
            t = c.f(f, 'threshold')
            nl, nr = L_len(LV, S.toks(rs, l)), L_len(LV, S.toks(rs, r))
            missing = z3.Or(N.val_isnull(l), N.val_isnull(r))
            if M == 'EDIT_DISTANCE':
                both_empty_result = z3.BoolVal(False)
                kept = z3.And(nl - t <= nr, nr <= nl + t)
            else:
                both_empty_result = z3.BoolVal(True)
                kept = z3.And(t <= nr, nr <= MAXSIZE)
            return [('exact', res.t == z3.If(missing, z3.Not(c.f(f, 'allow_missing')),
                                             z3.If(z3.And(nl == 0, nr == 0), both_empty_result, z3.Not(kept))))]
    return FilterPairInt()


register(QF + 'filter_pair', [_filter_pair(M) for M in SETM] + [_filter_pair_int(M) for M in ('EDIT_DISTANCE', 'OVERLAP')],
         props=('C04', 'C08', 'C09', 'C14'))


# ============================================================================ _filter_tables_split
class SizeSplitCfg(SplitCfg):
    qualname = 'py_stringsimjoin.filter.size_filter._filter_tables_split'
    score_param = None
    props = ('C04', 'C09', 'C11', 'C14')
    inline = ()

    def params(self, l_none, r_none, M='JACCARD'):
        return OD([('ltable', ROWS), ('rtable', ROWS), ('l_columns', LV), ('r_columns', LV),
                   ('l_key_attr', VAL), ('r_key_attr', VAL), ('l_filter_attr', VAL), ('r_filter_attr', VAL),
                   ('size_filter', filter_obj(M)),
                   ('l_out_attrs', NONE if l_none else LV), ('r_out_attrs', NONE if r_none else LV),
                   ('l_out_prefix', VAL), ('r_out_prefix', VAL), ('show_progress', BOOL)])

    def specs(self, c, M='JACCARD'):
        class Sp(object):
            pass
        sp = Sp()
        f = c.p('size_filter')
        sp.lt, sp.rt, sp.lcols, sp.rcols = c.p('ltable'), c.p('rtable'), c.p('l_columns'), c.p('r_columns')
        sp.lkey, sp.rkey, sp.lattr, sp.rattr = c['l_key_attr'], c['r_key_attr'], c['l_filter_attr'], c['r_filter_attr']
        sp.lp, sp.rp = c['l_out_prefix'], c['r_out_prefix']
        rs = c.f(c.field(f, 'tokenizer'), 'return_set')
        t = c.f(f, 'threshold')
        lj, rj = cidx(sp.lcols, sp.lattr), cidx(sp.rcols, sp.rattr)
        sp.Tl = lambda a: S.toks(rs, L_get(LV, at(sp.lt, a), lj))
        sp.Tr = lambda b: S.toks(rs, L_get(LV, at(sp.rt, b), rj))
        sp.n = lambda a: L_len(LV, sp.Tl(a))
        sp.m = lambda b: L_len(LV, sp.Tr(b))
        sp.o = lambda a, b: S.isectV(sp.Tl(a), sp.Tr(b))
        he = c.f(f, 'allow_empty')         # set measures: handle_empty == allow_empty
        both_empty = lambda a, b: z3.And(sp.n(a) == 0, sp.m(b) == 0)
        inwin = lambda a, b: z3.And(sp.n(a) >= 1, window(M, t, sp.m(b), sp.n(a)), S.lbnd[M](sp.m(b), t) <= sp.m(b))
        # exactly what the size technique promises (C14): a function of the two token counts
        sp.may = lambda a, b: z3.Or(z3.And(he, both_empty(a, b)),
                                    z3.And(z3.Not(z3.And(he, sp.m(b) == 0)), inwin(a, b)))
        # C04 / C09: pairs that meet the threshold (in set mode), and admitted empty pairs
        sp.must = lambda a, b: z3.Or(z3.And(he, both_empty(a, b)),
                                     z3.And(rs, required_sym(M, sp.o(a, b), sp.n(a), sp.m(b), t)), sp.may(a, b))
        sp.score = lambda a, b: None
        sp.lj, sp.rj, sp.rs, sp.t = lj, rj, rs, t
        return sp

    def requires(self, c, sp, lo, ro, M='JACCARD'):
        r = z3.Int('r!sreq')
        return [('threshold-valid', thr_ok(M, sp.t)), ('token-count-domain', S.toks_bounded()),
                ('filter-values-present', z3.And(
                    FA([r], z3.Implies(z3.And(r >= 0, r < ln(sp.lt)),
                                       z3.Not(N.val_isnull(L_get(LV, at(sp.lt, r), sp.lj)))), [at(sp.lt, r)]),
                    FA([r], z3.Implies(z3.And(r >= 0, r < ln(sp.rt)),
                                       z3.Not(N.val_isnull(L_get(LV, at(sp.rt, r), sp.rj)))), [at(sp.rt, r)])))]

    def setup(self, c, M='JACCARD'):
        f = c.p('size_filter')
        return S.toks_axioms() + arithmetic_axioms(M, c.f(f, 'threshold')) + range_axioms(M, c.f(f, 'threshold'))

    def appends(self):
        return [(0, lambda c: (c.t('l_id'), c.loop_idx[-2])), (1, lambda c: (c.t('cand'), c.loop_idx[-2]))]

    def loops(self):
        return {'0': done_rows, '0.0': done_list('l_empty_records'), '0.1': done_keys}

    def extra_hooks(self, M='JACCARD'):
        def after_fc(c):
            sp = self.specs(c, M=M)
            ri = c.loop_idx[-1]
            cands = c.call_result
            a = z3.Int('a!sfc')
            c.extra.extend(f for _, f in self.ctx_facts(c, sp, M=M))
            c.asserts.append(('probe-size', c.t('r_num_tokens') == sp.m(ri)))
            c.asserts.append(('qualifying-rows-are-candidates', FA([a], z3.Implies(
                z3.And(a >= 0, a < ln(sp.lt), sp.must(a, ri)), z3.Select(cands.t, a)), [sp.Tl(a)])))
        return (Hook('size_filter.find_candidates', after_fc, ()),)

    def ctx_facts(self, c, sp, M='JACCARD'):
        a, b = ints('a!sc b!sc')
        return [('intersection-size-facts', FA([a, b], z3.Implies(
            z3.And(a >= 0, a < ln(sp.lt), b >= 0, b < ln(sp.rt)),
            z3.And(*S.isect_facts(VAL, V(LV, sp.Tl(a)), V(LV, sp.Tr(b))))), [z3.MultiPattern(sp.Tl(a), sp.Tr(b))]))]


_scfg = SizeSplitCfg()
register(_scfg.qualname,
         make_split_cases(_scfg, [('%s-%s-%s' % (M, 'None' if a else 'list', 'None' if b else 'list'), a, b, dict(M=M))
                                  for M in SETM for (a, b) in ((True, True), (False, False))] +
                          [('JACCARD-list-None', False, True, dict(M='JACCARD')),
                           ('JACCARD-None-list', True, False, dict(M='JACCARD'))]),
         props=_scfg.props)


# ============================================================================ filter_tables
from .drivers import DriverCfg, driver_cases  # noqa
from pyvc.pandas_model import DF  # noqa


class SizeTablesCfg(DriverCfg):
    qualname = QF + 'filter_tables'
    core_target = '_filter_tables_split'
    core_qual = 'py_stringsimjoin.filter.size_filter._filter_tables_split'
    props = ('C04', 'C08', 'C09', 'C10', 'C11', 'C14', 'C15')

    def params(self, l_none, r_none, M='JACCARD'):
        return OD([('self', filter_obj(M)), ('ltable', DF), ('rtable', DF), ('l_key_attr', VAL), ('r_key_attr', VAL),
                   ('l_filter_attr', VAL), ('r_filter_attr', VAL),
                   ('l_out_attrs', NONE if l_none else LV), ('r_out_attrs', NONE if r_none else LV),
                   ('l_out_prefix', VAL), ('r_out_prefix', VAL), ('n_jobs', INT), ('show_progress', BOOL)])

    def allow_missing(self, c):
        return c.f(c.p('self'), 'allow_missing')

    def score(self, c):
        return z3.BoolVal(False)

    def extra_requires(self, c, M='JACCARD'):
        f = c.p('self')
        return [('object-invariant-threshold-valid', thr_ok(M, c.f(f, 'threshold')))]


_stc = SizeTablesCfg()
register(_stc.qualname,
         driver_cases(_stc, [('%s-%s-%s' % (M, 'None' if a else 'list', 'None' if b else 'list'), a, b, dict(M=M))
                             for (M, a, b) in [('JACCARD', True, True), ('JACCARD', False, False), ('COSINE', True, True),
                                               ('DICE', False, False)]], bad_extra=dict(M='JACCARD')),
         props=_stc.props)
