"""PositionFilter.filter_pair (set measures): the SOUND half is proved -- missing values are handled as
allow_missing says (C08), two token-less values are kept iff allow_empty (C09), and a kept pair
shares a rank within the two prefixes under the pair-level token order, hence a token (C14).
The SAFE half (C04: a pair meeting the threshold is never dropped) needs the positional-filter
counting argument and is a bounded stand-in (oracle on the real code)."""
import z3
from .common import *  # noqa
from .externals import TOKENIZER
import pyvc.natives_sort  # noqa
from .token_ordering import ORD, ord_injective, all_ranked
from .position import filter_obj
from .prefix import plen_of, SETM
from .theorems import required_sym
from pyvc import natives as N

QF = 'py_stringsimjoin.filter.position_filter.PositionFilter.'
PDICT = DictT(INT, INT)


def _filter_pair(M):
    class FilterPair(Case):
        name = M
        params = OD([('self', filter_obj(M, FLOAT)), ('lstring', VAL), ('rstring', VAL)])
        returns = BOOL
        locals = {'l_prefix_dict': PDICT}

        def requires(self, c):
            t = c.f(c.p('self'), 'threshold')
            return [('threshold-valid', z3.And(t > 0, t <= 1)), ('token-count-domain', S.toks_bounded())]

        def setup(self, c):
            return S.toks_axioms()

        def ghost(self, c):
            return {'ordering': fresh(ORD, 'no_ordering')}

        def _after_ordering(c):
            c.ghost['ordering'] = c.call_result

        hooks = (Hook('gen_token_ordering_for_lists', _after_ordering, ('ordering',)),)

        @staticmethod
        def terms(c):
            f = c.p('self')
            l, r = c['lstring'], c['rstring']
            rs = c.f(c.field(f, 'tokenizer'), 'return_set')
            o = c.ghost_out('ordering', ORD)
            Tl, Tr = S.toks(rs, l), S.toks(rs, r)
            return f, l, r, rs, o, Tl, Tr, S.ranks(o, Tl), S.ranks(o, Tr)

        def _inv_left(c):
            """l_prefix_dict holds exactly the ranks of the left prefix seen so far"""
            f, l, r, rs, o, Tl, Tr, Xl, Xr = FilterPair.terms(c)
            d = c.t('l_prefix_dict')
            w, j = ints('w!pp j!pp')
            return [('dict-keys-are-left-prefix-ranks', FA([w], z3.Implies(D_has(PDICT, d, w), z3.Exists(
                [j], z3.And(j >= 0, j < c.i, j < L_len(LI, Xl), L_get(LI, Xl, j) == w), patterns=[L_get(LI, Xl, j)])),
                [D_has(PDICT, d, w)]))]

        def _inv_right(c):
            """a positive running overlap means that some right prefix rank seen so far is a left prefix rank"""
            f, l, r, rs, o, Tl, Tr, Xl, Xr = FilterPair.terms(c)
            i, j = ints('i!pp j!pp2')
            shared = z3.Exists([i, j], z3.And(i >= 0, i < c.i, i < L_len(LI, Xr), j >= 0, j < L_len(LI, Xl),
                                              L_get(LI, Xr, i) == L_get(LI, Xl, j)),
                               patterns=[z3.MultiPattern(L_get(LI, Xr, i), L_get(LI, Xl, j))])
            return [('overlap-non-negative', c.t('current_overlap') >= 0),
                    ('positive-overlap-means-shared-rank', z3.Implies(c.t('current_overlap') > 0, shared))]

        loops = {'0': LoopSpec(_inv_left), '1': LoopSpec(_inv_right)}

        def ensures(self, c, res):
            f, l, r, rs, o, Tl, Tr, Xl, Xr = FilterPair.terms(c)
            t = c.f(f, 'threshold')
            nl, nr = L_len(LV, Tl), L_len(LV, Tr)
            missing = z3.Or(N.val_isnull(l), N.val_isnull(r))
            both_empty = z3.And(nl == 0, nr == 0)
            i, j = ints('i!ppe j!ppe')
            shared = z3.Exists([i, j], z3.And(i >= 0, i < L_len(LI, Xr), j >= 0, j < L_len(LI, Xl),
                                              L_get(LI, Xr, i) == L_get(LI, Xl, j)),
                               patterns=[z3.MultiPattern(L_get(LI, Xr, i), L_get(LI, Xl, j))])
            fs = [('missing', z3.Implies(missing, res.t == z3.Not(c.f(f, 'allow_missing')))),
                  ('both-empty', z3.Implies(z3.And(z3.Not(missing), both_empty), res.t == z3.Not(c.f(f, 'allow_empty')))),
                  ('kept-pairs-share-a-rank', z3.Implies(z3.And(z3.Not(missing), z3.Not(both_empty), z3.Not(res.t)), shared))]
            if not c.proving:
                c.ex.assumed_log.append('%s {%s} [bounded]' % (QF + 'filter_pair', M))
                ov = S.isectV(Tl, Tr)
                fs.append(('never-drops-a-qualifying-pair', z3.Implies(
                    z3.And(z3.Not(missing), rs, required_sym(M, ov, nl, nr, t)), z3.Not(res.t))))
            return fs
    return FilterPair()


register(QF + 'filter_pair', [_filter_pair(M) for M in SETM], props=('C04', 'C06', 'C08', 'C09', 'C14'))
