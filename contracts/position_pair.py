"""PositionFilter.filter_pair (set measures), both halves proved.

SOUND half: missing values are handled as allow_missing says (C08), two token-less values are kept
iff allow_empty (C09), and a kept pair shares a rank within the two prefixes under the pair-level
token order, hence a token (C14).

SAFE half (C04: a pair meeting the threshold is never dropped, set tokenizers): loop invariants
 * the prefix dict holds exactly the first P ranks of the left value, and the position stored with a
   rank is never larger than the rank's real position (true for the code as it is -- it stores 0 for
   every rank -- and for a version that advances l_pos),
 * current_overlap == pcnt(i) = number of right prefix ranks seen so far that are left prefix ranks,
   r_pos == i,
plus the proved arithmetic theorems A2 / A3 and three facts of pure mathematics, machine-checked in
Lean (lemmas/Lemmas.lean): PP (prefix principle), PQ (`prefix_match_count_pos`) and PB
(`position_bound`: for strictly sorted X, Y with Y[i] = X[j], j < P:
 |X n Y| <= pcnt(i) + 1 + min(|X| - j - 1, |Y| - i - 1))."""
import z3
from .common import *  # noqa
from .externals import TOKENIZER
import pyvc.natives_sort  # noqa
from .token_ordering import ORD, ord_injective, all_ranked
from .position import filter_obj
from .prefix import plen_of, SETM, thr_ok, imul_facts, thr_ty_of
from .theorems import required_sym, arithmetic_axioms, range_axioms
from .prefix_tables import pshare_def
from pyvc import natives as N

QF = 'py_stringsimjoin.filter.position_filter.PositionFilter.'
PDICT = DictT(INT, INT)

# ---------------------------------------------------------------- spec functions of the counting argument
_LIs = sort_of(LI)
ppos = z3.Function('ppos', _LIs, z3.IntSort(), z3.IntSort())                 # first position of w in X (when w occurs)
pcnt = z3.Function('pcnt', _LIs, z3.IntSort(), _LIs, z3.IntSort(), z3.IntSort())   # #{ k' < k : Y[k'] in X[0:P] }


def pmem(X, P, w):
    """w is one of the first P elements of X (quantifier-free, through the position function)"""
    return z3.And(ppos(X, w) >= 0, ppos(X, w) < P, ppos(X, w) < L_len(LI, X), L_get(LI, X, ppos(X, w)) == w)


def count_axioms():
    """definitions: ppos is the first position of an element that occurs; pcnt by recursion on k"""
    X, Y = z3.Consts('X!pc Y!pc', _LIs)
    j, k, P = ints('j!pc k!pc P!pc')
    return [z3.ForAll([X, j], z3.Implies(z3.And(j >= 0, j < L_len(LI, X)), z3.And(
                ppos(X, L_get(LI, X, j)) >= 0, ppos(X, L_get(LI, X, j)) <= j,
                L_get(LI, X, ppos(X, L_get(LI, X, j))) == L_get(LI, X, j))), patterns=[L_get(LI, X, j)]),
            z3.ForAll([X, P, Y], pcnt(X, P, Y, 0) == 0, patterns=[pcnt(X, P, Y, 0)]),
            z3.ForAll([X, P, Y, k], z3.Implies(z3.And(k >= 0, k < L_len(LI, Y)),
                                               pcnt(X, P, Y, k + 1) == pcnt(X, P, Y, k) +
                                               z3.If(pmem(X, P, L_get(LI, Y, k)), 1, 0)),
                      patterns=[pcnt(X, P, Y, k + 1)])]


clipf = z3.Function('clip_prefix', z3.IntSort(), z3.IntSort(), z3.IntSort())   # length of the slice X[0:p] of a list of n elements


def clip(p, n):
    return clipf(p, n)


def clip_axiom():
    p, n = ints('p!cl n!cl')
    return [z3.ForAll([p, n], clipf(p, n) == z3.If(p <= n, z3.If(p >= 0, p, 0), n), patterns=[clipf(p, n)])]


def _filter_pair(M):
    class FilterPair(Case):
        name = M
        params = OD([('self', filter_obj(M, thr_ty_of(M))), ('lstring', VAL), ('rstring', VAL)])
        returns = BOOL
        locals = {'l_prefix_dict': PDICT}

        def requires(self, c):
            t = c.f(c.p('self'), 'threshold')
            q = c.f(c.field(c.p('self'), 'tokenizer'), 'qval')
            return [('threshold-valid', thr_ok(M, t, q)), ('token-count-domain', S.toks_bounded())]

        def setup(self, c):
            t = c.f(c.p('self'), 'threshold')
            q = c.f(c.field(c.p('self'), 'tokenizer'), 'qval')
            return imul_facts(M, q, t) + S.toks_axioms() + arithmetic_axioms(M, t) + range_axioms(M, t) + count_axioms() + clip_axiom()

        def ghost(self, c):
            return {'ordering': fresh(ORD, 'no_ordering')}

        def _after_ordering(c):
            c.ghost['ordering'] = c.call_result

        hooks = (Hook('gen_token_ordering_for_lists', _after_ordering, ('ordering',)),)

        @staticmethod
        def terms(c):
            f = c.p('self')
            l, r = c['lstring'], c['rstring']
            rs = c.f(c.field(f, 'tokenizer'), 'return_set')
            o = c.ghost_out('ordering', ORD)
            Tl, Tr = S.toks(rs, l), S.toks(rs, r)
            return f, l, r, rs, o, Tl, Tr, S.ranks(o, Tl), S.ranks(o, Tr)

        def _inv_left(c):
            """l_prefix_dict holds exactly the ranks of the left prefix seen so far; stored positions never
            exceed the real ones (set mode)"""
            f, l, r, rs, o, Tl, Tr, Xl, Xr = FilterPair.terms(c)
            d = c.t('l_prefix_dict')
            w, j = ints('w!pp j!pp')
            return [('dict-keys-are-left-prefix-ranks', FA([w], z3.Implies(D_has(PDICT, d, w), z3.Exists(
                [j], z3.And(j >= 0, j < c.i, j < L_len(LI, Xl), L_get(LI, Xl, j) == w), patterns=[L_get(LI, Xl, j)])),
                [D_has(PDICT, d, w)])),
                ('dict-keys-are-prefix-members', FA([w], z3.Implies(D_has(PDICT, d, w), pmem(Xl, c.i, w)),
                                                    [D_has(PDICT, d, w)])),
                ('every-prefix-rank-is-a-key', FA([j], z3.Implies(z3.And(j >= 0, j < c.i), D_has(PDICT, d, L_get(LI, Xl, j))),
                                                  [L_get(LI, Xl, j)])),
                ('stored-position-not-beyond-real-position', z3.Implies(rs, FA([w], z3.Implies(
                    D_has(PDICT, d, w), z3.And(D_get(PDICT, d, w) >= 0, D_get(PDICT, d, w) <= ppos(Xl, w))),
                    [D_get(PDICT, d, w)]))),
                ('left-position-counter', z3.And(c.t('l_pos') >= 0, c.t('l_pos') <= c.i))]

        def _inv_right(c):
            """current_overlap counts the right prefix ranks seen so far that are left prefix ranks"""
            f, l, r, rs, o, Tl, Tr, Xl, Xr = FilterPair.terms(c)
            i, j = ints('i!pp j!pp2')
            P = clip(c.t('l_prefix_length'), L_len(LI, Xl))
            shared = z3.Exists([i, j], z3.And(i >= 0, i < c.i, i < L_len(LI, Xr), j >= 0, j < L_len(LI, Xl),
                                              L_get(LI, Xr, i) == L_get(LI, Xl, j)),
                               patterns=[z3.MultiPattern(L_get(LI, Xr, i), L_get(LI, Xl, j))])
            return [('overlap-non-negative', c.t('current_overlap') >= 0),
                    ('positive-overlap-means-shared-rank', z3.Implies(c.t('current_overlap') > 0, shared)),
                    ('overlap-is-the-prefix-match-count', c.t('current_overlap') == pcnt(Xl, P, Xr, c.i)),
                    ('right-position-counter', c.t('r_pos') == c.i)]

        loops = {'0': LoopSpec(_inv_left), '1': LoopSpec(_inv_right)}

        def ensures(self, c, res):
            f, l, r, rs, o, Tl, Tr, Xl, Xr = FilterPair.terms(c)
            t = c.f(f, 'threshold')
            q = c.f(c.field(f, 'tokenizer'), 'qval')
            nl, nr = L_len(LV, Tl), L_len(LV, Tr)
            missing = z3.Or(N.val_isnull(l), N.val_isnull(r))
            both_empty = z3.And(nl == 0, nr == 0)
            i, j = ints('i!ppe j!ppe')
            shared = z3.Exists([i, j], z3.And(i >= 0, i < L_len(LI, Xr), j >= 0, j < L_len(LI, Xl),
                                              L_get(LI, Xr, i) == L_get(LI, Xl, j)),
                               patterns=[z3.MultiPattern(L_get(LI, Xr, i), L_get(LI, Xl, j))])
            fs = [('missing', z3.Implies(missing, res.t == z3.Not(c.f(f, 'allow_missing')))),
                  ('both-empty', z3.Implies(z3.And(z3.Not(missing), both_empty),
                                            res.t == (z3.Not(c.f(f, 'allow_empty')) if M in SETM else z3.BoolVal(False)))),
                  ('kept-pairs-share-a-rank', z3.Implies(z3.And(z3.Not(missing), z3.Not(both_empty), z3.Not(res.t)), shared))]
            ov = S.isectV(Tl, Tr)
            if M not in SETM:
                # EDIT_DISTANCE mode (q-gram bags, integer threshold): sound half only; the safe half needs the q-gram
                # lemma for bags and stays with the bounded stand-in (props.PAIR_INT_MODES)
                return fs
            if c.proving:
                # pure mathematics (Lean: prefix_principle, prefix_match_count_pos, position_bound), for this
                # pair under the pair-level order; X = ranks of the left tokens, Y = ranks of the right tokens
                def pl(n):
                    return clip(plen_of(M, n, t, q), n)
                P, Q = pl(nl), pl(nr)
                covers = z3.And(all_ranked(o, V(LV, Tl)), all_ranked(o, V(LV, Tr)), ord_injective(o))
                share = pshare_def(M, o, Tl, Tr, t, q)
                PP = z3.Implies(z3.And(covers, rs, ov >= 1, ov >= nl - P + 1, ov >= nr - Q + 1), share)
                RL = z3.Implies(covers, z3.And(L_len(LI, Xl) == nl, L_len(LI, Xr) == nr))
                PQ = FA([i, j], z3.Implies(z3.And(i >= 0, i < Q, i < L_len(LI, Xr), j >= 0, j < P, j < L_len(LI, Xl),
                                                  L_get(LI, Xr, i) == L_get(LI, Xl, j)), pcnt(Xl, P, Xr, Q) >= 1),
                        [z3.MultiPattern(L_get(LI, Xr, i), L_get(LI, Xl, j))])
                wi = L_get(LI, Xr, i)
                PB = FA([i], z3.Implies(z3.And(covers, rs, i >= 0, i < L_len(LI, Xr), pmem(Xl, P, wi)), z3.And(
                    ov <= pcnt(Xl, P, Xr, i) + 1 + (L_len(LI, Xl) - ppos(Xl, wi) - 1),
                    ov <= pcnt(Xl, P, Xr, i) + 1 + (L_len(LI, Xr) - i - 1))), [pcnt(Xl, P, Xr, i)])
                c.ex.assumed_log.append('lemma PP / PQ / PB (pure mathematics) [proved in Lean, lemmas/Lemmas.lean: '
                                        'prefix_principle, prefix_match_count_pos, position_bound; statement correspondence assumed]')
                c.extra.extend([PP, RL, PQ, PB] + S.isect_facts(VAL, V(LV, Tl), V(LV, Tr)) +
                               S.toks_facts(rs, l) + S.toks_facts(rs, r))
            fs.append(('never-drops-a-qualifying-pair', z3.Implies(
                z3.And(z3.Not(missing), rs, required_sym(M, ov, nl, nr, t)), z3.Not(res.t))))
            return fs
    return FilterPair()


register(QF + 'filter_pair', [_filter_pair(M) for M in SETM + ('EDIT_DISTANCE',)], props=('C04', 'C06', 'C08', 'C09', 'C14'))
