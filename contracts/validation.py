"""Contracts for py_stringsimjoin/utils/validation.py: exact exceptional contracts (C15).

`raises` gives, per exception class, the condition under which the function raises it;
normal return is allowed exactly when none of the conditions holds."""
import z3
from .common import *  # noqa
from pyvc.pandas_model import DF, SER, dtype_is_object, dtype_is_string, dtype_is_numeric, nunique, \
    count_true, LB, col_index
from pyvc import natives as N

Q = 'py_stringsimjoin.utils.validation.'
TOKENIZER = ObjSpec('Tokenizer', qval=INT, return_set=BOOL, is_qgram=BOOL)
TRUE = z3.BoolVal(True)
FALSE = z3.BoolVal(False)


class _Ret(Case):
    returns = BOOL

    def ensures(self, c, res):
        return [('returns-True', res.t)]


# --- validate_input_table ------------------------------------------------------
class InputTableDF(_Ret):
    name = 'DataFrame'
    params = OD([('table', DF), ('table_label', VAL)])


class InputTableOther(_Ret):
    name = 'not-a-DataFrame'
    params = OD([('table', VAL), ('table_label', VAL)])

    def raises(self, c):
        return {'TypeError': TRUE}


register(Q + 'validate_input_table', [InputTableDF(), InputTableOther()], props=('C15',))


# --- validate_attr ---------------------------------------------------------------
class Attr(_Ret):
    name = 'default'
    params = OD([('attr', VAL), ('table_cols', LV), ('attr_label', VAL), ('table_label', VAL)])

    def raises(self, c):
        return {'AssertionError': z3.Not(S.in_list(c.p('table_cols'), c['attr']))}


register(Q + 'validate_attr', [Attr()], props=('C15',))


# --- validate_attr_type -----------------------------------------------------------
def string_typed(d):
    """the documented requirement: the column holds strings (object dtype or a pandas string
    dtype); numeric dtypes are rejected"""
    return z3.Or(dtype_is_object(d), dtype_is_string(d))


class AttrType(_Ret):
    name = 'default'
    params = OD([('attr', VAL), ('attr_type', VAL), ('attr_label', VAL), ('table_label', VAL)])

    def raises(self, c):
        return {'AssertionError': z3.Not(string_typed(c['attr_type']))}


register(Q + 'validate_attr_type', [AttrType()], props=('C15',))


# --- validate_key_attr ---------------------------------------------------------------
def key_ok(table, key_attr):
    """key column values pairwise distinct and none missing (over the rows of `table`)"""
    rows, cols = rec_field(table, 'rows'), rec_field(table, 'cols')
    n = ln(rows)
    i, j = ints('i j')
    p = col_index(cols.t, key_attr)
    cell = lambda r: L_get(LV, L_get(ROWS, rows.t, r), p)
    return z3.And(
        FA([i, j], z3.Implies(z3.And(i >= 0, i < j, j < n), cell(i) != cell(j))),
        FA([i], z3.Implies(z3.And(i >= 0, i < n), z3.Not(N.val_isnull(cell(i))))))


class KeyAttr(_Ret):
    name = 'default'
    params = OD([('key_attr', VAL), ('table', DF), ('table_label', VAL)])

    def requires(self, c):
        return [('key-is-a-column', S.in_list(rec_field(c.p('table'), 'cols'), c['key_attr']))]

    def raises(self, c):
        return {'AssertionError': z3.Not(key_ok(c.p('table'), c['key_attr']))}


register(Q + 'validate_key_attr', [KeyAttr()], props=('C15',))


# --- validate_output_attrs -----------------------------------------------------------
def all_in(outs, cols, upto=None):
    j = z3.Int('j')
    n = ln(outs) if upto is None else upto
    return FA([j], z3.Implies(z3.And(j >= 0, j < n), S.in_list(cols, at(outs, j))), [at(outs, j)])


def _mk_out_attrs(l_none, r_none):
    class OutputAttrs(_Ret):
        name = ('None' if l_none else 'list') + '-' + ('None' if r_none else 'list')
        params = OD([('l_out_attrs', NONE if l_none else LV), ('l_columns', LV),
                     ('r_out_attrs', NONE if r_none else LV), ('r_columns', LV)])
        loops = {}

        def raises(self, c):
            conds = []
            if not l_none:
                conds.append(z3.Not(all_in(c.p('l_out_attrs'), c.p('l_columns'))))
            if not r_none:
                conds.append(z3.Not(all_in(c.p('r_out_attrs'), c.p('r_columns'))))
            return {'AssertionError': z3.Or(*conds) if conds else FALSE}
    if not l_none:
        OutputAttrs.loops['0'] = LoopSpec(lambda c: [('checked-so-far', all_in(c.p('l_out_attrs'), c.p('l_columns'), c.i))])
    if not r_none:
        def inv_r(c):
            fs = [('checked-so-far', all_in(c.p('r_out_attrs'), c.p('r_columns'), c.i))]
            if not l_none:
                fs.append(('left-all-present', all_in(c.p('l_out_attrs'), c.p('l_columns'))))
            return fs
        OutputAttrs.loops['1'] = LoopSpec(inv_r)
    return OutputAttrs()


register(Q + 'validate_output_attrs', [_mk_out_attrs(a, b) for a in (False, True) for b in (False, True)],
         props=('C15',))


# --- validate_threshold ----------------------------------------------------------------
def threshold_valid(M, t):
    t = R_(t)
    if M == 'EDIT_DISTANCE':
        return t >= 0
    if M == 'OVERLAP':
        return t > 0
    return z3.And(t > 0, t <= 1)


def _mk_threshold(M, ty):
    class Threshold(_Ret):
        name = '%s-%s' % (M, 'int' if ty == INT else 'float')
        params = OD([('threshold', ty), ('sim_measure_type', vstr(M))])

        def raises(self, c):
            return {'AssertionError': z3.Not(threshold_valid(M, c['threshold']))}
    return Threshold()


OTHER_SPELLINGS = ('jaccard', 'edit_distance', 'Edit_Distance', 'overlap', 'Overlap')   # the validators compare case-sensitively


def _mk_threshold_other(s_, ty):
    """any other spelling takes the generic branch: threshold in (0, 1] (what the code does; the entry points
    upper-case the name before they call this validator)"""
    class ThresholdOther(_Ret):
        name = '%s-%s' % (s_, 'int' if ty == INT else 'float')
        params = OD([('threshold', ty), ('sim_measure_type', vstr(s_))])

        def raises(self, c):
            return {'AssertionError': z3.Not(threshold_valid('JACCARD', c['threshold']))}
    return ThresholdOther()


register(Q + 'validate_threshold',
         [_mk_threshold(M, ty) for M in ('JACCARD', 'COSINE', 'DICE', 'OVERLAP', 'EDIT_DISTANCE',
                                          'OVERLAP_COEFFICIENT') for ty in (FLOAT, INT)] +
         [_mk_threshold_other(s_, ty) for s_ in OTHER_SPELLINGS for ty in (FLOAT, INT)],
         props=('C15',))


# --- validate_tokenizer ------------------------------------------------------------------
class TokenizerOK(_Ret):
    name = 'Tokenizer'
    params = OD([('tokenizer', TOKENIZER)])


class TokenizerBad(_Ret):
    name = 'not-a-Tokenizer'
    params = OD([('tokenizer', VAL)])

    def raises(self, c):
        return {'TypeError': TRUE}


register(Q + 'validate_tokenizer', [TokenizerOK(), TokenizerBad()], props=('C15',))


def _mk_tok_for_measure(M):
    class TokForMeasure(_Ret):
        name = M
        params = OD([('tokenizer', TOKENIZER), ('sim_measure_type', vstr(M))])

        def raises(self, c):
            if M == 'EDIT_DISTANCE':
                return {'AssertionError': z3.Not(c.f(c.p('tokenizer'), 'is_qgram'))}
            return {}

    class TokForMeasureBad(_Ret):
        name = M + '-not-a-Tokenizer'
        params = OD([('tokenizer', VAL), ('sim_measure_type', vstr(M))])

        def raises(self, c):
            return {'TypeError': TRUE}
    return [TokForMeasure(), TokForMeasureBad()]


register(Q + 'validate_tokenizer_for_sim_measure',
         sum([_mk_tok_for_measure(M) for M in ('JACCARD', 'COSINE', 'DICE', 'OVERLAP', 'EDIT_DISTANCE') + OTHER_SPELLINGS], []),
         props=('C15',))


# --- validate_sim_measure_type ------------------------------------------------------------
VALID_M = ('COSINE', 'DICE', 'EDIT_DISTANCE', 'JACCARD', 'OVERLAP')


def _mk_measure_type(s):
    class MeasureType(_Ret):
        name = s
        params = OD([('sim_measure_type', vstr(s))])

        def raises(self, c):
            return {'TypeError': z3.BoolVal(s.upper() not in VALID_M)}
    return MeasureType()


register(Q + 'validate_sim_measure_type',
         [_mk_measure_type(s) for s in VALID_M + ('jaccard', 'Cosine', 'OVERLAP_COEFFICIENT', 'LEVENSHTEIN', '') +
          tuple(x for x in OTHER_SPELLINGS if x != 'jaccard')],
         props=('C15',))


# --- comparison operators ----------------------------------------------------------------------
def _mk_comp_op(M):
    class CompOp(_Ret):
        name = M
        params = OD([('comp_op', VAL), ('sim_measure_type', vstr(M))])

        def raises(self, c):
            ok = ('<=', '<', '=') if M == 'EDIT_DISTANCE' else ('>=', '>', '=')
            return {'AssertionError': z3.Not(z3.Or(*[c['comp_op'] == strconst(o) for o in ok]))}
    return CompOp()


register(Q + 'validate_comp_op_for_sim_measure',
         [_mk_comp_op(M) for M in ('JACCARD', 'COSINE', 'DICE', 'OVERLAP', 'EDIT_DISTANCE', 'OVERLAP_COEFFICIENT')],
         props=('C15',))


class AnyCompOp(Case):
    name = 'default'
    params = OD([('comp_op', VAL)])
    returns = NONE

    def raises(self, c):
        return {'AssertionError': z3.Not(z3.Or(*[c['comp_op'] == strconst(o)
                                                 for o in ('>=', '>', '<=', '<', '=', '!=')]))}


register(Q + 'validate_comp_op', [AnyCompOp()], props=('C15',))
