"""Contracts for matcher/apply_matcher.py (C05, C08).

_apply_matcher_split: the output rows are exactly the candidate rows k, in their original order
(ghost src strictly increasing and complete), for which keep(k) holds,
   keep(k) = allow_missing                         if a referenced value is missing
           = comp_op(sim_function(vl, vr), t)      otherwise (values tokenized first when a
                                                   tokenizer is given, from the cache or directly)
each carrying the candidate's first cell (_id), the two keys / projected attributes and the score
(NaN for missing).  sim_function is an arbitrary deterministic function (uninterpreted)."""
import z3
from .common import *  # noqa
from .externals import TOKENIZER
from .rowspec import cidx, attrs_in, header_facts
from .candset import key_col_distinct, keys_resolve, candset_pre
from . import validation as VC
from pyvc.pandas_model import DF, LB, col_index, val_of_int
from pyvc import natives as N

MQ = 'py_stringsimjoin.matcher.apply_matcher.'
TOKMAP = DictT(VAL, LV)
simf_s = z3.Function('simf_strings', ValSort, ValSort, z3.RealSort())        # sim_function on two values
simf_t = z3.Function('simf_tokens', sort_of(LV), sort_of(LV), z3.RealSort())  # ... on two token lists
OPS6 = {'>=': lambda a, b: a >= b, '>': lambda a, b: a > b, '<=': lambda a, b: a <= b,
        '<': lambda a, b: a < b, '=': lambda a, b: a == b, '!=': lambda a, b: a != b}
NAN = N.NAN_CELL


def _mp(*ts):
    try:
        return z3.MultiPattern(*ts)
    except Exception as e:
        for t in ts:
            print('MP-ARG', t.sexpr()[:300], '| kind', t.decl().kind() if z3.is_app(t) else None)
        raise


_SIMF = {}


def _simf_value(tokenized):
    if tokenized in _SIMF:
        return _SIMF[tokenized]

    def handler(ex, st, args, e):
        a, b = args
        ex.assumed_log.append('sim_function passed to apply_matcher [assumed: a deterministic function of its two arguments]')
        if tokenized:
            return V(FLOAT, simf_t(a.t, b.t))
        return V(FLOAT, simf_s(to_val(a).t, to_val(b).t))
    _SIMF[tokenized] = V(FUNC, ('spec', handler))
    return _SIMF[tokenized]


def _split(op, tok_mode, l_none, r_none):
    """tok_mode: 'none' (no tokenizer), 'direct' (tokenizer, no cache), 'cache' (tokenizer + caches)"""
    class Split(Case):
        name = '%s-%s-%s-%s' % (op, tok_mode, 'None' if l_none else 'list', 'None' if r_none else 'list')
        params = OD([('candset', DF), ('candset_l_key_attr', VAL), ('candset_r_key_attr', VAL), ('ltable', DF),
                     ('rtable', DF), ('l_key_attr', VAL), ('r_key_attr', VAL), ('l_match_attr', VAL),
                     ('r_match_attr', VAL), ('tokenizer', NONE if tok_mode == 'none' else TOKENIZER),
                     ('sim_function', _simf_value(tok_mode != 'none')), ('threshold', FLOAT), ('comp_op', vstr(op)),
                     ('allow_missing', BOOL), ('l_out_attrs', NONE if l_none else LV),
                     ('r_out_attrs', NONE if r_none else LV), ('l_out_prefix', VAL), ('r_out_prefix', VAL),
                     ('out_sim_score', BOOL), ('show_progress', BOOL),
                     ('l_tokens', TOKMAP if tok_mode == 'cache' else NONE),
                     ('r_tokens', TOKMAP if tok_mode == 'cache' else NONE)])
        returns = DF
        locals = {'output_rows': ROWS}

        @staticmethod
        def outs(c):
            return (None if l_none else c.p('l_out_attrs'), None if r_none else c.p('r_out_attrs'))

        @staticmethod
        def ix(c):
            cs, lt, rt = c.p('candset'), c.p('ltable'), c.p('rtable')
            cc, lc, rc = rec_field(cs, 'cols'), rec_field(lt, 'cols'), rec_field(rt, 'cols')
            return dict(cl=col_index(cc.t, c['candset_l_key_attr']), cr=col_index(cc.t, c['candset_r_key_attr']),
                        lk=col_index(lc.t, c['l_key_attr']), rk=col_index(rc.t, c['r_key_attr']),
                        lm=col_index(lc.t, c['l_match_attr']), rm=col_index(rc.t, c['r_match_attr']))

        def requires(self, c):
            cs, lt, rt = c.p('candset'), c.p('ltable'), c.p('rtable')
            cc, lc, rc = rec_field(cs, 'cols'), rec_field(lt, 'cols'), rec_field(rt, 'cols')
            ix = self.ix(c)
            lo, ro = self.outs(c)
            fs = [('attributes-are-columns', z3.And(
                S.in_list(cc, c['candset_l_key_attr']), S.in_list(cc, c['candset_r_key_attr']),
                S.in_list(lc, c['l_key_attr']), S.in_list(lc, c['l_match_attr']),
                S.in_list(rc, c['r_key_attr']), S.in_list(rc, c['r_match_attr']),
                attrs_in(lo, lc), attrs_in(ro, rc), ln(cc) >= 1)),
                ('table-keys-distinct', z3.And(key_col_distinct(rec_field(lt, 'rows'), ix['lk']),
                                               key_col_distinct(rec_field(rt, 'rows'), ix['rk']))),
                ('candset-keys-exist', z3.And(keys_resolve(cs, ix['cl'], lt, ix['lk']),
                                              keys_resolve(cs, ix['cr'], rt, ix['rk'])))]
            if tok_mode == 'cache':
                rs = c.f(c.p('tokenizer'), 'return_set')
                r = z3.Int('r!tc')
                for (tbl, tm, k_, m_) in ((lt, c['l_tokens'], ix['lk'], ix['lm']), (rt, c['r_tokens'], ix['rk'], ix['rm'])):
                    rows = rec_field(tbl, 'rows')
                    key = L_get(LV, at(rows, r), k_)
                    val = L_get(LV, at(rows, r), m_)
                    fs.append(('token-cache-is-tokenize-of-the-values', FA([r], z3.Implies(
                        z3.And(r >= 0, r < ln(rows), z3.Not(N.val_isnull(val))),
                        z3.And(D_has(TOKMAP, tm, key), D_get(TOKMAP, tm, key) == S.toks(rs, val))), [at(rows, r)])))
            return fs

        def ghost(self, c):
            return {'src': fresh(ArrT(INT, INT), 'src'), 'dst': fresh(ArrT(INT, INT), 'dst')}

        def _after_append(c):
            out = c.v('output_rows')
            k = c.loop_idx[-1]
            c.ghost['src'] = V(ArrT(INT, INT), z3.Store(c.ghost['src'].t, ln(out) - 1, k))
            c.ghost['dst'] = V(ArrT(INT, INT), z3.Store(c.ghost['dst'].t, k, ln(out) - 1))

        hooks = (Hook('output_rows.append', _after_append, ('src', 'dst')),)

        @staticmethod
        def pred(c):
            """per candidate row k (with table rows a, b resolving its keys): missing / sim / keep"""
            lt, rt = c.p('ltable'), c.p('rtable')
            lrows, rrows = rec_field(lt, 'rows'), rec_field(rt, 'rows')
            ix = Split.ix(c)
            vl = lambda a: L_get(LV, at(lrows, a), ix['lm'])
            vr = lambda b: L_get(LV, at(rrows, b), ix['rm'])
            missing = lambda a, b: z3.Or(N.val_isnull(vl(a)), N.val_isnull(vr(b)))
            if tok_mode == 'none':
                sim = lambda a, b: simf_s(vl(a), vr(b))
            else:
                rs = c.f(c.p('tokenizer'), 'return_set')
                sim = lambda a, b: simf_t(S.toks(rs, vl(a)), S.toks(rs, vr(b)))
            keep = lambda a, b: z3.If(missing(a, b), c['allow_missing'], OPS6[op](sim(a, b), c['threshold']))
            score = lambda a, b: z3.If(missing(a, b), NAN, S.val_of_float(sim(a, b)))
            return missing, sim, keep, score

        @staticmethod
        def facts(c, out, upto):
            cs, lt, rt = c.p('candset'), c.p('ltable'), c.p('rtable')
            crows, lrows, rrows = rec_field(cs, 'rows'), rec_field(lt, 'rows'), rec_field(rt, 'rows')
            lcols, rcols = rec_field(lt, 'cols'), rec_field(rt, 'cols')
            ix = Split.ix(c)
            lo, ro = Split.outs(c)
            src, dst = c.ghost_out('src', ArrT(INT, INT)), c.ghost_out('dst', ArrT(INT, INT))
            missing, sim, keep, score = Split.pred(c)
            p, p2, k, a, b, j = ints('p!am p2!am k!am a!am b!am j!am')
            n = ln(out)
            import os
            if os.environ.get('DBG'):
                print('DBG out', out.ty, str(out.t)[:200])
            resolves = lambda kk, aa, bb: z3.And(
                aa >= 0, aa < ln(lrows), bb >= 0, bb < ln(rrows),
                L_get(LV, at(lrows, aa), ix['lk']) == L_get(LV, at(crows, kk), ix['cl']),
                L_get(LV, at(rrows, bb), ix['rk']) == L_get(LV, at(crows, kk), ix['cr']))
            nl = ival(0) if lo is None else ln(lo)
            nr = ival(0) if ro is None else ln(ro)
            cell = lambda r_, q: L_get(LV, r_, q)
            fs = [
                ('source-in-range-and-ordered', z3.And(
                    FA([p], z3.Implies(z3.And(p >= 0, p < n), z3.And(src[p] >= 0, src[p] < upto, dst[src[p]] == p)),
                       [at(out, p), src[p]]),
                    FA([p, p2], z3.Implies(z3.And(p >= 0, p < p2, p2 < n), src[p] < src[p2]),
                       [z3.MultiPattern(src[p], src[p2])]))),
                ('only-kept-rows', FA([p, a, b], z3.Implies(z3.And(p >= 0, p < n, resolves(src[p], a, b)),
                                                            keep(a, b)),
                                      [_mp(at(out, p), at(lrows, a), at(rrows, b)), _mp(src[p], at(lrows, a), at(rrows, b))])),
                ('every-kept-row', FA([k, a, b], z3.Implies(z3.And(k >= 0, k < upto, resolves(k, a, b), keep(a, b)),
                                                            z3.And(dst[k] >= 0, dst[k] < n, src[dst[k]] == k)),
                                      [z3.MultiPattern(at(crows, k), at(lrows, a), at(rrows, b))])),
                ('row-keeps-id-and-keys', FA([p], z3.Implies(z3.And(p >= 0, p < n), z3.And(
                    cell(at(out, p), ival(0)) == cell(at(crows, src[p]), ival(0)),
                    cell(at(out, p), ival(1)) == cell(at(crows, src[p]), ix['cl']),
                    cell(at(out, p), ival(2)) == cell(at(crows, src[p]), ix['cr']),
                    L_len(LV, at(out, p)) == 3 + nl + nr + z3.If(c['out_sim_score'], 1, 0))), [at(out, p)])),
                ('row-score', FA([p, a, b], z3.Implies(
                    z3.And(p >= 0, p < n, c['out_sim_score'], resolves(src[p], a, b)),
                    cell(at(out, p), 3 + nl + nr) == score(a, b)),
                    [_mp(at(out, p), at(lrows, a), at(rrows, b)), _mp(src[p], at(lrows, a), at(rrows, b))])),
            ]
            if lo is not None:
                fs.append(('row-left-attributes', FA([p, a, j], z3.Implies(
                    z3.And(p >= 0, p < n, a >= 0, a < ln(lrows), j >= 0, j < nl,
                           L_get(LV, at(lrows, a), ix['lk']) == L_get(LV, at(crows, src[p]), ix['cl'])),
                    cell(at(out, p), 3 + j) == cell(at(lrows, a), cidx(lcols, at(lo, j)))),
                    [z3.MultiPattern(at(out, p), at(lrows, a), at(lo, j))])))
            if ro is not None:
                fs.append(('row-right-attributes', FA([p, b, j], z3.Implies(
                    z3.And(p >= 0, p < n, b >= 0, b < ln(rrows), j >= 0, j < nr,
                           L_get(LV, at(rrows, b), ix['rk']) == L_get(LV, at(crows, src[p]), ix['cr'])),
                    cell(at(out, p), 3 + nl + j) == cell(at(rrows, b), cidx(rcols, at(ro, j)))),
                    [z3.MultiPattern(at(out, p), at(rrows, b), at(ro, j))])))
            return fs

        def _inv(c):
            return Split.facts(c, c.v('output_rows'), c.i)

        loops = {'0': LoopSpec(_inv)}

        def ensures(self, c, res):
            cs = c.p('candset')
            rows, cols = rec_field(res, 'rows'), rec_field(res, 'cols')
            lo, ro = self.outs(c)
            fs = Split.facts(c, rows, ln(rec_field(cs, 'rows')))
            sc = c['out_sim_score']
            for with_score in (True, False):
                for (lab, f) in header_facts(cols, c['l_key_attr'], c['r_key_attr'], lo, ro, c['l_out_prefix'],
                                             c['r_out_prefix'], True, with_score, assumed=not c.proving):
                    fs.append((lab + ('-with-score' if with_score else '-no-score'),
                               z3.Implies(sc if with_score else z3.Not(sc), f)))
            # the header as a term (a function of the arguments only: equal for every chunk of a parallel run)
            oh = S.out_header(c['l_key_attr'], c['r_key_attr'], None if lo is None else lo.t, None if ro is None else ro.t,
                              c['l_out_prefix'], c['r_out_prefix'])
            hd = L_cons(LV, strconst('_id'), oh)
            fs.append(('header-term', cols.t == z3.If(sc, L_append(LV, hd, strconst('_sim_score')), hd)))
            return fs
    return Split()


_cases = []
for _op in OPS6:
    _cases.append(_split(_op, 'none', True, True))
for _tm in ('direct', 'cache'):
    for (_a, _b) in ((True, True), (False, False), (False, True), (True, False)):
        _cases.append(_split('>=', _tm, _a, _b))
_cases.append(_split('>=', 'none', False, False))
_cases.append(_split('<', 'cache', True, True))
_cases.append(_split('<', 'direct', True, True))
register(MQ + '_apply_matcher_split', _cases, props=('C05', 'C08'))


# ============================================================================ generate_tokens
class GenerateTokens(Case):
    """the token cache maps every key whose value is present to the token list of that value
    (verified against the pandas model: df[notnull mask], Series.apply, dict(zip))"""
    name = 'default'
    params = OD([('table', DF), ('key_attr', VAL), ('join_attr', VAL), ('tokenizer', TOKENIZER)])
    returns = TOKMAP

    @staticmethod
    def ix(c):
        cols = rec_field(c.p('table'), 'cols')
        return col_index(cols.t, c['key_attr']), col_index(cols.t, c['join_attr'])

    def requires(self, c):
        t = c.p('table')
        cols = rec_field(t, 'cols')
        k_, m_ = self.ix(c)
        return [('attributes-are-columns', z3.And(S.in_list(cols, c['key_attr']), S.in_list(cols, c['join_attr']))),
                ('keys-distinct', key_col_distinct(rec_field(t, 'rows'), k_))]

    def _after_dict(c):
        """lemma steps (each proved where it is asserted, then available): the selected rows, their keys and
        token lists in terms of the source table; the keys of the selected rows are distinct; hence the dict maps
        the key of every selected row to the tokens of that row"""
        from pyvc import pandas_model as PM
        t = c.p('table')
        rows = rec_field(t, 'rows')
        k_, m_ = GenerateTokens.ix(c)
        rs = c.f(c.p('tokenizer'), 'return_set')
        nn = c.v('table_nonnull')
        nrows = rec_field(nn, 'rows')
        mask = PM.notnull_list(PM.col_vals(t.t, m_))
        src = lambda q: PM.sel_src(mask, q)
        K = PM.col_vals(nn.t, k_)
        T = PM.tok_list(rs, PM.col_vals(nn.t, m_))
        D = c.call_result
        p, p2 = ints('p!gtl p2!gtl')
        m = ln(nrows)
        inr = z3.And(p >= 0, p < m)
        c.asserts.append(('selected-rows', FA([p], z3.Implies(inr, z3.And(
            src(p) >= 0, src(p) < ln(rows), at(nrows, p) == at(rows, src(p)),
            z3.Not(N.val_isnull(L_get(LV, at(rows, src(p)), m_))))), [at(nrows, p)])))
        c.asserts.append(('selected-keys-and-tokens', z3.And(L_len(LV, K) == m, L_len(PM.LLV, T) == m, FA([p], z3.Implies(inr, z3.And(
            L_get(LV, K, p) == L_get(LV, at(rows, src(p)), k_),
            L_get(PM.LLV, T, p) == S.toks(rs, L_get(LV, at(rows, src(p)), m_)))), [L_get(LV, K, p)]))))
        c.asserts.append(('selected-keys-distinct', FA([p, p2], z3.Implies(z3.And(p >= 0, p < p2, p2 < m),
                                                                          L_get(LV, K, p) != L_get(LV, K, p2)),
                                                     [z3.MultiPattern(L_get(LV, K, p), L_get(LV, K, p2))])))
        c.asserts.append(('dict-maps-selected-keys-to-their-tokens', FA([p], z3.Implies(inr, z3.And(
            D_has(TOKMAP, D.t, L_get(LV, K, p)), D_get(TOKMAP, D.t, L_get(LV, K, p)) == L_get(PM.LLV, T, p))),
            [L_get(LV, K, p)])))

        r = z3.Int('r!gtl')
        dst = lambda q: PM.sel_dst(mask, q)
        c.asserts.append(('present-rows-are-selected', FA([r], z3.Implies(
            z3.And(r >= 0, r < ln(rows), z3.Not(N.val_isnull(L_get(LV, at(rows, r), m_)))),
            z3.And(dst(r) >= 0, dst(r) < m, src(dst(r)) == r,
                   L_get(LV, K, dst(r)) == L_get(LV, at(rows, r), k_),
                   D_has(TOKMAP, D.t, L_get(LV, K, dst(r))),
                   D_get(TOKMAP, D.t, L_get(LV, K, dst(r))) == S.toks(rs, L_get(LV, at(rows, r), m_)))), [at(rows, r)])))

    hooks = (Hook('dict', _after_dict, ()),)

    def ensures(self, c, res):
        t = c.p('table')
        rows = rec_field(t, 'rows')
        k_, m_ = self.ix(c)
        rs = c.f(c.p('tokenizer'), 'return_set')
        r = z3.Int('r!gt')
        key, val = L_get(LV, at(rows, r), k_), L_get(LV, at(rows, r), m_)
        return [('cache', FA([r], z3.Implies(z3.And(r >= 0, r < ln(rows), z3.Not(N.val_isnull(val))), z3.And(
            D_has(TOKMAP, res.t, key), D_get(TOKMAP, res.t, key) == S.toks(rs, val))), [at(rows, r)]))]


register(MQ + 'generate_tokens', [GenerateTokens()], props=('C05',))


# ============================================================================ apply_matcher
def _matcher(op, tok, l_none, r_none, candset_ok=True):
    class ApplyMatcher(Case):
        """C05 at the API: validation (exact exceptional contract), the empty candidate set is returned
        as is, otherwise (serial path) the result is what _apply_matcher_split returns for the
        projected tables, with the token cache (when used) built by generate_tokens; the parallel
        path's chunk calls and concat are proved safe, its row-level equality is bounded."""
        name = '%s-%s-%s-%s%s' % (op, 'tokenizer' if tok else 'no-tokenizer', 'None' if l_none else 'list',
                                  'None' if r_none else 'list', '' if candset_ok else '-candset-not-a-DataFrame')
        params = OD([('candset', DF if candset_ok else VAL), ('candset_l_key_attr', VAL), ('candset_r_key_attr', VAL),
                     ('ltable', DF), ('rtable', DF), ('l_key_attr', VAL), ('r_key_attr', VAL),
                     ('l_match_attr', VAL), ('r_match_attr', VAL), ('tokenizer', TOKENIZER if tok else NONE),
                     ('sim_function', _simf_value(tok)), ('threshold', FLOAT), ('comp_op', vstr(op)),
                     ('allow_missing', BOOL), ('l_out_attrs', NONE if l_none else LV),
                     ('r_out_attrs', NONE if r_none else LV), ('l_out_prefix', VAL), ('r_out_prefix', VAL),
                     ('out_sim_score', BOOL), ('n_jobs', INT), ('show_progress', BOOL)])
        returns = DF

        @staticmethod
        def outs(c):
            return (None if l_none else c.p('l_out_attrs'), None if r_none else c.p('r_out_attrs'))

        @staticmethod
        def pre(c):
            lo, ro = ApplyMatcher.outs(c)
            lc, rc = rec_field(c.p('ltable'), 'cols'), rec_field(c.p('rtable'), 'cols')
            return z3.And(candset_pre(c, ('l_match_attr', 'r_match_attr'), type_checked=False),
                          attrs_in(lo, lc) if lo is not None else z3.BoolVal(True),
                          attrs_in(ro, rc) if ro is not None else z3.BoolVal(True),
                          z3.BoolVal(op in OPS6))

        def requires(self, c):
            if not candset_ok:
                return []
            cs, lt, rt = c.p('candset'), c.p('ltable'), c.p('rtable')
            cc, lc, rc = rec_field(cs, 'cols'), rec_field(lt, 'cols'), rec_field(rt, 'cols')
            cl, cr = col_index(cc.t, c['candset_l_key_attr']), col_index(cc.t, c['candset_r_key_attr'])
            lk, rk = col_index(lc.t, c['l_key_attr']), col_index(rc.t, c['r_key_attr'])
            return [('candset-size-domain', z3.And(ln(rec_field(cs, 'rows')) <= S.MAXTOK)),
                    ('candset-keys-exist', z3.Implies(self.pre(c), z3.And(
                        keys_resolve(cs, cl, lt, lk), keys_resolve(cs, cr, rt, rk))))]

        def raises(self, c):
            if not candset_ok:
                return {'TypeError': z3.BoolVal(True)}
            return {'AssertionError': z3.Not(self.pre(c))}

        def setup(self, c):
            from .generic_helper import RemoveRedundant, AIT, AVI
            lo, ro = self.outs(c)
            fs = []
            if lo is not None:
                dl = V(LV, S.dedup(lo.t, c['l_key_attr']))
                fs += [f for _, f in RemoveRedundant.facts(lo, c['l_key_attr'], dl, fresh(AIT, 'th_src').t,
                                                         fresh(AVI, 'th_wh').t, ln(lo))]
            if ro is not None:
                dr = V(LV, S.dedup(ro.t, c['r_key_attr']))
                fs += [f for _, f in RemoveRedundant.facts(ro, c['r_key_attr'], dr, fresh(AIT, 'th_src').t,
                                                         fresh(AVI, 'th_wh').t, ln(ro))]
            return fs

        def ghost(self, c):
            return {'serial': vbool(False), 'split_result': fresh(DF, 'nosplit')}

        def _after_split(c):
            c.ghost['serial'] = vbool(True)
            c.ghost['split_result'] = c.last_call['result']

        def _after_proj(c):
            # list.index on the projection list: definitional facts (x occurs: it is element 0 / 1)
            res = c.call_result
            key, match = c.last_call['args']['key_attr'], c.last_call['args']['join_attr']
            from pyvc.values import L_index_facts
            for (x, pos) in ((key, 0), (match, 1)):
                fs = L_index_facts(LV, res.t, x.t)
                if fs:
                    c.extra.append(z3.Implies(at(res, pos) == x.t, z3.And(*fs)))
            c.asserts.append(('key-is-first-projected-column', L_index(LV, res.t, key.t) == 0))
            c.asserts.append(('match-attr-is-among-the-first-two',
                              z3.And(L_index(LV, res.t, match.t) >= 0, L_index(LV, res.t, match.t) <= 1)))

        def _after_chunks(c):
            """lemma step: every chunk of the candidate set still references existing keys of the projected tables"""
            splits = c.call_result
            lt_, rt_ = c.v('ltable_projected'), c.v('rtable_projected')
            cs = c.p('candset')
            cc = rec_field(cs, 'cols')
            cl, cr = col_index(cc.t, c['candset_l_key_attr']), col_index(cc.t, c['candset_r_key_attr'])
            lk = col_index(rec_field(lt_, 'cols').t, c['l_key_attr'])
            rk = col_index(rec_field(rt_, 'cols').t, c['r_key_attr'])
            q = z3.Int('q!chk')
            chunk = V(DF, L_get(splits.ty, splits.t, q))
            c.asserts.append(('whole-candset-references-projected-keys', z3.And(
                keys_resolve(cs, cl, lt_, lk), keys_resolve(cs, cr, rt_, rk))))
            c.asserts.append(('chunks-reference-existing-keys', FA([q], z3.Implies(
                z3.And(q >= 0, q < L_len(splits.ty, splits.t)),
                z3.And(keys_resolve(chunk, cl, lt_, lk), keys_resolve(chunk, cr, rt_, rk))),
                [L_get(splits.ty, splits.t, q)])))

        hooks = (Hook('_apply_matcher_split', _after_split, ('serial', 'split_result'), nth=0),
                 Hook('get_attrs_to_project', _after_proj, ()),
                 Hook('split_table', _after_chunks, ()))

        def ensures(self, c, res):
            cs = c.p('candset')
            empty = z3.Or(ln(rec_field(cs, 'rows')) == 0, ln(rec_field(cs, 'cols')) == 0)
            serial = c.ghost_out('serial', BOOL)
            sr = c.ghost_out('split_result', DF)
            return [('empty-candset-returned-as-is', z3.Implies(empty, res.t == cs.t)),
                    ('serial-result-is-the-split-result', z3.Implies(z3.And(serial, z3.Not(empty)), res.t == sr))]
    return ApplyMatcher()


register(MQ + 'apply_matcher',
         [_matcher('>=', True, True, True), _matcher('>=', True, False, False), _matcher('>=', True, True, False),
          _matcher('>=', True, False, True), _matcher('<', True, True, True)] +
         [_matcher(_op, False, True, True) for _op in OPS6] +
         [_matcher('>=', False, False, False), _matcher('=>', True, True, True),
          _matcher('>=', True, True, True, candset_ok=False)],
         props=('C05', 'C08', 'C10', 'C15'))
