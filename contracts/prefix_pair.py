"""gen_token_ordering_for_lists and PrefixFilter.filter_pair (C04, C06, C08, C09, C14; set measures).

filter_pair, exact: a pair of present values is kept iff the two prefixes (first plen(size) ranks
under the pair-level token order) share a rank -- or both values have no tokens and allow_empty.
Derived (with the Lean-proved prefix principle PP / PC and the proved prefix-length theorem A2):
a pair whose similarity meets the threshold is never dropped (C04); a kept pair has a token in
common unless both values have no tokens (C14)."""
import z3
from .common import *  # noqa
from .externals import TOKENIZER
import pyvc.natives_sort  # noqa
from .token_ordering import Q as TQ, ORD, ord_injective, ord_positive, all_ranked
from .prefix import filter_obj, plen_of, SETM, thr_ok, imul_facts
from .prefix_tables import pshare, pshare_axiom, pshare_def
from .theorems import arithmetic_axioms, required_sym, range_axioms
from pyvc import natives as N

QF = 'py_stringsimjoin.filter.prefix_filter.PrefixFilter.'
FREQ = DictT(VAL, INT)
ITEM = TupleT(VAL, INT)
LITEM = ListT(ITEM)
LLV = ListT(LV)


# ============================================================================ gen_token_ordering_for_lists
class OrderingForLists(Case):
    name = 'two-lists'
    params = OD([('token_lists', LLV)])
    returns = ORD
    locals = {'token_freq_dict': FREQ, 'token_ordering': ORD}

    def requires(self, c):
        tl = c.p('token_lists')
        # with two empty lists the function reads `order_idx` before assignment (callers return earlier)
        return [('two-lists', ln(tl) == 2),
                ('some-token', z3.Or(L_len(LV, at(tl, 0)) > 0, L_len(LV, at(tl, 1)) > 0))]

    @staticmethod
    def counted(c, fd, lst_done, tok_done=None):
        tl = c.p('token_lists')
        q, j = ints('q!kl j!kl')
        w = z3.Const('w!kl', ValSort)
        if tok_done is None:
            done = q < lst_done
        else:
            done = z3.Or(q < lst_done, z3.And(q == lst_done, j < tok_done))
        return [('tokens-counted', FA([q, j], z3.Implies(
            z3.And(q >= 0, q < 2, j >= 0, j < L_len(LV, at(tl, q)), done),
            z3.And(D_has(FREQ, fd, L_get(LV, at(tl, q), j)), D_get(FREQ, fd, L_get(LV, at(tl, q), j)) >= 1)),
            [L_get(LV, at(tl, q), j)])),
            ('counts-positive', FA([w], z3.Implies(D_has(FREQ, fd, w), D_get(FREQ, fd, w) >= 1), [D_has(FREQ, fd, w)]))]

    def _inv_lists(c):
        tl = c.p('token_lists')
        seen_any = z3.Or(*[z3.And(c.i > q_, L_len(LV, at(tl, q_)) > 0) for q_ in (0, 1)])
        return OrderingForLists.counted(c, c.t('token_freq_dict'), c.i) + \
            ([('order-index-set', z3.Implies(seen_any, c.t('order_idx') == 1))] if c.has('order_idx') else [])

    def _inv_tokens(c):
        tl = c.p('token_lists')
        qo = c.outer[-1]
        seen_any = z3.Or(c.i > 0, *[z3.And(qo > q_, L_len(LV, at(tl, q_)) > 0) for q_ in (0, 1)])
        # (vacuously true before the first assignment of order_idx, when neither disjunct holds)
        return OrderingForLists.counted(c, c.t('token_freq_dict'), qo, c.i) + \
            ([('order-index-set', z3.Implies(seen_any, c.t('order_idx') == 1))] if c.has('order_idx') else [])

    def _inv_assign(c):
        to = c.t('token_ordering')
        lst = c.seq.src
        k, k2 = ints('k!kla k2!kla')
        w = z3.Const('w!kla', ValSort)
        key = lambda q: T_get(ITEM, L_get(LITEM, lst.t, q), 0)
        fd = c.t('token_freq_dict')
        return [('order-index', c.t('order_idx') == c.i + 1),
                ('assigned', FA([k], z3.Implies(z3.And(k >= 0, k < c.i), z3.And(
                    D_has(ORD, to, key(k)), D_get(ORD, to, key(k)) == k + 1)), [key(k)])),
                ('only-assigned', FA([w], z3.Implies(D_has(ORD, to, w), z3.Exists(
                    [k], z3.And(k >= 0, k < c.i, key(k) == w), patterns=[key(k)])), [D_has(ORD, to, w)])),
                ('keys-distinct', FA([k, k2], z3.Implies(z3.And(k >= 0, k < k2, k2 < ln(lst)), key(k) != key(k2)),
                                     [z3.MultiPattern(key(k), key(k2))])),
                ('every-counted-token-is-listed', FA([w], z3.Implies(D_has(FREQ, fd, w), z3.Exists(
                    [k], z3.And(k >= 0, k < ln(lst), key(k) == w), patterns=[key(k)])), [D_has(FREQ, fd, w)]))]

    loops = {'0': LoopSpec(_inv_lists), '0.0': LoopSpec(_inv_tokens), '1': LoopSpec(_inv_assign)}

    def ensures(self, c, res):
        tl = c.p('token_lists')
        return [('covers-first', all_ranked(res.t, V(LV, at(tl, 0)))), ('covers-second', all_ranked(res.t, V(LV, at(tl, 1)))),
                ('injective', ord_injective(res.t)), ('positive', ord_positive(res.t))]


register(TQ + 'gen_token_ordering_for_lists', [OrderingForLists()], props=('C04', 'C14'))


# ============================================================================ PrefixFilter.filter_pair
def _filter_pair(M):
    class FilterPair(Case):
        name = M
        params = OD([('self', filter_obj(M)), ('lstring', VAL), ('rstring', VAL)])
        returns = BOOL

        def requires(self, c):
            t = c.f(c.p('self'), 'threshold')
            q = c.f(c.field(c.p('self'), 'tokenizer'), 'qval')
            return [('threshold-valid', thr_ok(M, t, q)), ('token-count-domain', S.toks_bounded())]

        def setup(self, c):
            t = c.f(c.p('self'), 'threshold')
            q = c.f(c.field(c.p('self'), 'tokenizer'), 'qval')
            return S.toks_axioms() + arithmetic_axioms(M, t) + range_axioms(M, t) + imul_facts(M, q, t)

        def ghost(self, c):
            return {'ordering': fresh(ORD, 'no_ordering')}

        def _after_ordering(c):
            c.ghost['ordering'] = c.call_result

        hooks = (Hook('gen_token_ordering_for_lists', _after_ordering, ('ordering',)),)

        def ensures(self, c, res):
            f = c.p('self')
            l, r = c['lstring'], c['rstring']
            rs = c.f(c.field(f, 'tokenizer'), 'return_set')
            q = c.f(c.field(f, 'tokenizer'), 'qval')
            t = c.f(f, 'threshold')
            Tl, Tr = S.toks(rs, l), S.toks(rs, r)
            nl, nr = L_len(LV, Tl), L_len(LV, Tr)
            missing = z3.Or(N.val_isnull(l), N.val_isnull(r))
            both_empty = z3.And(nl == 0, nr == 0)
            o = c.ghost_out('ordering', ORD)
            ov = S.isectV(Tl, Tr)
            share = pshare_def(M, o, Tl, Tr, t, q)
            fs = [('exact', z3.Implies(z3.And(z3.Not(missing), z3.Not(both_empty)), res.t == z3.Not(share))),
                  ('missing', z3.Implies(missing, res.t == z3.Not(c.f(f, 'allow_missing')))),
                  ('both-empty', z3.Implies(z3.And(z3.Not(missing), both_empty),
                                            res.t == (z3.Not(c.f(f, 'allow_empty')) if M in SETM else z3.BoolVal(False))))]
            if M not in SETM:
                # EDIT_DISTANCE mode (q-gram bags, integer threshold): the exact characterisation and the missing /
                # empty handling are proved; the C04 / C14 forms need the q-gram lemma and stay with the bounded stand-in
                return fs
            if c.proving:
                # PP / PC (Lean: prefix_principle, shared_element_inter_pos), for this pair under the pair-level order
                def pl(n):
                    p = plen_of(M, n, t, q)
                    return z3.If(p <= n, z3.If(p >= 0, p, 0), n)
                covers = z3.And(all_ranked(o, V(LV, Tl)), all_ranked(o, V(LV, Tr)), ord_injective(o))
                PP = z3.Implies(z3.And(covers, rs, ov >= 1, ov >= nl - pl(nl) + 1, ov >= nr - pl(nr) + 1), share)
                PC = z3.Implies(z3.And(covers, share), ov >= 1)
                RL = z3.Implies(covers, z3.And(L_len(LI, S.ranks(o, Tl)) == nl, L_len(LI, S.ranks(o, Tr)) == nr))
                c.ex.assumed_log.append('lemma PP / PC (pure mathematics) [proved in Lean, lemmas/Lemmas.lean; statement correspondence assumed]')
                c.extra.extend([PP, PC, RL] + S.isect_facts(VAL, V(LV, Tl), V(LV, Tr)) + S.toks_facts(rs, l) + S.toks_facts(rs, r))
            fs.append(('never-drops-a-qualifying-pair', z3.Implies(
                z3.And(z3.Not(missing), rs, required_sym(M, ov, nl, nr, t)), z3.Not(res.t))))
            fs.append(('kept-pairs-share-a-token', z3.Implies(
                z3.And(z3.Not(missing), z3.Not(both_empty), z3.Not(res.t)), ov >= 1)))
            return fs
    return FilterPair()


register(QF + 'filter_pair', [_filter_pair(M) for M in SETM + ('EDIT_DISTANCE',)], props=('C04', 'C06', 'C08', 'C09', 'C14'))
