"""PositionFilter.find_candidates: the SOUND half is proved from the real source (a candidate with a
positive count lies in the size window of the probe and shares a rank with the probe's prefix);
the COMPLETE half (K4: every pair meeting the size / prefix / overlap premises is a candidate)
stays a bounded stand-in and is exported as such."""
import z3
from .common import *  # noqa
from .position import QF, QI, CAND, INDEX, ENTRY, X_of, index_obj, filter_obj, size_premise, strictly_increasing, SETM
from .position_build import wf_position, POSG, pl_of, LE
from .prefix import plen_of
from pyvc import natives as N

TCACHE = DictT(INT, INT)


def _find_candidates(M):
    class FindCandidates(Case):
        name = M
        params = OD([('self', filter_obj(M, FLOAT)), ('probe_tokens', LI), ('position_index', index_obj(M, FLOAT))])
        returns = CAND
        locals = {'candidate_overlap': CAND, 'overlap_threshold_cache': TCACHE}
        inline = (QI + 'probe',)

        def requires(self, c):
            f, idx = c.p('self'), c.p('position_index')
            posg = c.ghost_in('posg', POSG)
            t = c.f(f, 'threshold')
            sc = c.field(idx, 'size_cache')
            NL = ln(c.field(idx, 'table'))
            r = z3.Int('r!fcq')
            return wf_position(c, M, idx, c.f(idx, 'index'), posg, NL) + [
                ('size-cache', z3.And(ln(sc) == NL, FA([r], z3.Implies(z3.And(r >= 0, r < NL), z3.And(
                    at(sc, r) == L_len(LI, X_of(c, idx, r)), at(sc, r) <= S.MAXTOK)), [at(sc, r)]))),
                ('min-max-domain', z3.And(c.f(idx, 'max_length') >= 0, c.f(idx, 'max_length') <= S.MAXTOK,
                                          c.f(idx, 'min_length') >= 0)),
                ('same-threshold', c.f(f, 'threshold') == c.f(idx, 'threshold')),
                ('threshold-valid-and-not-extreme', z3.And(t > 0, t <= 1, t >= rv(Fraction(1, 2 ** 400)))),
                ('probe-size-domain', ln(c.p('probe_tokens')) <= S.MAXTOK),
                ('probe-sorted-set', strictly_increasing(c.p('probe_tokens')))]

        @staticmethod
        def sound(c, co, upto, tok=None, kdone=None):
            f, idx = c.p('self'), c.p('position_index')
            Y = c.p('probe_tokens')
            t = c.f(f, 'threshold')
            m = ln(Y)
            NL = ln(c.field(idx, 'table'))
            r, i, j = ints('r!fs i!fs j!fs')
            X = lambda q: X_of(c, idx, q)
            n = lambda q: L_len(LI, X(q))
            has = lambda q: D_has(CAND, co, q)
            val = lambda q: D_get(CAND, co, q)
            shares = z3.Exists([i, j], z3.And(i >= 0, i < upto, i < m, j >= 0, j < pl_of(c, M, idx, r),
                                              at(Y, i) == L_get(LI, X(r), j)),
                               patterns=[z3.MultiPattern(at(Y, i), L_get(LI, X(r), j))])
            return [('sound', FA([r], z3.Implies(has(r), z3.And(
                r >= 0, r < NL, val(r) != 0, val(r) >= -1,
                z3.Implies(val(r) >= 1, z3.And(S.lbnd[M](m, t) <= n(r), n(r) <= S.ubnd[M](m, t), shares)))),
                [has(r)]))]

        def _inv_cache(c):
            f = c.p('self')
            Y = c.p('probe_tokens')
            cache = c.t('overlap_threshold_cache')
            s_ = z3.Int('s!oc')
            lo = c.seq.lo
            return [('threshold-cache-keys', FA([s_], z3.Implies(z3.And(s_ >= lo, s_ < lo + c.i), D_has(TCACHE, cache, s_)),
                                                [D_has(TCACHE, cache, s_)]))]

        def _inv_probe(c):
            return FindCandidates.sound(c, c.t('candidate_overlap'), c.i) + \
                [('probe-position', c.t('probe_pos') == c.i)]

        def _inv_entries(c):
            return FindCandidates.sound(c, c.t('candidate_overlap'), c.outer[-1] + 1) + \
                [('probe-position', c.t('probe_pos') == c.outer[-1])]

        loops = {'0': LoopSpec(_inv_cache), '1': LoopSpec(_inv_probe), '1.0': LoopSpec(_inv_entries)}

        def ensures(self, c, res):
            f, idx = c.p('self'), c.p('position_index')
            Y = c.p('probe_tokens')
            t = c.f(f, 'threshold')
            NL = ln(c.field(idx, 'table'))
            r = z3.Int('r!fc')
            X = lambda q: X_of(c, idx, q)
            n = lambda q: L_len(LI, X(q))
            o = lambda q: S.isectI(X(q), Y.t)
            m = ln(Y)
            has = lambda q: D_has(CAND, res.t, q)
            val = lambda q: D_get(CAND, res.t, q)
            fs = FindCandidates.sound(c, res.t, m)
            if not c.proving:
                # exported to callers, not proved here: the completeness half (bounded stand-in) and the step from
                # "shares a rank" to isectI >= 1 (pure mathematics about the counting specification)
                c.ex.assumed_log.append('%s {%s} [bounded]' % (QF + 'find_candidates', M))
                fs.append(('complete', FA([r], z3.Implies(z3.And(r >= 0, r < NL, size_premise(M, t, n(r), m, o(r))),
                                                          z3.And(has(r), val(r) > 0)), [X(r)])))
                fs.append(('positive-count-means-common-rank', FA([r], z3.Implies(z3.And(has(r), val(r) > 0), o(r) >= 1),
                                                                  [has(r)])))
            return fs
    return FindCandidates()


register(QF + 'find_candidates', [_find_candidates(M) for M in SETM], props=('C01', 'C04', 'C14'))
