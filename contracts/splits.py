"""Generic contract builder for the split functions (one chunk of the right table against the
whole left table): output rows <-> pairs (c, r) through ghost origin maps gc / gr / wh.

  origin-in-range         every output row stems from a processed pair
  only-qualifying-pairs   ... which satisfies may(c, r)
  at-most-once            ... and no other row stems from the same pair (wh is inverse to gc, gr)
  every-qualifying-pair   every processed pair with must(c, r) has its row
  row facts               the row is built from the two source rows (+ score cell)

A configuration gives the parameter list, the property-level predicates and where rows are
appended (hook sites).  Used by the filters' _filter_tables_split, _overlap_coefficient_join_split
and _edit_distance_join_split; set_sim_join.py predates it and has the same shape."""
import z3
from .common import *  # noqa
from .rowspec import row_facts, header_facts, attrs_in, cidx, header_term

AII = ArrT(INT, INT)
AIII = ArrT(INT, AII)


class SplitCfg(object):
    qualname = None
    table_names = ('ltable', 'rtable')      # parameter names of the two arrays
    append_target = 'output_rows.append'
    score_param = 'out_sim_score'           # None: never a score column
    props = ()

    def params(self, l_none, r_none):
        raise NotImplementedError

    def specs(self, c):
        """object with must(a,b), may(a,b), score(a,b) (z3), lt, rt, lcols, rcols (V)"""
        raise NotImplementedError

    def requires(self, c, sp, lo, ro, **kw):
        return []

    def setup(self, c, **kw):
        return []

    # hook sites: list of (nth append, fn(c) -> (left row id term, right row id term))
    def appends(self):
        raise NotImplementedError

    # loop ordinals -> done-predicate builder: fn(c, sp) -> lambda a, b: z3 Bool
    def loops(self):
        raise NotImplementedError

    def extra_hooks(self, **kw):
        return ()

    def ctx_facts(self, c, sp, **kw):
        return []


def make_split_cases(cfg, variants):
    """variants: list of (name, l_none, r_none, extra dict)"""
    from pyvc.pandas_model import DF
    cases = []
    for (vname, l_none, r_none, extra) in variants:
        cases.append(_make_case(cfg, vname, l_none, r_none, extra, DF))
    return cases


def _make_case(cfg, vname, l_none, r_none, extra, DF):
    class Split(Case):
        name = vname
        params = cfg.params(l_none, r_none, **extra)
        returns = DF
        locals = {'output_rows': ROWS}
        inline = tuple(getattr(cfg, 'inline', ()))
        variant = extra

        @staticmethod
        def outs(c):
            return (None if l_none else c.p('l_out_attrs'), None if r_none else c.p('r_out_attrs'))

        def requires(self, c):
            sp = cfg.specs(c, **extra)
            lo, ro = Split.outs(c)
            r = z3.Int('r!req')
            base = [
                ('attributes-are-columns', z3.And(
                    S.in_list(sp.lcols, sp.lkey), S.in_list(sp.lcols, sp.lattr),
                    S.in_list(sp.rcols, sp.rkey), S.in_list(sp.rcols, sp.rattr),
                    attrs_in(lo, sp.lcols), attrs_in(ro, sp.rcols))),
                ('rows-have-all-columns', z3.And(
                    FA([r], z3.Implies(z3.And(r >= 0, r < ln(sp.lt)), L_len(LV, at(sp.lt, r)) == ln(sp.lcols)), [at(sp.lt, r)]),
                    FA([r], z3.Implies(z3.And(r >= 0, r < ln(sp.rt)), L_len(LV, at(sp.rt, r)) == ln(sp.rcols)), [at(sp.rt, r)]))),
            ]
            return base + cfg.requires(c, sp, lo, ro, **extra)

        def setup(self, c):
            return cfg.setup(c, **extra)

        def ghost(self, c):
            return {'gc': fresh(AII, 'gc'), 'gr': fresh(AII, 'gr'), 'wh': fresh(AIII, 'wh')}

        @staticmethod
        def facts(c, out, done):
            sp = cfg.specs(c, **extra)
            lo, ro = Split.outs(c)
            gc, gr, wh = c.ghost_out('gc', AII), c.ghost_out('gr', AII), c.ghost_out('wh', AIII)
            k, a, b = ints('k a b')
            n, NL, NR = ln(out), ln(sp.lt), ln(sp.rt)
            inr = z3.And(k >= 0, k < n)
            pk = [at(out, k), gc[k], gr[k]]
            fs = [
                ('origin-in-range', FA([k], z3.Implies(inr, z3.And(gc[k] >= 0, gc[k] < NL, gr[k] >= 0, gr[k] < NR,
                                                                done(gc[k], gr[k]))), pk)),
                ('only-qualifying-pairs', FA([k], z3.Implies(inr, sp.may(gc[k], gr[k])), pk)),
                ('at-most-once', FA([k], z3.Implies(inr, wh[gc[k]][gr[k]] == k), pk)),
                ('every-qualifying-pair', FA([a, b], z3.Implies(
                    z3.And(a >= 0, a < NL, b >= 0, b < NR, done(a, b), sp.must(a, b)),
                    z3.And(wh[a][b] >= 0, wh[a][b] < n, gc[wh[a][b]] == a, gr[wh[a][b]] == b)), [wh[a][b]])),
            ]
            variants_sc = [(None, z3.BoolVal(True))]
            if cfg.score_param is not None:
                sc = c[cfg.score_param]
                variants_sc = [(True, sc), (False, z3.Not(sc))]
            for (with_score, guard) in variants_sc:
                g = z3.And(inr, guard)
                for (lab, f) in row_facts(at(out, k), at(sp.lt, gc[k]), at(sp.rt, gr[k]), g, [k], sp.lcols, sp.rcols,
                                          sp.lkey, sp.rkey, lo, ro,
                                          sp.score(gc[k], gr[k]) if with_score else None, [at(out, k)]):
                    suffix = '' if with_score is None else ('-with-score' if with_score else '-no-score')
                    fs.append((lab + suffix, f))
            return fs

        def ensures(self, c, res):
            sp = cfg.specs(c, **extra)
            rows, cols = rec_field(res, 'rows'), rec_field(res, 'cols')
            lo, ro = Split.outs(c)
            fs = Split.facts(c, rows, lambda a, b: z3.BoolVal(True))
            if cfg.score_param is not None:
                sc = c[cfg.score_param]
                pairs = [(True, sc), (False, z3.Not(sc))]
            else:
                sc = z3.BoolVal(False)
                pairs = [(False, z3.BoolVal(True))]
            for (with_score, guard) in pairs:
                for (lab, f) in header_facts(cols, sp.lkey, sp.rkey, lo, ro, sp.lp, sp.rp, False, with_score,
                                             assumed=not c.proving):
                    fs.append((lab + ('-with-score' if with_score else '-no-score'), z3.Implies(guard, f)))
            fs.append(('header-term', cols.t == header_term(sp.lkey, sp.rkey, lo, ro, sp.lp, sp.rp, sc)))
            return fs

    def _record(c, a, b):
        out = c.v('output_rows')
        k = ln(out) - 1
        c.ghost['gc'] = V(AII, z3.Store(c.ghost['gc'].t, k, a))
        c.ghost['gr'] = V(AII, z3.Store(c.ghost['gr'].t, k, b))
        wh = c.ghost['wh'].t
        c.ghost['wh'] = V(AIII, z3.Store(wh, a, z3.Store(z3.Select(wh, a), b, k)))

    hooks = []
    for (nth, who) in cfg.appends():
        def mk(who=who):
            def h(c):
                a, b = who(c)
                _record(c, a, b)
            return h
        hooks.append(Hook(cfg.append_target, mk(), ('gc', 'gr', 'wh'), nth=nth))
    for h in cfg.extra_hooks(**extra):
        hooks.append(h)
    Split.hooks = tuple(hooks)

    loops = {}
    for ordn, done_builder in cfg.loops().items():
        def mk_inv(done_builder=done_builder):
            def inv(c):
                sp = cfg.specs(c, **extra)
                c.extra.extend(f for _, f in cfg.ctx_facts(c, sp, **extra))
                return Split.facts(c, c.v('output_rows'), done_builder(c, sp))
            return inv
        loops[ordn] = LoopSpec(mk_inv())
    Split.loops = loops
    return Split()


# done-predicates shared by all split functions ------------------------------------------------
def done_rows(c, sp):
    """outer loop over right rows: pairs with b < i are processed"""
    i = c.i
    return lambda a, b: b < i


def done_list(listvar):
    """inner loop over a list of left row ids (e.g. l_empty_records)"""
    def build(c, sp):
        ri = c.outer[-1]
        lst = c.v(listvar)
        j = c.i
        p = z3.Int('p!dl')
        return lambda a, b: z3.Or(b < ri, z3.And(b == ri, z3.Exists([p], z3.And(p >= 0, p < j, at(lst, p) == a))))
    return build


def done_keys(c, sp):
    """inner loop over a dict / set in arbitrary order: keys at positions < j are processed"""
    ri = c.outer[-1]
    pos = c.seq.pos
    src = c.seq.src
    j = c.i
    if isinstance(src.ty, DictT):
        has = lambda a: D_has(src.ty, src.t, a)
    else:
        has = lambda a: z3.Select(src.t, a)
    return lambda a, b: z3.Or(b < ri, z3.And(b == ri, has(a), pos(a) < j))
