"""Contracts for index/position_index.py and filter/position_filter.py."""
import z3
from .common import *  # noqa
from .externals import TOKENIZER
from .token_ordering import ORD, ord_injective, all_ranked, table_ok
from . import validation as VAL_C
from pyvc import natives as N

QI = 'py_stringsimjoin.index.position_index.PositionIndex.'
QF = 'py_stringsimjoin.filter.position_filter.PositionFilter.'
SETM = S.SET_MEASURES
ENTRY = TupleT(INT, INT)
INDEX = DictT(INT, ListT(ENTRY))
CAND = DictT(INT, INT)


def same_value(a, b):
    """formula: the two executor values are the same Python value"""
    if isinstance(a.ty, ObjT) or isinstance(b.ty, ObjT):
        return z3.BoolVal(isinstance(a.ty, ObjT) and isinstance(b.ty, ObjT) and a.t == b.t)
    if isinstance(a.ty, StrConstT) or isinstance(b.ty, StrConstT):
        return z3.BoolVal(isinstance(a.ty, StrConstT) and isinstance(b.ty, StrConstT) and a.t == b.t)
    if isinstance(a.ty, NoneT) or isinstance(b.ty, NoneT):
        return z3.BoolVal(isinstance(a.ty, NoneT) and isinstance(b.ty, NoneT))
    if a.ty != b.ty:
        return z3.BoolVal(False)
    return a.t == b.t


class Ctor(Case):
    """constructor contract: fields(c) gives the object's fields after __init__"""
    returns = NONE

    def fields(self, c):
        raise NotImplementedError

    def ensures(self, c, res):
        want = self.fields(c)
        have = c.heap[c.p('self').t]
        out = []
        for k, v in want.items():
            out.append(('field-' + k, same_value(have[k], v) if k in have else z3.BoolVal(False)))
        out.append(('no-other-fields', z3.BoolVal(set(have.keys()) == set(want.keys()))))
        return out


# ============================================================================ PositionIndex
def _index_init(M, thr_ty):
    class Init(Ctor):
        name = '%s-%s' % (M, 'float' if thr_ty == FLOAT else 'int')
        params = OD([('self', ObjSpec('PositionIndex')), ('table', ROWS), ('index_attr', INT),
                     ('tokenizer', TOKENIZER), ('sim_measure_type', vstr(M)), ('threshold', thr_ty),
                     ('token_ordering', ORD)])

        def fields(self, c):
            return OD([('table', c.p('table')), ('index_attr', c.p('index_attr')), ('tokenizer', c.p('tokenizer')),
                       ('sim_measure_type', c.p('sim_measure_type')), ('threshold', c.p('threshold')),
                       ('token_ordering', c.p('token_ordering')), ('index', vnone()), ('size_cache', vnone()),
                       ('min_length', vint(2 ** 63 - 1)), ('max_length', vint(0))])
    return Init()


register(QI + '__init__', [_index_init(M, FLOAT) for M in SETM] + [_index_init('OVERLAP', INT),
                                                                   _index_init('EDIT_DISTANCE', INT)],
         props=('C01', 'C02', 'C04', 'C09'))


def index_obj(M, thr_ty, built=True):
    return ObjSpec('PositionIndex', table=ROWS, index_attr=INT, tokenizer=TOKENIZER,
                   sim_measure_type=vstr(M), threshold=thr_ty, token_ordering=ORD,
                   index=INDEX if built else ANY, size_cache=LI if built else ANY,
                   min_length=INT, max_length=INT)


def X_of(c, idx, row):
    """rank list of left row `row` of the indexed table"""
    tbl = c.field(idx, 'table')
    rs = c.f(c.field(idx, 'tokenizer'), 'return_set')
    cell = L_get(LV, at(tbl, row), c.f(idx, 'index_attr'))
    return S.ranks(c.f(idx, 'token_ordering'), S.toks(rs, cell))


# `built(...)`: the index structure is the one build() produces for (table, attr, tokenizer mode,
# measure, threshold, ordering).  Uninterpreted while find_candidates is a bounded contract.
built = z3.Function('position_index_built', sort_of(INDEX), sort_of(LI), I, I, sort_of(ROWS), I, B,
                    z3.RealSort(), sort_of(ORD), B)


def built_pred(c, idx):
    return built(c.f(idx, 'index'), c.f(idx, 'size_cache'), c.f(idx, 'min_length'), c.f(idx, 'max_length'),
                 c.f(idx, 'table'), c.f(idx, 'index_attr'), c.f(c.field(idx, 'tokenizer'), 'return_set'),
                 R_(c.f(idx, 'threshold')), c.f(idx, 'token_ordering'))


def _index_build(M, thr_ty):
    class Build(Case):
        name = '%s-%s' % (M, 'float' if thr_ty == FLOAT else 'int')
        status = 'bounded'
        params = OD([('self', index_obj(M, thr_ty, built=False)), ('cache_empty_records', BOOL),
                     ('cache_tokens', BOOL)])
        defaults = {'cache_empty_records': vbool(True), 'cache_tokens': vbool(False)}
        modifies = (('self.index', INDEX), ('self.size_cache', LI), 'self.min_length', 'self.max_length')

        def requires(self, c):
            idx = c.p('self')
            return [('cells-present', table_ok(c.field(idx, 'table'), c.f(idx, 'index_attr')))]

        def returns(self, ex, st, c):
            from pyvc.executor import PyDict
            ct, er = fresh(ListT(LI), 'cached_tokens'), fresh(LI, 'empty_records')
            for f in wf(ct) + wf(er):
                st.assume(f)
            return PyDict({'cached_tokens': ct, 'empty_records': er})

        def ensures(self, c, res):
            idx = c.p('self')
            tbl = c.field(idx, 'table')
            NL = ln(tbl)
            ct, er = res.d['cached_tokens'], res.d['empty_records']
            r, p, p2 = ints('r!b p!b p2!b')
            X = lambda q: X_of(c, idx, q)
            sc = c.field(idx, 'size_cache')
            dst = z3.Function(fresh_name('er_dst'), I, I)
            return [
                ('built', built_pred(c, idx)),
                ('size-cache', z3.And(ln(sc) == NL, FA([r], z3.Implies(z3.And(r >= 0, r < NL),
                                                                    at(sc, r) == L_len(LI, X(r))), [at(sc, r)]))),
                ('min-max', FA([r], z3.Implies(z3.And(r >= 0, r < NL), z3.And(
                    c.f(idx, 'min_length') <= L_len(LI, X(r)), L_len(LI, X(r)) <= c.f(idx, 'max_length'))),
                    [X(r)])),
                ('cached-tokens', z3.If(c['cache_tokens'], z3.And(ln(ct) == NL, FA([r], z3.Implies(
                    z3.And(r >= 0, r < NL), at(ct, r) == X(r)), [at(ct, r)])), ln(ct) == 0)),
                ('empty-records-sound', FA([p], z3.Implies(z3.And(p >= 0, p < ln(er)), z3.And(
                    c['cache_empty_records'], at(er, p) >= 0, at(er, p) < NL, L_len(LI, X(at(er, p))) == 0,
                    dst(at(er, p)) == p)), [at(er, p)])),
                ('empty-records-complete', FA([r], z3.Implies(z3.And(
                    c['cache_empty_records'], r >= 0, r < NL, L_len(LI, X(r)) == 0),
                    z3.And(dst(r) >= 0, dst(r) < ln(er), at(er, dst(r)) == r)), [dst(r), X(r)])),
            ]
    return Build()


register(QI + 'build', [_index_build(M, FLOAT) for M in SETM] + [_index_build('OVERLAP', INT),
                                                                 _index_build('EDIT_DISTANCE', INT)],
         props=('C01', 'C02', 'C04', 'C09'))


# ============================================================================ PositionFilter
def _filter_init(Mgiven, thr_ty):
    M = Mgiven.upper()

    class Init(Ctor):
        name = '%s-%s' % (Mgiven, 'float' if thr_ty == FLOAT else 'int')
        params = OD([('self', ObjSpec('PositionFilter')), ('tokenizer', TOKENIZER),
                     ('sim_measure_type', vstr(Mgiven)), ('threshold', thr_ty), ('allow_empty', BOOL),
                     ('allow_missing', BOOL)])
        defaults = {'allow_empty': vbool(True), 'allow_missing': vbool(False)}

        def raises(self, c):
            conds = {'AssertionError': z3.Not(VAL_C.threshold_valid(M, c['threshold']))}
            if M == 'EDIT_DISTANCE':
                conds['AssertionError'] = z3.Or(z3.Not(c.f(c.p('tokenizer'), 'is_qgram')), conds['AssertionError'])
            return conds

        def fields(self, c):
            return OD([('tokenizer', c.p('tokenizer')), ('sim_measure_type', vstr(M)),
                       ('threshold', c.p('threshold')), ('allow_empty', c.p('allow_empty')),
                       ('allow_missing', c.p('allow_missing'))])
    return Init()


def filter_init_cases(mk):
    cases = []
    for M in SETM + ('jaccard',):
        cases.append(mk(M, FLOAT))
    for M in ('OVERLAP', 'EDIT_DISTANCE'):
        cases += [mk(M, INT), mk(M, FLOAT)]
    # measure names are case-insensitive at the constructors (documented): the same contract for other spellings
    for M in ('edit_distance', 'Edit_Distance', 'overlap', 'Overlap'):
        cases.append(mk(M, INT))
    return cases


register(QF + '__init__', filter_init_cases(_filter_init), props=('C15', 'C01'))


def filter_obj(M, thr_ty, cls='PositionFilter'):
    return ObjSpec(cls, tokenizer=TOKENIZER, sim_measure_type=vstr(M), threshold=thr_ty,
                   allow_empty=BOOL, allow_missing=BOOL)


def size_premise(M, t, n, m, o):
    """the premise under which the position filter must keep a candidate: it lies in the size
    window of the probe, its overlap reaches the required overlap and both prefix conditions"""
    return z3.And(o >= 1, S.lbnd[M](m, t) <= n, n <= S.ubnd[M](m, t),
                  n - S.plen[M](n, t) + 1 <= o, m - S.plen[M](m, t) + 1 <= o, S.othr[M](n, m, t) <= o)


def strictly_increasing(lst):
    i, j = ints('i!si j!si')
    return FA([i, j], z3.Implies(z3.And(i >= 0, i < j, j < ln(lst)), at(lst, i) < at(lst, j)),
              [z3.MultiPattern(at(lst, i), at(lst, j))])


def _find_candidates(M):
    class FindCandidates(Case):
        name = M
        status = 'bounded'
        params = OD([('self', filter_obj(M, FLOAT)), ('probe_tokens', LI), ('position_index', index_obj(M, FLOAT))])
        returns = CAND

        def requires(self, c):
            f, idx = c.p('self'), c.p('position_index')
            return [('index-built', built_pred(c, idx)),
                    ('same-threshold', c.f(f, 'threshold') == c.f(idx, 'threshold')),
                    ('probe-sorted-set', strictly_increasing(c.p('probe_tokens')))]

        def ensures(self, c, res):
            f, idx = c.p('self'), c.p('position_index')
            Y = c.p('probe_tokens')
            t = c.f(f, 'threshold')
            NL = ln(c.field(idx, 'table'))
            r = z3.Int('r!fc')
            X = lambda q: X_of(c, idx, q)
            n = lambda q: L_len(LI, X(q))
            o = lambda q: S.isectI(X(q), Y.t)
            m = ln(Y)
            has = lambda q: D_has(CAND, res.t, q)
            val = lambda q: D_get(CAND, res.t, q)
            return [
                ('complete', FA([r], z3.Implies(z3.And(r >= 0, r < NL, size_premise(M, t, n(r), m, o(r))),
                                                z3.And(has(r), val(r) > 0)), [X(r)])),
                ('sound', FA([r], z3.Implies(has(r), z3.And(r >= 0, r < NL, z3.Implies(val(r) > 0, z3.And(
                    o(r) >= 1, S.lbnd[M](m, t) <= n(r), n(r) <= S.ubnd[M](m, t))))), [has(r)])),
            ]
    return FindCandidates()


register(QF + 'find_candidates', [_find_candidates(M) for M in SETM], props=('C01', 'C04', 'C14'))
