"""Generic contract builder for the table-level entry points that share the driver shape
(validate -> project/dropna -> serial call or Parallel over split_table -> missing pairs -> _id):
the filters' filter_tables, overlap_coefficient_join_py, edit_distance_join_py.
(join_drivers.py, written first for jaccard/cosine/dice, has the same contract.)

Exceptional contract: AssertionError iff a documented precondition fails, raised before any
write.  Normal exit: frame (no input written, tokenizer flag restored), documented header,
_id = 0..n-1, and on the serial path the rows of the split function over the projected
non-missing arrays followed by the missing-value pairs (iff allow_missing)."""
import z3
from .common import *  # noqa
from .rowspec import header_facts, attrs_in, out_header_theorem
from . import validation as VC
from pyvc.pandas_model import DF, val_of_int, col_index

GH = 'py_stringsimjoin.utils.generic_helper.'
MVHQ = 'py_stringsimjoin.utils.missing_value_handler.get_pairs_with_missing_value'


class DriverCfg(object):
    qualname = None
    core_target = None          # source text of the serial call, e.g. '_filter_tables_split'
    core_qual = None            # qualified name of the split function
    attr_params = ('l_filter_attr', 'r_filter_attr')
    props = ()

    def params(self, l_none, r_none, **kw):
        raise NotImplementedError

    def preconditions(self, c, lo, ro, **kw):
        """documented preconditions checked by the entry point itself"""
        lt, rt = c.p('ltable'), c.p('rtable')
        lcols, rcols = rec_field(lt, 'cols'), rec_field(rt, 'cols')
        la, ra = c[self.attr_params[0]], c[self.attr_params[1]]
        ldt = L_get(LV, R_get(DF, lt.t, 'dtypes'), col_index(lcols.t, la))
        rdt = L_get(LV, R_get(DF, rt.t, 'dtypes'), col_index(rcols.t, ra))
        return z3.And(
            S.in_list(lcols, c['l_key_attr']), S.in_list(rcols, c['r_key_attr']),
            S.in_list(lcols, la), S.in_list(rcols, ra),
            VC.string_typed(ldt), VC.string_typed(rdt),
            attrs_in(lo, lcols) if lo is not None else z3.BoolVal(True),
            attrs_in(ro, rcols) if ro is not None else z3.BoolVal(True),
            VC.key_ok(lt, c['l_key_attr']), VC.key_ok(rt, c['r_key_attr']),
            self.more_preconditions(c, **kw))

    def more_preconditions(self, c, **kw):
        return z3.BoolVal(True)

    def allow_missing(self, c):
        return c['allow_missing']

    def score(self, c):
        """z3 Bool: a _sim_score column is produced"""
        return c['out_sim_score']

    def extra_requires(self, c, **kw):
        return []

    def extra_setup(self, c, **kw):
        return []


def no_id_collision(c, lo, ro, sc):
    """no output column is named '_id' (stated on the header term itself)"""
    from .rowspec import header_term
    lkey, rkey = c['l_key_attr'], c['r_key_attr']
    dl = None if lo is None else V(LV, S.dedup(lo.t, lkey))
    dr = None if ro is None else V(LV, S.dedup(ro.t, rkey))
    h = header_term(lkey, rkey, dl, dr, c['l_out_prefix'], c['r_out_prefix'], sc)
    return z3.Not(L_has(LV, h, strconst('_id')))


def make_driver_case(cfg, vname, l_none, r_none, extra):
    class Driver(Case):
        name = vname
        params = cfg.params(l_none, r_none, **extra)
        returns = DF
        inline = (GH + 'convert_dataframe_to_array',)
        callee_views = {cfg.core_qual: ('header-term',), MVHQ: ('header-term',)}

        @staticmethod
        def outs(c):
            return (None if l_none else c.p('l_out_attrs'), None if r_none else c.p('r_out_attrs'))

        def requires(self, c):
            lt, rt = c.p('ltable'), c.p('rtable')
            s_ = z3.Const('s!dom', ValSort)
            rs = z3.Bool('rs!dom')
            lo, ro = self.outs(c)
            return [('table-size-domain', z3.And(ln(rec_field(lt, 'rows')) <= S.MAXTOK,
                                                 ln(rec_field(rt, 'rows')) <= S.MAXTOK)),
                    ('token-count-domain', FA([rs, s_], L_len(LV, S.toks(rs, s_)) <= S.MAXTOK, [S.toks(rs, s_)])),
                    # extra precondition recorded as known finding D10 (not a documented precondition)
                    ('output-names-do-not-collide-with-_id', no_id_collision(c, lo, ro, cfg.score(c)))] + \
                cfg.extra_requires(c, **extra)

        def raises(self, c):
            lo, ro = self.outs(c)
            return {'AssertionError': z3.Not(cfg.preconditions(c, lo, ro, **extra))}

        def setup(self, c):
            from .generic_helper import RemoveRedundant, AIT, AVI
            lo, ro = self.outs(c)
            lkey, rkey = c['l_key_attr'], c['r_key_attr']
            fs = []
            dl = dr = None
            if lo is not None:
                dl = V(LV, S.dedup(lo.t, lkey))
                fs += [f for _, f in RemoveRedundant.facts(lo, lkey, dl, fresh(AIT, 'th_src').t, fresh(AVI, 'th_wh').t, ln(lo))]
            if ro is not None:
                dr = V(LV, S.dedup(ro.t, rkey))
                fs += [f for _, f in RemoveRedundant.facts(ro, rkey, dr, fresh(AIT, 'th_src').t, fresh(AVI, 'th_wh').t, ln(ro))]
            fs += out_header_theorem(lkey, rkey, dl, dr, c['l_out_prefix'], c['r_out_prefix'])
            return fs + cfg.extra_setup(c, **extra)

        def ghost(self, c):
            e = lambda: fresh(ROWS, 'norows')
            return {'serial': vbool(False), 'core_rows': e(), 'miss_rows': e()}

        def _after_core(c):
            c.ghost['serial'] = vbool(True)
            c.ghost['core_rows'] = rec_field(c.last_call['result'], 'rows')

        def _after_missing(c):
            c.ghost['miss_rows'] = rec_field(c.last_call['result'], 'rows')

        hooks = (Hook(cfg.core_target, _after_core, ('serial', 'core_rows'), nth=0),
                 Hook('get_pairs_with_missing_value', _after_missing, ('miss_rows',)))

        def ensures(self, c, res):
            lo, ro = self.outs(c)
            lkey, rkey = c['l_key_attr'], c['r_key_attr']
            dl = None if l_none else V(LV, S.dedup(lo.t, lkey))
            dr = None if r_none else V(LV, S.dedup(ro.t, rkey))
            rows, cols = rec_field(res, 'rows'), rec_field(res, 'cols')
            k, q = ints('k q')
            n = ln(rows)
            sc = cfg.score(c)
            fs = []
            for with_score in (True, False):
                for (lab, f) in header_facts(cols, lkey, rkey, dl, dr, c['l_out_prefix'], c['r_out_prefix'],
                                             True, with_score):
                    fs.append((lab + ('-with-score' if with_score else '-no-score'),
                               z3.Implies(sc if with_score else z3.Not(sc), f)))
            fs.append(('_id-is-0..n-1', FA([k], z3.Implies(z3.And(k >= 0, k < n),
                                                           L_get(LV, at(rows, k), ival(0)) == val_of_int(k)),
                                           [at(rows, k)])))
            serial = c.ghost_out('serial', BOOL)
            core, miss = V(ROWS, c.ghost_out('core_rows', ROWS)), V(ROWS, c.ghost_out('miss_rows', ROWS))
            am = cfg.allow_missing(c)
            n1 = ln(core)
            n2 = z3.If(am, ln(miss), 0)
            fs.append(('serial-row-count', z3.Implies(serial, n == n1 + n2)))
            fs.append(('serial-core-rows', z3.Implies(serial, FA([k, q], z3.Implies(
                z3.And(k >= 0, k < n1, q >= 0, q < L_len(LV, at(core, k))),
                L_get(LV, at(rows, k), q + 1) == L_get(LV, at(core, k), q)), [L_get(LV, at(core, k), q)]))))
            fs.append(('serial-missing-rows', z3.Implies(z3.And(serial, am), FA([k, q], z3.Implies(
                z3.And(k >= 0, k < ln(miss), q >= 0, q < L_len(LV, at(miss, k))),
                L_get(LV, at(rows, n1 + k), q + 1) == L_get(LV, at(miss, k), q)), [L_get(LV, at(miss, k), q)]))))
            return fs
    return Driver()


def make_bad_table_case(cfg, which, extra):
    params = cfg.params(True, True, **extra)
    params[which] = VAL

    class BadTable(Case):
        name = '%s-not-a-DataFrame' % which
        returns = DF

        def raises(self, c):
            return {'TypeError': z3.BoolVal(True)}
    BadTable.params = params
    return BadTable()


def driver_cases(cfg, variants, bad_extra=None):
    cases = [make_driver_case(cfg, vn, a, b, ex) for (vn, a, b, ex) in variants]
    if bad_extra is not None:
        cases += [make_bad_table_case(cfg, 'ltable', bad_extra), make_bad_table_case(cfg, 'rtable', bad_extra)]
    return cases
