"""Contracts for PositionFilter._filter_tables_split / filter_tables (C04, C09, C14; set measures).

Proved given the contracts of its callees (PositionFilter.find_candidates is a BOUNDED stand-in):
the output lists every pair whose similarity meets the threshold (raw and rounded) and every
admitted empty pair (C04, C09), each pair at most once, and only pairs that have a token in
common and whose left size lies in the size window of the right size (C14: a subset of what
SizeFilter keeps), or admitted empty pairs."""
import z3
from .common import *  # noqa
from .externals import TOKENIZER
from .splits import SplitCfg, make_split_cases, done_rows, done_keys, done_list
from .rowspec import cidx
from .token_ordering import ORD, inj_image, ranks_facts
from .position import filter_obj as pos_filter_obj, CAND
from .theorems import arithmetic_axioms, required_sym, range_axioms
from pyvc import natives as N

QS = 'py_stringsimjoin.filter.position_filter._filter_tables_split'
QF = 'py_stringsimjoin.filter.position_filter.PositionFilter.'
SETM = S.SET_MEASURES


class PositionSplitCfg(SplitCfg):
    qualname = QS
    score_param = None
    props = ('C04', 'C09', 'C11', 'C14')

    def params(self, l_none, r_none, M='JACCARD'):
        return OD([('ltable', ROWS), ('rtable', ROWS), ('l_columns', LV), ('r_columns', LV),
                   ('l_key_attr', VAL), ('r_key_attr', VAL), ('l_filter_attr', VAL), ('r_filter_attr', VAL),
                   ('position_filter', pos_filter_obj(M, FLOAT)),
                   ('l_out_attrs', NONE if l_none else LV), ('r_out_attrs', NONE if r_none else LV),
                   ('l_out_prefix', VAL), ('r_out_prefix', VAL), ('show_progress', BOOL)])

    def specs(self, c, M='JACCARD'):
        class Sp(object):
            pass
        sp = Sp()
        f = c.p('position_filter')
        sp.lt, sp.rt, sp.lcols, sp.rcols = c.p('ltable'), c.p('rtable'), c.p('l_columns'), c.p('r_columns')
        sp.lkey, sp.rkey, sp.lattr, sp.rattr = c['l_key_attr'], c['r_key_attr'], c['l_filter_attr'], c['r_filter_attr']
        sp.lp, sp.rp = c['l_out_prefix'], c['r_out_prefix']
        rs = c.f(c.field(f, 'tokenizer'), 'return_set')
        t = c.f(f, 'threshold')
        lj, rj = cidx(sp.lcols, sp.lattr), cidx(sp.rcols, sp.rattr)
        sp.Tl = lambda a: S.toks(rs, L_get(LV, at(sp.lt, a), lj))
        sp.Tr = lambda b: S.toks(rs, L_get(LV, at(sp.rt, b), rj))
        sp.n = lambda a: L_len(LV, sp.Tl(a))
        sp.m = lambda b: L_len(LV, sp.Tr(b))
        sp.o = lambda a, b: S.isectV(sp.Tl(a), sp.Tr(b))
        he = c.f(f, 'allow_empty')
        both_empty = lambda a, b: z3.And(sp.n(a) == 0, sp.m(b) == 0)
        sp.req = lambda a, b: required_sym(M, sp.o(a, b), sp.n(a), sp.m(b), t)
        sp.must = lambda a, b: z3.Or(z3.And(he, both_empty(a, b)), sp.req(a, b))
        window = lambda a, b: z3.And(S.lbnd[M](sp.m(b), t) <= sp.n(a), sp.n(a) <= S.ubnd[M](sp.m(b), t))
        sp.may = lambda a, b: z3.Or(z3.And(he, both_empty(a, b)),
                                    z3.And(z3.Not(z3.And(he, sp.m(b) == 0)), sp.o(a, b) >= 1, window(a, b)))
        sp.score = lambda a, b: None
        sp.lj, sp.rj, sp.rs, sp.t, sp.he, sp.both_empty, sp.window = lj, rj, rs, t, he, both_empty, window
        return sp

    def requires(self, c, sp, lo, ro, M='JACCARD'):
        r = z3.Int('r!qreq')
        return [('threshold-valid', z3.And(sp.t > 0, sp.t <= 1)), ('set-mode', sp.rs),
                ('threshold-not-extreme', sp.t >= rv(Fraction(1, 2 ** 400))),       # known finding D8
                ('token-count-domain', S.toks_bounded()),
                ('filter-values-present', z3.And(
                    FA([r], z3.Implies(z3.And(r >= 0, r < ln(sp.lt)),
                                       z3.Not(N.val_isnull(L_get(LV, at(sp.lt, r), sp.lj)))), [at(sp.lt, r)]),
                    FA([r], z3.Implies(z3.And(r >= 0, r < ln(sp.rt)),
                                       z3.Not(N.val_isnull(L_get(LV, at(sp.rt, r), sp.rj)))), [at(sp.rt, r)])))]

    def setup(self, c, M='JACCARD'):
        f = c.p('position_filter')
        return S.toks_axioms() + arithmetic_axioms(M, c.f(f, 'threshold')) + [S.simval_zero(M)]

    def appends(self):
        return [(0, lambda c: (c.t('l_id'), c.loop_idx[-2])), (1, lambda c: (c.t('cand'), c.loop_idx[-2]))]

    def loops(self):
        return {'0': done_rows, '0.0': done_list('l_empty_records'), '0.1': done_keys}

    def ctx_facts(self, c, sp, M='JACCARD'):
        fs = []
        a, b = ints('a!qi b!qi')
        inl = z3.And(a >= 0, a < ln(sp.lt))
        inr = z3.And(b >= 0, b < ln(sp.rt))
        fs.append(('tokenizer-facts-left', FA([a], z3.Implies(inl, z3.And(*S.toks_facts(sp.rs, L_get(LV, at(sp.lt, a), sp.lj)))),
                                              [sp.Tl(a)])))
        fs.append(('tokenizer-facts-right', FA([b], z3.Implies(inr, z3.And(*S.toks_facts(sp.rs, L_get(LV, at(sp.rt, b), sp.rj)))),
                                               [sp.Tr(b)])))
        fs.append(('intersection-size-facts', FA([a, b], z3.Implies(z3.And(inl, inr), z3.And(
            *S.isect_facts(VAL, V(LV, sp.Tl(a)), V(LV, sp.Tr(b))))), [z3.MultiPattern(sp.Tl(a), sp.Tr(b))])))
        if c.has('token_ordering'):
            o = c.t('token_ordering')
            fs.append(('ranks-facts-left', FA([a], z3.Implies(inl, z3.And(*ranks_facts(o, V(LV, sp.Tl(a))))), [sp.Tl(a)])))
            fs.append(('ranks-facts-right', FA([b], z3.Implies(inr, z3.And(*ranks_facts(o, V(LV, sp.Tr(b))))), [sp.Tr(b)])))
            fs.append(('lemma-inj-image', FA([a, b], z3.Implies(
                z3.And(inl, inr), inj_image(o, V(LV, sp.Tl(a)), V(LV, sp.Tr(b)))),
                [z3.MultiPattern(sp.Tl(a), sp.Tr(b))])))
        return fs

    def extra_hooks(self, M='JACCARD'):
        def after_fc(c):
            sp = self.specs(c, M=M)
            ri = c.loop_idx[-1]
            o_ = c.t('token_ordering')
            Y = c.v('r_ordered_tokens')
            co = c.call_result
            a = z3.Int('a!qfc')
            inl = z3.And(a >= 0, a < ln(sp.lt))
            X = lambda q: S.ranks(o_, sp.Tl(q))
            c.extra.extend(f for _, f in self.ctx_facts(c, sp, M=M))
            c.asserts.append(('probe-size', ln(Y) == sp.m(ri)))
            c.asserts.append(('ranks-preserve-sizes', FA([a], z3.Implies(inl, z3.And(
                L_len(LI, X(a)) == sp.n(a), S.isectI(X(a), Y.t) == sp.o(a, ri))), [sp.Tl(a)])))
            c.asserts.append(('required-pairs-are-candidates', FA([a], z3.Implies(
                z3.And(inl, sp.req(a, ri)), z3.And(D_has(co.ty, co.t, a), D_get(co.ty, co.t, a) > 0)), [sp.Tl(a)])))
            c.asserts.append(('candidates-share-a-token-and-fit-the-size-window', FA([a], z3.Implies(
                z3.And(D_has(co.ty, co.t, a), D_get(co.ty, co.t, a) > 0),
                z3.And(inl, sp.o(a, ri) >= 1, sp.window(a, ri))), [D_has(co.ty, co.t, a)])))
        return (Hook('position_filter.find_candidates', after_fc, ()),)


_qcfg = PositionSplitCfg()
register(_qcfg.qualname,
         make_split_cases(_qcfg, [('%s-%s-%s' % (M, 'None' if a else 'list', 'None' if b else 'list'), a, b, dict(M=M))
                                  for (M, a, b) in [('JACCARD', True, True), ('JACCARD', False, False), ('COSINE', True, True),
                                                    ('DICE', True, True)]]),
         props=_qcfg.props)


# ============================================================================ PositionFilter.filter_tables
from .drivers import DriverCfg, driver_cases  # noqa
from pyvc.pandas_model import DF  # noqa


class PositionTablesCfg(DriverCfg):
    qualname = QF + 'filter_tables'
    core_target = '_filter_tables_split'
    core_qual = QS
    props = ('C04', 'C08', 'C09', 'C10', 'C11', 'C14', 'C15')

    def params(self, l_none, r_none, M='JACCARD'):
        return OD([('self', pos_filter_obj(M, FLOAT)), ('ltable', DF), ('rtable', DF), ('l_key_attr', VAL), ('r_key_attr', VAL),
                   ('l_filter_attr', VAL), ('r_filter_attr', VAL),
                   ('l_out_attrs', NONE if l_none else LV), ('r_out_attrs', NONE if r_none else LV),
                   ('l_out_prefix', VAL), ('r_out_prefix', VAL), ('n_jobs', INT), ('show_progress', BOOL)])

    def allow_missing(self, c):
        return c.f(c.p('self'), 'allow_missing')

    def score(self, c):
        return z3.BoolVal(False)

    def extra_requires(self, c, M='JACCARD'):
        f = c.p('self')
        t = c.f(f, 'threshold')
        return [('object-invariant-threshold-valid', z3.And(t > 0, t <= 1)),
                ('threshold-not-extreme', t >= rv(Fraction(1, 2 ** 400))),           # known finding D8
                ('set-mode', c.f(c.field(f, 'tokenizer'), 'return_set'))]


_qtc = PositionTablesCfg()
register(_qtc.qualname,
         driver_cases(_qtc, [('%s-%s-%s' % (M, 'None' if a else 'list', 'None' if b else 'list'), a, b, dict(M=M))
                             for (M, a, b) in [('JACCARD', True, True), ('JACCARD', False, False), ('COSINE', True, True),
                                               ('DICE', True, True)]], bad_extra=dict(M='JACCARD')),
         props=_qtc.props)
