"""Contracts for index/prefix_index.py and filter/prefix_filter.py (C03, C04, C14): proved, exact.

PrefixIndex.build: index[w] lists exactly the rows that have rank w among the first
prefix_length(row) ranks of their ordered token list (ghost witnesses: wj gives the position
for every entry, pos gives an entry for every (row, prefix position)).
PrefixFilter.find_candidates: the candidate set is exactly the set of rows whose indexed prefix
shares a rank with the probe's prefix (C14: no candidate without a common token)."""
import z3
from .common import *  # noqa
from .externals import TOKENIZER
from .token_ordering import ORD, table_ok
from .position import Ctor, filter_init_cases
from . import validation as VC
from pyvc import natives as N
from pyvc import fp as FP

QI = 'py_stringsimjoin.index.prefix_index.PrefixIndex.'
QF = 'py_stringsimjoin.filter.prefix_filter.PrefixFilter.'
SETM = S.SET_MEASURES
INDEX = DictT(INT, LI)
CANDS = SetT(INT)
POS = ArrT(INT, ArrT(INT, INT))      # rank -> row -> an entry position holding that row
WJ = ArrT(INT, ArrT(INT, INT))       # rank -> entry position -> position of the rank in the row's prefix
MEASURES = SETM + ('EDIT_DISTANCE',)


def thr_ty_of(M):
    return FLOAT if M in SETM else INT


def plen_of(M, x, t, q):
    """value of get_prefix_length(x, M, t, tokenizer) (postconditions 'defn' / 'value' of its contract)"""
    if M in SETM:
        return S.plen[M](x, t)
    qt = FP.int_mul(q, t)
    return z3.If(x == 0, 0, z3.If(qt + 1 <= x, qt + 1, x))


def imul_facts(M, q, t):
    """q * t as the uninterpreted integer product of the encoding: linked to the real product and
    non-negative for non-negative factors (instance of the proved lemma mul_nonneg)"""
    if M in SETM:
        return []
    from pyvc.lemmas import inst
    qt = FP.int_mul(q, t)
    if not z3.is_app_of(qt, z3.Z3_OP_UNINTERPRETED):
        return []
    return [z3.ToReal(qt) == FP.exact_mul(z3.ToReal(q), z3.ToReal(t)), inst('mul_nonneg', z3.ToReal(q), z3.ToReal(t))]


def thr_ok(M, t, q):
    if M in SETM:
        return z3.And(t > 0, t <= 1)
    return z3.And(t >= 0, q >= 1)


# ============================================================================ PrefixIndex
def _index_init(M):
    class Init(Ctor):
        name = M
        params = OD([('self', ObjSpec('PrefixIndex')), ('table', ROWS), ('index_attr', INT),
                     ('tokenizer', TOKENIZER), ('sim_measure_type', vstr(M)), ('threshold', thr_ty_of(M)),
                     ('token_ordering', ORD)])

        def fields(self, c):
            return OD([('table', c.p('table')), ('index_attr', c.p('index_attr')), ('tokenizer', c.p('tokenizer')),
                       ('sim_measure_type', c.p('sim_measure_type')), ('threshold', c.p('threshold')),
                       ('token_ordering', c.p('token_ordering')), ('index', vnone())])
    return Init()


register(QI + '__init__', [_index_init(M) for M in MEASURES], props=('C03', 'C04', 'C14'))


def index_obj(M, built=True):
    return ObjSpec('PrefixIndex', table=ROWS, index_attr=INT, tokenizer=TOKENIZER, sim_measure_type=vstr(M),
                   threshold=thr_ty_of(M), token_ordering=ORD, index=INDEX if built else ANY)


def X_of(c, idx, row):
    """rank list of row `row` of the indexed table"""
    tbl = c.field(idx, 'table')
    rs = c.f(c.field(idx, 'tokenizer'), 'return_set')
    cell = L_get(LV, at(tbl, row), c.f(idx, 'index_attr'))
    return S.ranks(c.f(idx, 'token_ordering'), S.toks(rs, cell))


def pl_of(c, M, idx, row):
    """number of indexed prefix positions of row `row`: min(prefix_length, number of ranks)"""
    n = L_len(LI, X_of(c, idx, row))
    p = plen_of(M, n, c.f(idx, 'threshold'), c.f(c.field(idx, 'tokenizer'), 'qval'))
    return z3.If(p <= n, z3.If(p >= 0, p, 0), n)


def wf_prefix(c, M, idx, index_t, pos, wj, rows_done, cur=None, tok_done=None):
    w, k, r, j = ints('w!pf k!pf r!pf j!pf')
    has = lambda x: D_has(INDEX, index_t, x)
    ent = lambda x: D_get(INDEX, index_t, x)
    e = lambda x, q: L_get(LI, ent(x), q)
    X = lambda q: X_of(c, idx, q)
    pl = lambda q: pl_of(c, M, idx, q)
    if cur is None:
        rng = e(w, k) < rows_done
    else:
        rng = z3.Or(e(w, k) < rows_done, z3.And(e(w, k) == cur, wj[w][k] < tok_done))
    fs = [
        ('entries-sound', FA([w, k], z3.Implies(z3.And(has(w), k >= 0, k < L_len(LI, ent(w))), z3.And(
            e(w, k) >= 0, rng, wj[w][k] >= 0, wj[w][k] < pl(e(w, k)), L_get(LI, X(e(w, k)), wj[w][k]) == w)),
            [e(w, k)])),
        ('entries-complete', FA([r, j], z3.Implies(
            z3.And(r >= 0, r < rows_done, j >= 0, j < pl(r)),
            z3.And(has(L_get(LI, X(r), j)), pos[L_get(LI, X(r), j)][r] >= 0,
                   pos[L_get(LI, X(r), j)][r] < L_len(LI, ent(L_get(LI, X(r), j))),
                   e(L_get(LI, X(r), j), pos[L_get(LI, X(r), j)][r]) == r)), [L_get(LI, X(r), j)])),
        ('lists-well-formed', FA([w], z3.Implies(has(w), L_len(LI, ent(w)) >= 0), [ent(w)])),
    ]
    if cur is not None:
        xs = X(cur)
        fs.append(('current-row-complete', FA([j], z3.Implies(
            z3.And(j >= 0, j < tok_done),
            z3.And(has(L_get(LI, xs, j)), pos[L_get(LI, xs, j)][cur] >= 0,
                   pos[L_get(LI, xs, j)][cur] < L_len(LI, ent(L_get(LI, xs, j))),
                   e(L_get(LI, xs, j), pos[L_get(LI, xs, j)][cur]) == cur)), [L_get(LI, xs, j)])))
    return fs


def _index_build(M):
    class Build(Case):
        name = M
        params = OD([('self', index_obj(M, built=False)), ('cache_empty_records', BOOL)])
        defaults = {'cache_empty_records': vbool(True)}
        modifies = (('self.index', INDEX),)
        field_types = {'index': INDEX}
        locals = {'empty_records': LI}

        def requires(self, c):
            idx = c.p('self')
            return [('cells-present', table_ok(c.field(idx, 'table'), c.f(idx, 'index_attr'))),
                    ('threshold-valid', thr_ok(M, c.f(idx, 'threshold'), c.f(c.field(idx, 'tokenizer'), 'qval'))),
                    ('token-count-domain', S.toks_bounded())]

        def setup(self, c):
            idx = c.p('self')
            return S.toks_axioms() + imul_facts(M, c.f(c.field(idx, 'tokenizer'), 'qval'), c.f(idx, 'threshold'))

        def ghost(self, c):
            return {'pos': fresh(POS, 'pos'), 'wj': fresh(WJ, 'wj'), 'er_dst': fresh(ArrT(INT, INT), 'er_dst')}

        def _after_append(c):
            idx = c.p('self')
            tok = c.t('token')
            rid = c.t('row_id')
            lst = D_get(INDEX, c.f(idx, 'index'), tok)
            k = L_len(LI, lst) - 1
            pos, wj = c.ghost['pos'].t, c.ghost['wj'].t
            c.ghost['pos'] = V(POS, z3.Store(pos, tok, z3.Store(z3.Select(pos, tok), rid, k)))
            c.ghost['wj'] = V(WJ, z3.Store(wj, tok, z3.Store(z3.Select(wj, tok), k, c.loop_idx[-1])))

        def _after_empty(c):
            er = c.v('empty_records')
            c.ghost['er_dst'] = V(ArrT(INT, INT), z3.Store(c.ghost['er_dst'].t, c.t('row_id'), ln(er) - 1))

        hooks = (Hook('self.index.get(token).append', _after_append, ('pos', 'wj')),
                 Hook('empty_records.append', _after_empty, ('er_dst',)))

        def returns(self, ex, st, c):
            from pyvc.executor import PyDict
            er = fresh(LI, 'empty_records')
            for f in wf(er):
                st.assume(f)
            return PyDict({'empty_records': er})

        @staticmethod
        def empties(c, idx, er, er_dst, upto):
            X = lambda q: X_of(c, idx, q)
            r, p = ints('r!pe p!pe')
            return [
                ('empty-records-sound', FA([p], z3.Implies(z3.And(p >= 0, p < ln(er)), z3.And(
                    c['cache_empty_records'], at(er, p) >= 0, at(er, p) < upto, L_len(LI, X(at(er, p))) == 0,
                    er_dst[at(er, p)] == p)), [at(er, p)])),
                ('empty-records-complete', FA([r], z3.Implies(z3.And(
                    c['cache_empty_records'], r >= 0, r < upto, L_len(LI, X(r)) == 0),
                    z3.And(er_dst[r] >= 0, er_dst[r] < ln(er), at(er, er_dst[r]) == r)), [er_dst[r], X(r)])),
            ]

        def _inv_rows(c):
            idx = c.p('self')
            fs = wf_prefix(c, M, idx, c.f(idx, 'index'), c.ghost['pos'].t, c.ghost['wj'].t, c.i)
            fs += Build.empties(c, idx, c.v('empty_records'), c.ghost['er_dst'].t, c.i)
            fs.append(('row-id', c.t('row_id') == c.i))
            return fs

        def _inv_tokens(c):
            idx = c.p('self')
            cur = c.outer[-1]
            fs = wf_prefix(c, M, idx, c.f(idx, 'index'), c.ghost['pos'].t, c.ghost['wj'].t, cur, cur, c.i)
            fs += Build.empties(c, idx, c.v('empty_records'), c.ghost['er_dst'].t, cur)
            fs.append(('row-id', c.t('row_id') == cur))
            fs.append(('tokens', c.t('index_attr_tokens') == X_of(c, idx, cur)))
            fs.append(('slice-length', c.seq.length == pl_of(c, M, idx, cur)))
            return fs

        loops = {'0': LoopSpec(_inv_rows), '0.0': LoopSpec(_inv_tokens)}

        def ensures(self, c, res):
            idx = c.p('self')
            NL = ln(c.field(idx, 'table'))
            er = res.d['empty_records']
            return wf_prefix(c, M, idx, c.f(idx, 'index'), c.ghost_out('pos', POS), c.ghost_out('wj', WJ), NL) + \
                Build.empties(c, idx, er, c.ghost_out('er_dst', ArrT(INT, INT)), NL)
    return Build()


register(QI + 'build', [_index_build(M) for M in MEASURES], props=('C03', 'C04', 'C09', 'C14'))


# ============================================================================ PrefixFilter
def _filter_init(Mgiven, thr_ty):
    M = Mgiven.upper()

    class Init(Ctor):
        name = '%s-%s' % (Mgiven, 'float' if thr_ty == FLOAT else 'int')
        params = OD([('self', ObjSpec('PrefixFilter')), ('tokenizer', TOKENIZER), ('sim_measure_type', vstr(Mgiven)),
                     ('threshold', thr_ty), ('allow_empty', BOOL), ('allow_missing', BOOL)])
        defaults = {'allow_empty': vbool(True), 'allow_missing': vbool(False)}

        def raises(self, c):
            conds = {'AssertionError': z3.Not(VC.threshold_valid(M, c['threshold']))}
            if M == 'EDIT_DISTANCE':
                conds['AssertionError'] = z3.Or(z3.Not(c.f(c.p('tokenizer'), 'is_qgram')), conds['AssertionError'])
            return conds

        def fields(self, c):
            return OD([('tokenizer', c.p('tokenizer')), ('sim_measure_type', vstr(M)), ('threshold', c.p('threshold')),
                       ('allow_empty', c.p('allow_empty')), ('allow_missing', c.p('allow_missing'))])
    return Init()


register(QF + '__init__', filter_init_cases(_filter_init), props=('C15', 'C04'))


def filter_obj(M):
    return ObjSpec('PrefixFilter', tokenizer=TOKENIZER, sim_measure_type=vstr(M), threshold=thr_ty_of(M),
                   allow_empty=BOOL, allow_missing=BOOL)


def probe_pl(c, M, f, P):
    n = ln(P)
    p = plen_of(M, n, c.f(f, 'threshold'), c.f(c.field(f, 'tokenizer'), 'qval'))
    return z3.If(p <= n, z3.If(p >= 0, p, 0), n)


def shares(c, M, idx, P, plP, r, i, j):
    """probe prefix position i and indexed prefix position j of row r hold the same rank"""
    return z3.And(i >= 0, i < plP, j >= 0, j < pl_of(c, M, idx, r), at(P, i) == L_get(LI, X_of(c, idx, r), j))


def _find_candidates(M):
    class FindCandidates(Case):
        name = M
        params = OD([('self', filter_obj(M)), ('probe_tokens', LI), ('prefix_index', index_obj(M))])
        returns = CANDS
        locals = {'candidates': CANDS}
        inline = (QI + 'probe',)

        def requires(self, c):
            idx, f = c.p('prefix_index'), c.p('self')
            pos, wj = c.ghost_in('pos', POS), c.ghost_in('wj', WJ)
            return wf_prefix(c, M, idx, c.f(idx, 'index'), pos, wj, ln(c.field(idx, 'table'))) + \
                [('threshold-valid', thr_ok(M, c.f(f, 'threshold'), c.f(c.field(f, 'tokenizer'), 'qval'))),
                 ('probe-size-domain', ln(c.p('probe_tokens')) <= S.MAXTOK)]

        def setup(self, c):
            idx, f = c.p('prefix_index'), c.p('self')
            return imul_facts(M, c.f(c.field(idx, 'tokenizer'), 'qval'), c.f(idx, 'threshold')) + \
                imul_facts(M, c.f(c.field(f, 'tokenizer'), 'qval'), c.f(f, 'threshold'))

        @staticmethod
        def members(c, cands, upto):
            """r in cands  <=>  some probe prefix position below `upto` holds a rank of r's indexed prefix"""
            idx, f = c.p('prefix_index'), c.p('self')
            P = c.p('probe_tokens')
            plP = probe_pl(c, M, f, P)
            NL = ln(c.field(idx, 'table'))
            r, i, j = ints('r!pm i!pm j!pm')
            inr = z3.And(r >= 0, r < NL)
            X = lambda q: X_of(c, idx, q)
            return [
                ('members-share-a-prefix-rank', FA([r], z3.Implies(z3.Select(cands, r), z3.And(
                    inr, z3.Exists([i, j], z3.And(i < upto, shares(c, M, idx, P, plP, r, i, j)),
                                   patterns=[z3.MultiPattern(at(P, i), L_get(LI, X(r), j))]))),
                    [z3.Select(cands, r)])),
                ('rows-sharing-a-prefix-rank-are-members', FA([r, i, j], z3.Implies(
                    z3.And(inr, i < upto, shares(c, M, idx, P, plP, r, i, j)), z3.Select(cands, r)),
                    [z3.MultiPattern(at(P, i), L_get(LI, X(r), j))])),
            ]

        def _inv(c):
            f = c.p('self')
            return FindCandidates.members(c, c.t('candidates'), c.i) + \
                [('slice-length', c.seq.length == probe_pl(c, M, f, c.p('probe_tokens')))]

        loops = {'0': LoopSpec(_inv)}

        def ensures(self, c, res):
            return FindCandidates.members(c, res.t, ln(c.p('probe_tokens')))
    return FindCandidates()


register(QF + 'find_candidates', [_find_candidates(M) for M in MEASURES], props=('C03', 'C04', 'C14'))
