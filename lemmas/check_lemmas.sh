#!/bin/sh
# Re-checks the Lean 4 / Mathlib proofs of the pure-mathematics lemmas (no `sorry`, no extra axioms beyond Mathlib's).
cd "$(dirname "$0")" || exit 3
grep -n "sorry\|^axiom " Lemmas.lean && { echo "lemmas: sorry/axiom found"; exit 1; }
out=$(lean Lemmas.lean 2>&1); rc=$?
[ $rc -eq 0 ] && [ -z "$(echo "$out" | grep -i error)" ] && { echo "lemmas: Lemmas.lean accepted by lean $(lean --version | cut -d' ' -f3)"; exit 0; }
echo "$out" | tail -20; exit 1
