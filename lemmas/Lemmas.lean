/-
Machine-checked versions (Lean 4 + Mathlib) of pure-mathematics facts that the SMT side of /verif
ASSUMES about its specification functions.  The correspondence between these statements and the SMT
axioms in pyvc/spec.py / contracts/*.py is by inspection (trusted), see DESIGN.md 0.4.
-/
import Mathlib

open Finset

/-! ## cntV: number of the first `p` elements of `b` that occur in `a`
SMT: cntV(a,b,0) = 0;  0 ≤ p < len b → cntV(a,b,p+1) = cntV(a,b,p) + ite(mem(a, b[p]), 1, 0).
Assumed facts: 0 ≤ cntV(a,b,p) ≤ p  and  a = [] → cntV(a,b,p) = 0. -/

def cnt {α : Type} [DecidableEq α] (a b : List α) : ℕ → ℕ
  | 0 => 0
  | p + 1 => cnt a b p + (if h : p < b.length then (if b[p] ∈ a then 1 else 0) else 0)

theorem cnt_le {α : Type} [DecidableEq α] (a b : List α) (p : ℕ) : cnt a b p ≤ p := by
  induction p with
  | zero => simp [cnt]
  | succ p ih =>
    simp only [cnt]
    split_ifs <;> omega

theorem cnt_nil {α : Type} [DecidableEq α] (b : List α) (p : ℕ) : cnt ([] : List α) b p = 0 := by
  induction p with
  | zero => simp [cnt]
  | succ p ih => simp [cnt, ih]

/-- a member among the first `p` elements makes the count positive (used for "a shared element
gives intersection size ≥ 1") -/
theorem cnt_pos {α : Type} [DecidableEq α] (a b : List α) (p i : ℕ) (hi : i < p) (hb : i < b.length)
    (hm : b[i] ∈ a) : 1 ≤ cnt a b p := by
  induction p with
  | zero => omega
  | succ p ih =>
    simp only [cnt]
    by_cases h : i = p
    · subst h
      simp [hb, hm]
    · have : i < p := by omega
      have := ih this
      omega

/-! ## inj_image: an injective rank map preserves set sizes and intersection sizes -/

theorem toFinset_map' {α : Type} [DecidableEq α] (f : α → ℕ) (a : List α) :
    (a.map f).toFinset = a.toFinset.image f := by
  ext x
  simp

theorem inj_image_card {α : Type} [DecidableEq α] (f : α → ℕ) (a : List α)
    (hf : Set.InjOn f (↑a.toFinset : Set α)) : (a.map f).toFinset.card = a.toFinset.card := by
  rw [toFinset_map']
  exact Finset.card_image_of_injOn hf

theorem inj_image_inter {α : Type} [DecidableEq α] (f : α → ℕ) (a b : List α)
    (hf : Set.InjOn f (↑(a.toFinset ∪ b.toFinset) : Set α)) :
    ((a.map f).toFinset ∩ (b.map f).toFinset).card = (a.toFinset ∩ b.toFinset).card := by
  rw [toFinset_map', toFinset_map']
  have h := Finset.image_inter_of_injOn (s := a.toFinset) (t := b.toFinset) (f := f) (by simpa using hf)
  rw [← h]
  apply Finset.card_image_of_injOn
  intro x hx y hy hxy
  apply hf _ _ hxy
  · simp only [coe_union, coe_inter, Set.mem_union, Set.mem_inter_iff, mem_coe] at hx ⊢
    exact Or.inl hx.1
  · simp only [coe_union, coe_inter, Set.mem_union, Set.mem_inter_iff, mem_coe] at hy ⊢
    exact Or.inl hy.1

/-! ## PP / PC: the prefix principle for strictly sorted rank lists, and its converse direction
SMT (contracts/prefix_tables.py): duplicate-free token lists whose sorted rank lists X, Y have
`o = |X ∩ Y| ≥ max(n - p + 1, m - q + 1) ≥ 1` share a rank within their first p and q positions (PP);
lists that share an element have a non-empty intersection (PC). -/

/-- position bound: in a strictly sorted list, the index of the least common element is at most
`length - (number of common elements)` -/
theorem index_of_min_common (X Y : List ℕ) (hX : X.Pairwise (· < ·))
    (hne : (X.toFinset ∩ Y.toFinset).Nonempty) :
    ∃ i, ∃ h : i < X.length, X[i] = (X.toFinset ∩ Y.toFinset).min' hne ∧
      i + (X.toFinset ∩ Y.toFinset).card ≤ X.length := by
  set I := X.toFinset ∩ Y.toFinset with hI
  set c := I.min' hne with hc
  have hcI : c ∈ I := Finset.min'_mem I hne
  have hcX : c ∈ X := by
    have := (Finset.mem_inter.mp hcI).1
    simpa using this
  obtain ⟨i, hi, hxi⟩ := List.getElem_of_mem hcX
  refine ⟨i, hi, hxi, ?_⟩
  have hnd : X.Nodup := hX.nodup
  -- the first i elements are smaller than c, hence not common
  have hsub : (X.take i).toFinset ⊆ X.toFinset \ I := by
    intro x hx
    have hx' : x ∈ X.take i := by simpa using hx
    obtain ⟨k, hk, hxk⟩ := List.getElem_of_mem hx'
    have hk' : k < i := by
      have := hk
      simp [List.length_take] at this
      omega
    have hkX : k < X.length := by omega
    have hxk' : X[k] = x := by
      rw [← hxk, List.getElem_take]
    have hlt : x < c := by
      rw [← hxk', ← hxi]
      exact List.pairwise_iff_getElem.mp hX k i hkX hi hk'
    refine Finset.mem_sdiff.mpr ⟨?_, ?_⟩
    · have : x ∈ X := List.mem_of_mem_take hx'
      simpa using this
    · intro hxI
      have := Finset.min'_le I x hxI
      omega
  have hcard1 : (X.take i).toFinset.card = i := by
    rw [List.toFinset_card_of_nodup (hnd.sublist (List.take_sublist i X))]
    simp [List.length_take]
    omega
  have hcard2 : (X.toFinset \ I).card = X.length - I.card := by
    rw [Finset.card_sdiff_of_subset Finset.inter_subset_left, List.toFinset_card_of_nodup hnd]
  have hle : i ≤ X.length - I.card := by
    have h0 := Finset.card_le_card hsub
    rw [hcard1, hcard2] at h0
    exact h0
  have hIle : I.card ≤ X.length := by
    calc I.card ≤ X.toFinset.card := Finset.card_le_card Finset.inter_subset_left
      _ = X.length := List.toFinset_card_of_nodup hnd
  show i + I.card ≤ X.length
  generalize I.card = k at hle hIle ⊢
  omega

/-- PP, the prefix principle: two strictly sorted lists with at least
`max (n - p + 1) (m - q + 1) ≥ 1` common elements share an element within their first `p` and `q`
positions. -/
theorem prefix_principle (X Y : List ℕ) (hX : X.Pairwise (· < ·)) (hY : Y.Pairwise (· < ·)) (p q : ℕ)
    (ho : 1 ≤ (X.toFinset ∩ Y.toFinset).card)
    (hp : X.length + 1 ≤ (X.toFinset ∩ Y.toFinset).card + p)
    (hq : Y.length + 1 ≤ (X.toFinset ∩ Y.toFinset).card + q) :
    ∃ i j, ∃ hi : i < X.length, ∃ hj : j < Y.length, i < p ∧ j < q ∧ X[i] = Y[j] := by
  have hne : (X.toFinset ∩ Y.toFinset).Nonempty := Finset.card_pos.mp (by omega)
  have hne' : (Y.toFinset ∩ X.toFinset).Nonempty := by rwa [Finset.inter_comm]
  obtain ⟨i, hi, hxi, hbi⟩ := index_of_min_common X Y hX hne
  obtain ⟨j, hj, hyj, hbj⟩ := index_of_min_common Y X hY hne'
  refine ⟨i, j, hi, hj, by omega, ?_, ?_⟩
  · have : (Y.toFinset ∩ X.toFinset).card = (X.toFinset ∩ Y.toFinset).card := by rw [Finset.inter_comm]
    omega
  · rw [hxi, hyj]
    congr 1
    exact Finset.inter_comm _ _

/-- PC, the converse direction used for C14: a common element means a non-empty intersection -/
theorem shared_element_inter_pos (X Y : List ℕ) (i j : ℕ) (hi : i < X.length) (hj : j < Y.length)
    (h : X[i] = Y[j]) : 1 ≤ (X.toFinset ∩ Y.toFinset).card := by
  apply Finset.card_pos.mpr
  refine ⟨X[i], Finset.mem_inter.mpr ⟨?_, ?_⟩⟩
  · simp [List.getElem_mem]
  · rw [h]; simp [List.getElem_mem]

/-! ## PQ / PB: the positional filter's counting argument (contracts/position_pair.py)
SMT: pcnt(X, P, Y, k) = cnt (X.take P) Y k  (number of k' < k with Y[k'] among the first P elements of X);
PQ  a right element among the first Q that equals a left element among the first P makes pcnt(X,P,Y,Q) >= 1;
PB  X, Y strictly sorted, Y[i] = X[j], j < P:  |X n Y| <= pcnt(X,P,Y,i) + 1 + min(|X| - j - 1, |Y| - i - 1). -/

/-- PQ: a right element among the first `Q` that equals a left element among the first `P`
makes the prefix-match count positive -/
theorem prefix_match_count_pos (X Y : List ℕ) (P Q i j : ℕ) (hi : i < Y.length) (hj : j < X.length)
    (hiQ : i < Q) (hjP : j < P) (h : X[j] = Y[i]) : 1 ≤ cnt (X.take P) Y Q := by
  apply cnt_pos (X.take P) Y Q i hiQ hi
  rw [← h, List.mem_iff_getElem]
  refine ⟨j, ?_, ?_⟩
  · simp only [List.length_take]; omega
  · rw [List.getElem_take]

theorem filter_take_card_le (a b : List ℕ) (k : ℕ) :
    ((b.take k).toFinset.filter (· ∈ a)).card ≤ cnt a b k := by
  induction k with
  | zero => simp [cnt]
  | succ k ih =>
    simp only [cnt]
    by_cases hk : k < b.length
    · rw [List.take_succ_eq_append_getElem hk, List.toFinset_append, Finset.filter_union]
      simp only [hk, dite_true]
      by_cases hm : b[k] ∈ a
      · simp only [hm, if_true]
        have h1 : (Finset.filter (· ∈ a) [b[k]].toFinset).card ≤ 1 := by
          calc _ ≤ [b[k]].toFinset.card := Finset.card_filter_le _ _
            _ ≤ 1 := by simp
        have h2 := Finset.card_union_le (Finset.filter (· ∈ a) (b.take k).toFinset)
          (Finset.filter (· ∈ a) [b[k]].toFinset)
        omega
      · have h0 : Finset.filter (· ∈ a) [b[k]].toFinset = ∅ := by
          ext x
          simp only [Finset.mem_filter, List.mem_toFinset, List.mem_singleton]
          constructor
          · rintro ⟨hx, hxa⟩
            subst hx
            exact absurd hxa hm
          · intro hx
            simp at hx
        rw [h0]
        simp only [hm, if_false, Finset.union_empty, Nat.add_zero]
        exact ih
    · have h0 : b.take (k + 1) = b.take k := by
        rw [List.take_of_length_le (by omega), List.take_of_length_le (by omega)]
      rw [h0]
      simp only [hk, dite_false, Nat.add_zero]
      exact ih

theorem idx_lt_of_lt (L : List ℕ) (hL : L.Pairwise (· < ·)) (a b : ℕ) (ha : a < L.length)
    (hb : b < L.length) (h : L[a] < L[b]) : a < b := by
  by_contra hn
  have hn' : b ≤ a := by omega
  rcases Nat.lt_or_eq_of_le hn' with h1 | h1
  · have := List.pairwise_iff_getElem.mp hL b a hb ha h1
    omega
  · subst h1
    omega

theorem card_gt_le (L : List ℕ) (hL : L.Pairwise (· < ·)) (k : ℕ) (hk : k < L.length)
    (S : Finset ℕ) (hS : ∀ x ∈ S, x ∈ L ∧ L[k] < x) : S.card ≤ L.length - k - 1 := by
  have hsub : S ⊆ (L.drop (k + 1)).toFinset := by
    intro x hx
    obtain ⟨hxL, hlt⟩ := hS x hx
    obtain ⟨m, hm, hxm⟩ := List.getElem_of_mem hxL
    have hkm : k < m := idx_lt_of_lt L hL k m hk hm (by rw [hxm]; exact hlt)
    rw [List.mem_toFinset, List.mem_iff_getElem]
    refine ⟨m - (k + 1), ?_, ?_⟩
    · simp only [List.length_drop]; omega
    · rw [List.getElem_drop, ← hxm]
      congr 1
      omega
  calc S.card ≤ (L.drop (k + 1)).toFinset.card := Finset.card_le_card hsub
    _ ≤ (L.drop (k + 1)).length := List.toFinset_card_le _
    _ = L.length - k - 1 := by simp only [List.length_drop]; omega

theorem mem_take_of_lt (L : List ℕ) (hL : L.Pairwise (· < ·)) (k : ℕ) (hk : k < L.length)
    (x : ℕ) (hx : x ∈ L) (hlt : x < L[k]) (n : ℕ) (hkn : k ≤ n) : x ∈ L.take n := by
  obtain ⟨m, hm, hxm⟩ := List.getElem_of_mem hx
  have hmk : m < k := idx_lt_of_lt L hL m k hm hk (by rw [hxm]; exact hlt)
  rw [List.mem_iff_getElem]
  refine ⟨m, ?_, ?_⟩
  · simp only [List.length_take]; omega
  · rw [List.getElem_take]; exact hxm

/-- PB, the positional bound: X, Y strictly sorted; Y[i] = X[j] with j < P.  Then the number of common
elements is at most (number of i' < i with Y[i'] in the first P elements of X) + 1 +
min (elements of X after j) (elements of Y after i). -/
theorem position_bound (X Y : List ℕ) (hX : X.Pairwise (· < ·)) (hY : Y.Pairwise (· < ·))
    (P i j : ℕ) (hi : i < Y.length) (hj : j < X.length) (hjP : j < P) (h : X[j] = Y[i]) :
    (X.toFinset ∩ Y.toFinset).card ≤
      cnt (X.take P) Y i + 1 + min (X.length - j - 1) (Y.length - i - 1) := by
  set I := X.toFinset ∩ Y.toFinset with hI
  have hmemI : ∀ x ∈ I, x ∈ X ∧ x ∈ Y := by
    intro x hx
    have := Finset.mem_inter.mp hx
    simpa using this
  have hsplit : I ⊆ (I.filter (· < Y[i])) ∪ {Y[i]} ∪ (I.filter (Y[i] < ·)) := by
    intro x hx
    simp only [Finset.mem_union, Finset.mem_filter, Finset.mem_singleton]
    rcases lt_trichotomy x Y[i] with hlt | heq | hgt
    · exact Or.inl (Or.inl ⟨hx, hlt⟩)
    · exact Or.inl (Or.inr heq)
    · exact Or.inr ⟨hx, hgt⟩
  have hgtY : (I.filter (Y[i] < ·)).card ≤ Y.length - i - 1 := by
    apply card_gt_le Y hY i hi
    intro x hx
    have hx' := Finset.mem_filter.mp hx
    exact ⟨(hmemI x hx'.1).2, hx'.2⟩
  have hgtX : (I.filter (Y[i] < ·)).card ≤ X.length - j - 1 := by
    apply card_gt_le X hX j hj
    intro x hx
    have hx' := Finset.mem_filter.mp hx
    exact ⟨(hmemI x hx'.1).1, by rw [h]; exact hx'.2⟩
  have hlt : (I.filter (· < Y[i])).card ≤ cnt (X.take P) Y i := by
    refine le_trans (Finset.card_le_card ?_) (filter_take_card_le (X.take P) Y i)
    intro x hx
    have hx' := Finset.mem_filter.mp hx
    have hxX := (hmemI x hx'.1).1
    have hxY := (hmemI x hx'.1).2
    rw [Finset.mem_filter, List.mem_toFinset]
    refine ⟨mem_take_of_lt Y hY i hi x hxY hx'.2 i le_rfl, ?_⟩
    exact mem_take_of_lt X hX j hj x hxX (by rw [h]; exact hx'.2) P (by omega)
  have hcard : I.card ≤ (I.filter (· < Y[i])).card + 1 + (I.filter (Y[i] < ·)).card := by
    calc I.card ≤ ((I.filter (· < Y[i])) ∪ {Y[i]} ∪ (I.filter (Y[i] < ·))).card :=
          Finset.card_le_card hsplit
      _ ≤ ((I.filter (· < Y[i])) ∪ {Y[i]}).card + (I.filter (Y[i] < ·)).card :=
          Finset.card_union_le _ _
      _ ≤ (I.filter (· < Y[i])).card + ({Y[i]} : Finset ℕ).card + (I.filter (Y[i] < ·)).card :=
          Nat.add_le_add_right (Finset.card_union_le _ _) _
      _ = _ := by simp
  omega
