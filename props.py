"""Property -> the functions whose contracts carry it, extra derived obligations, and the
trusted base shared by every check."""

FU = 'py_stringsimjoin.filter.filter_utils.'
GH = 'py_stringsimjoin.utils.generic_helper.'

ARITH = [FU + 'get_size_lower_bound', FU + 'get_size_upper_bound', FU + 'get_prefix_length',
         FU + 'get_overlap_threshold']

TRUSTED_BASE = [
    'pyvc symbolic executor and VC generator (this repository, /verif/pyvc)',
    'z3 4.x / 5.1 and cvc5 1.0.3 (SMT back ends); z3 nlsat for the real-arithmetic lemmas',
    'Python semantics assumed by the encoding: DESIGN.md 2.2 (value semantics of containers under the alias discipline, arbitrary dict/set iteration order, unbounded ints)',
    'IEEE-754 binary64 round-to-nearest and CPython round(x, 4) as over-approximated in pyvc/fp.py',
    'domain bound MAXTOK = 2^31 on token counts and table lengths',
]

ASSUMPTIONS = [
    'float arithmetic is modelled by an over-approximation (pyvc/fp.py); not treated as mathematical reals',
    'token counts and table lengths are at most 2^31 (stated precondition of the arithmetic contracts)',
    'termination: all verified loops are for-loops over finite sequences; recursion is not under contract',
    'concurrency is not modelled: joblib workers are assumed to run the split function as a pure function of its arguments',
]

PROPS = {}

PROPS['T0'] = dict(functions=ARITH + [GH + 'split_table', GH + 'remove_redundant_attrs'])

PROPS['C17'] = dict(functions=['py_stringsimjoin.profiler.profiler.profile_table_for_join',
                              'py_stringsimjoin.utils.validation.validate_input_table',
                              'py_stringsimjoin.utils.validation.validate_attr'],
                    trusted=['pandas (assumed, pyvc/pandas_model.py): Series.unique, pd.isnull, sum of a boolean Series, '
                             'DataFrame(rows, columns=), set_index, df[name]',
                             'str() and str.join are uninterpreted injective-free symbols; the percentage inside the '
                             'formatted statistic is the value the code computes (round(x, 2) in the float model)'])
