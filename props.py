"""Property -> the functions whose contracts carry it, extra derived obligations, and the
trusted base shared by every check."""

FU = 'py_stringsimjoin.filter.filter_utils.'
GH = 'py_stringsimjoin.utils.generic_helper.'

ARITH = [FU + 'get_size_lower_bound', FU + 'get_size_upper_bound', FU + 'get_prefix_length',
         FU + 'get_overlap_threshold']

TRUSTED_BASE = [
    'pyvc symbolic executor and VC generator (this repository, /verif/pyvc)',
    'z3 4.x / 5.1 and cvc5 1.0.3 (SMT back ends); z3 nlsat for the real-arithmetic lemmas',
    'Python semantics assumed by the encoding: DESIGN.md 2.2 (value semantics of containers under the alias discipline, arbitrary dict/set iteration order, unbounded ints)',
    'IEEE-754 binary64 round-to-nearest and CPython round(x, 4) as over-approximated in pyvc/fp.py',
    'domain bound MAXTOK = 2^31 on token counts and table lengths',
    'CPython builtins as modelled in pyvc/natives.py and pyvc/natives_sort.py (ASSUMED): dict / set / list operations, list.index, '
    'dict.items() enumerates every key once, sorted() / list.sort() return a stable key-ordered permutation, zip pairs up to the shorter length',
]

ASSUMPTIONS = [
    'float arithmetic is modelled by an over-approximation (pyvc/fp.py); not treated as mathematical reals',
    'token counts and table lengths are at most 2^31 (stated precondition of the arithmetic contracts)',
    'termination: all verified loops are for-loops over finite sequences; recursion is not under contract',
    'concurrency is not modelled: joblib workers are assumed to run the split function as a pure function of its arguments',
]

PROPS = {}

VAL = 'py_stringsimjoin.utils.validation.'
MVH = 'py_stringsimjoin.utils.missing_value_handler.get_pairs_with_missing_value'
SSJ = 'py_stringsimjoin.join.set_sim_join.set_sim_join'
HELPERS = [GH + x for x in ('remove_redundant_attrs', 'get_attrs_to_project', 'find_output_attribute_indices',
                            'get_output_row_from_tables', 'get_output_header_from_tables')]
VALIDATORS = [VAL + x for x in ('validate_input_table', 'validate_attr', 'validate_attr_type', 'validate_key_attr',
                                'validate_output_attrs', 'validate_threshold', 'validate_tokenizer',
                                'validate_tokenizer_for_sim_measure', 'validate_sim_measure_type',
                                'validate_comp_op_for_sim_measure', 'validate_comp_op')]
PANDAS = ('pandas (ASSUMED, pyvc/pandas_model.py): DataFrame abstraction (columns, rows, index, dtypes), df[name], '
          'df[list], df[mask], dropna, itertuples, unique, isnull, DataFrame(rows, columns=), concat, set_index')
PSM = ('py_stringmatching (ASSUMED, contracts/externals.py): tokenize is deterministic and duplicate-free in set mode; '
       'get_raw_score returns simval_M(|A&B|, |A|, |B|) with the float formula of the installed version')
LEMMA_INJ = ('lemma inj_image (pure mathematics; proved in Lean, lemmas/Lemmas.lean; statement correspondence trusted): an injective rank map defined on all '
             'tokens preserves set sizes and intersection sizes; ranks(o, tokens) names the (pure) result of order_using_token_ordering')

PROPS['C17'] = dict(functions=['py_stringsimjoin.profiler.profiler.profile_table_for_join',
                              VAL + 'validate_input_table', VAL + 'validate_attr'],
                    trusted=[PANDAS, 'str() and str.join are uninterpreted symbols; the percentage inside the formatted '
                             'statistic is the value the code computes (round(x, 2) in the float model)'])

JOINS = ['py_stringsimjoin.join.%s_join_py.%s_join_py' % (m, m) for m in ('jaccard', 'cosine', 'dice')]
JOBLIB = ('joblib (ASSUMED): Parallel(n)(delayed(F)(a_j) ...) returns [F(a_j)] in order, F runs on copies of its arguments; '
          'real process scheduling is not modelled')

OVI = 'py_stringsimjoin.index.inverted_index.InvertedIndex.'
OVF = 'py_stringsimjoin.filter.overlap_filter.OverlapFilter.'
OVERLAP_CORE = [OVI + '__init__', OVI + 'build', OVF + '__init__', OVF + 'find_candidates',
                'py_stringsimjoin.filter.overlap_filter._filter_tables_split']
OVERLAP_API = [OVF + 'filter_pair', OVF + 'filter_tables', 'py_stringsimjoin.join.overlap_join_py.overlap_join_py']
LEMMA_CNT = ('spec definitions memV / cntV / isectV (match counting) with two induction facts (proved in Lean, lemmas/Lemmas.lean; '
             'statement correspondence trusted): 0 <= cntV(a,b,p) <= p and cntV(a,b,p) = 0 when a is empty')

SZI = 'py_stringsimjoin.index.size_index.SizeIndex.'
SZF = 'py_stringsimjoin.filter.size_filter.SizeFilter.'
SIZE_CORE = [SZI + '__init__', SZI + 'build', SZF + '__init__', SZF + 'find_candidates',
             'py_stringsimjoin.filter.size_filter._filter_tables_split']
SIZE_API = [SZF + 'filter_pair', SZF + 'filter_tables']
FLT = 'py_stringsimjoin.filter.filter.'
CANDSET = [GH + 'build_dict_from_table', FLT + '_filter_candset_split', FLT + 'Filter.filter_candset']
MAT = 'py_stringsimjoin.matcher.apply_matcher.'
MATCHER = [MAT + '_apply_matcher_split', MAT + 'generate_tokens', MAT + 'apply_matcher']
GENTOK = ('pandas / builtins used by generate_tokens (ASSUMED, pyvc/pandas_model.py): Series.apply(tokenizer.tokenize) is elementwise, '
          'zip pairs up to the shorter length, dict(zip) lets the last pair of a repeated key win')
ANYF = ('filter_candset is verified once against an abstract filter_pair (ASSUMED only to be a deterministic function of the '
        'filter object and the two values, which each concrete filter_pair contract under verification refines)')
SIMF = 'the sim_function passed to apply_matcher is an arbitrary deterministic function of its two arguments (uninterpreted)'

OVJ = 'py_stringsimjoin.join.overlap_coefficient_join_py.'
OVC = [OVJ + '_overlap_coefficient_join_split', OVJ + 'overlap_coefficient_join_py']
EDJ = 'py_stringsimjoin.join.edit_distance_join_py.'
ED = [EDJ + '_edit_distance_join_split', EDJ + 'edit_distance_join_py']
PXI = 'py_stringsimjoin.index.prefix_index.PrefixIndex.'
PXF = 'py_stringsimjoin.filter.prefix_filter.PrefixFilter.'
PREFIX_CORE = [PXI + '__init__', PXI + 'build', PXF + '__init__', PXF + 'find_candidates']
LEMMA_ED = ('two facts of pure mathematics are ASSUMED for the completeness half of C03: |len(l) - len(r)| <= Levenshtein(l, r), and the '
            'q-gram prefix principle (distance <= t and a shared q-gram imply a shared token in the (q*t+1)-prefixes under one total order)')

TO_ = 'py_stringsimjoin.utils.token_ordering.'
PSI = 'py_stringsimjoin.index.position_index.PositionIndex.'
PSF = 'py_stringsimjoin.filter.position_filter.PositionFilter.'
POSITION_CORE = [PSI + '__init__', PSI + 'build', PSF + '__init__', PSF + 'find_candidates']
POSITION_TABLES = ['py_stringsimjoin.filter.position_filter._filter_tables_split', PSF + 'filter_tables']
POSITION_PAIR = [PSF + 'filter_pair']
# PositionFilter.filter_pair's safe half is PROVED for the set measures since round 5 (contracts/position_pair.py);
# the EDIT_DISTANCE / OVERLAP modes of the pair-level filters have no contract: bounded stand-ins (C04)
PAIR_INT_MODES = [dict(fn=f_ + 'filter_pair', case=m_) for f_ in (PSF, 'py_stringsimjoin.filter.prefix_filter.PrefixFilter.')
                  for m_ in ('EDIT_DISTANCE', 'OVERLAP')]
LEMMA_PB = ('two further facts of pure mathematics (proved in Lean, lemmas/Lemmas.lean: prefix_match_count_pos, position_bound; '
            'statement correspondence trusted) are used for the safe half of PositionFilter.filter_pair: a common element of the two '
            'prefixes makes the prefix-match count positive, and for strictly sorted X, Y with Y[i] = X[j] inside the left prefix '
            '|X n Y| <= matches before i + 1 + min(|X| - j - 1, |Y| - i - 1)')
PREFIX_TABLES = ['py_stringsimjoin.filter.prefix_filter._filter_tables_split', PXF + 'filter_tables']
PREFIX_PAIR = [TO_ + 'gen_token_ordering_for_lists', PXF + 'filter_pair']
TO = 'py_stringsimjoin.utils.token_ordering.'
ORDERING = [TO + 'gen_token_ordering_for_tables', TO + 'order_using_token_ordering']
PAR = [GH + 'split_table', GH + 'get_num_processes_to_launch']
LEMMA_PP = ('two facts of pure mathematics (proved in Lean, lemmas/Lemmas.lean; statement correspondence trusted) are used for PrefixFilter.filter_tables: the prefix principle (duplicate-free lists with '
            'overlap >= max(n-p+1, m-q+1) >= 1 share a rank within their first p and q sorted ranks) and its converse direction '
            '(a shared rank is a shared token under an injective order)')

PROPS['C01'] = dict(functions=ARITH + [SSJ] + JOINS + OVERLAP_CORE + OVERLAP_API + OVC + POSITION_CORE + ORDERING + PAR,
                    trusted=[PSM, PANDAS, LEMMA_INJ, LEMMA_CNT, JOBLIB])
PROPS['C02'] = dict(functions=[SSJ] + HELPERS + JOINS + OVERLAP_CORE + OVERLAP_API + OVC + POSITION_CORE + PAR,
                    trusted=[PSM, PANDAS, LEMMA_INJ, LEMMA_CNT, JOBLIB])
PROPS['C03'] = dict(functions=ED + PREFIX_CORE + ARITH[2:3] + HELPERS + ORDERING + PAR, trusted=[PSM, PANDAS, JOBLIB, LEMMA_ED])
PROPS['C04'] = dict(functions=ARITH + SIZE_CORE + SIZE_API + OVERLAP_CORE + OVERLAP_API[:2] + CANDSET + PREFIX_CORE + PREFIX_TABLES +
                    PREFIX_PAIR + POSITION_CORE + POSITION_TABLES + POSITION_PAIR + ORDERING + PAR,
                    trusted=[PSM, PANDAS, LEMMA_CNT, LEMMA_INJ, LEMMA_PP, LEMMA_PB, JOBLIB, ANYF], bounded_extra=PAIR_INT_MODES)
PROPS['C05'] = dict(functions=MATCHER + [GH + 'build_dict_from_table', GH + 'find_output_attribute_indices',
                                         GH + 'get_output_row_from_tables', GH + 'get_output_header_from_tables',
                                         GH + 'get_attrs_to_project', GH + 'remove_redundant_attrs'] + PAR,
                    trusted=[PANDAS, PSM, JOBLIB, GENTOK, SIMF])
PROPS['C06'] = dict(functions=CANDSET + OVERLAP_CORE + OVERLAP_API[:2] + PAR + SIZE_API[:1] + PREFIX_PAIR[1:] + POSITION_PAIR, trusted=[PSM, PANDAS, LEMMA_CNT, JOBLIB, ANYF],
                    # conformance run of the executable contract of filter_candset on the real code in the quick tier too: it
                    # exercises what the ASSUMED pandas abstraction cannot see (dtype coercion of numeric-only candidate sets)
                    bounded_extra=[dict(fn=CANDSET[-1], case='default')])
PROPS['C09'] = dict(functions=[SSJ] + JOINS + OVERLAP_CORE + OVERLAP_API[:1] + SIZE_CORE + SIZE_API + OVC + PREFIX_CORE[:2] + PREFIX_TABLES + PREFIX_PAIR[1:] + POSITION_PAIR +
                    POSITION_CORE[:2] + POSITION_TABLES, trusted=[PSM, PANDAS, LEMMA_INJ, LEMMA_PP])
PROPS['C11'] = dict(functions=HELPERS + [SSJ, MVH] + JOINS + OVERLAP_CORE[-1:] + OVERLAP_API[1:] + SIZE_CORE[-1:] + SIZE_API[1:] + OVC + ED +
                    PREFIX_TABLES + POSITION_TABLES, trusted=[PANDAS])
PROPS['C08'] = dict(functions=[MVH] + HELPERS + JOINS + OVERLAP_API + SIZE_API + CANDSET + MATCHER + OVC[1:] + ED[1:] + PREFIX_PAIR[1:] + POSITION_PAIR +
                    PREFIX_TABLES[1:] + POSITION_TABLES[1:], trusted=[PANDAS])
# C10: n_jobs / chunking (split_table, chunk preconditions, concat, _id) and, for the stacks whose output is characterised
# exactly as a function of the two rows of a pair, independence of row order and index labels
PROPS['C10'] = dict(functions=PAR + JOINS + OVERLAP_CORE + OVERLAP_API[1:] + SIZE_CORE + SIZE_API[1:] + CANDSET + MATCHER + OVC + ED +
                    PREFIX_TABLES[1:] + POSITION_TABLES[1:] + ORDERING,      # ORDERING: the token order is (frequency, token) order (proved)
                    trusted=[PANDAS, JOBLIB, PSM, LEMMA_CNT])
PROPS['C12'] = dict(functions=JOINS + OVERLAP_API[1:] + SIZE_API[1:] + CANDSET[-1:] + MATCHER[-1:] + OVC[1:] + ED[1:] +
                    PREFIX_TABLES[1:] + POSITION_TABLES[1:], trusted=[PANDAS, PSM, JOBLIB])
PROPS['C14'] = dict(functions=ARITH[:2] + SIZE_CORE + SIZE_API + OVERLAP_CORE + OVERLAP_API[:2] + PREFIX_CORE + PREFIX_TABLES + PREFIX_PAIR + POSITION_PAIR +
                    POSITION_CORE + POSITION_TABLES + ORDERING,
                    trusted=[PSM, PANDAS, LEMMA_CNT, LEMMA_INJ, LEMMA_PP, JOBLIB],
                    bounded_extra=[dict(fn='spec.size_window_tightness', case=c_) for c_ in
                                   ('JACCARD', 'COSINE', 'DICE', 'COSINE-right-empty')] +
                                  # Position <= Prefix and Position <= Size on the same tables, real code against real code
                                  # (the EDIT_DISTANCE / OVERLAP modes of the filter classes have no contract)
                                  [dict(fn='spec.position_refines_prefix_and_size', case=c_) for c_ in
                                   ('JACCARD', 'COSINE', 'EDIT_DISTANCE', 'OVERLAP')])
PROPS['C15'] = dict(functions=VALIDATORS + JOINS + [OVF + '__init__', SZF + '__init__', PXF + '__init__', PSF + '__init__'] + OVERLAP_API[1:] +
                    SIZE_API[1:] + CANDSET[-1:] + MATCHER[-1:] + OVC[1:] + ED[1:] + PREFIX_TABLES[1:] + POSITION_TABLES[1:], trusted=[PANDAS])
