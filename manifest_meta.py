"""What MANIFEST.json claims per property (source of tools/gen_manifest.py)."""

TECH = 'contract-based deductive verification: sidecar contracts on the real functions, VCs from the AST, z3/cvc5'

CLAIMS = {
    'C17': dict(
        text='profile_table_for_join is proved, for every table with 1..2^31 rows and every choice of profile_attrs, '
             'to return one row per attribute (indexed by it) whose statistics cells are the formatted exact counts and '
             'whose comment recommends a key iff all values are distinct and none is missing and warns iff a value is missing. '
             'All loop iterations and all table sizes are covered by an inductive invariant; percentages go through the '
             'float model.',
        note='pandas counting (Series.unique, pd.isnull, sum over a boolean Series), DataFrame construction and set_index are '
             'ASSUMED contracts (pyvc/pandas_model.py), not verified; str() and str.join are uninterpreted; '
             'trusted: pyvc VC generator, z3/cvc5.',
        technique=TECH, design_ref='DESIGN.md 4 (C17)'),
}


_COMMON_NOTE = ('ASSUMED (never counted as proved, listed in evidence.trusted_base / assumed_contracts): pandas (DataFrame abstraction in '
                'pyvc/pandas_model.py), py_stringmatching tokenizers and measures (contracts/externals.py), joblib Parallel, pyprind; '
                'pure-mathematics lemmas about the specification functions (inj_image, two counting facts, the prefix principle and '
                'its converse, two edit-distance facts: DESIGN.md 0.4). '
                'also assumed: CPython builtins used by the code (dict, list.index, sorted / list.sort as stable key-ordered permutations, zip). '
                'BOUNDED stand-ins (exhaustive small scope + seeded random on the real code, evidence.bounded_standins): the completeness '
                'half of PositionFilter.find_candidates (its soundness half is proved; both halves of PositionFilter.filter_pair are proved for the set measures), '
                'the EDIT_DISTANCE / OVERLAP modes of PrefixFilter / PositionFilter.filter_pair (C04), PositionFilter.filter_tables keeping a subset of '
                'PrefixFilter / SizeFilter.filter_tables in all modes (C14), a conformance run of filter_candset (C06). '
                'Scope: all six *_join_py entry points, set_sim_join, InvertedIndex / OverlapFilter, SizeIndex / SizeFilter, '
                'PrefixIndex / PrefixFilter (find_candidates, filter_tables), PositionIndex / PositionFilter (filter_tables), '
                'Filter.filter_candset, apply_matcher. Not under contract (their part of the property is not decided by this check): '
                'SuffixFilter, the OVERLAP / EDIT_DISTANCE modes of the Size / Prefix / Position filter classes (except SizeFilter.filter_pair, '
                'the EDIT_DISTANCE prefix index / candidates, and the exact / missing / empty clauses of PrefixFilter / PositionFilter.filter_pair '
                'under EDIT_DISTANCE), the Cython twins, disk_edit_distance_join. Row-level equality of the parallel (n_jobs > 1) '
                'result with the serial one is not derived. Trusted: pyvc VC generator, z3/cvc5.')

CLAIMS.update({
    'C01': dict(
        text='The four pruning formulas of filter_utils are proved safe in a float model that over-approximates IEEE-754 (all sizes <= 2^31, all '
             'thresholds in (0,1]). set_sim_join (Jaccard / cosine / Dice), _overlap_coefficient_join_split and OverlapFilter._filter_tables_split '
             '(overlap_join) are proved, for every pair of tables, to emit a row for every pair whose similarity satisfies the comparison '
             '(raw and rounded where the library rounds) -- inductive invariants with ghost origin maps over the proved index structures '
             '(PositionIndex, InvertedIndex) -- and the five *_join_py drivers are proved to relay exactly those rows on the serial path. '
             'gen_token_ordering_for_tables / order_using_token_ordering are proved (injective total order defined on all tokens).',
        note=_COMMON_NOTE + ' For the Jaccard / cosine / Dice joins the completeness of PositionFilter.find_candidates (every pair meeting '
             'the size / prefix / overlap premises is a candidate) is the bounded stand-in; its soundness half is proved.',
        technique=TECH, design_ref='DESIGN.md 0.3, 4 (C01)'),
    'C02': dict(
        text='set_sim_join, _overlap_coefficient_join_split and OverlapFilter._filter_tables_split are proved to emit only pairs whose reported '
             'score satisfies the comparison, each key pair at most once (ghost origin map is injective), with _sim_score = round(sim, 4) '
             '(1.0 for admitted empty pairs), the unrounded double overlap / min(sizes), resp. the integer overlap, and every row built '
             'from the two source rows it names; InvertedIndex.build is proved to keep the size cache aligned with the row ids; drivers '
             'relay rows unchanged behind the _id column.',
        note=_COMMON_NOTE, technique=TECH, design_ref='DESIGN.md 0.3, 4 (C02)'),
    'C08': dict(
        text='get_pairs_with_missing_value is proved to return exactly one row for every pair with a missing join value on at least one '
             'side, of the header width (pandas precondition), NaN score iff requested; all six join drivers and the filter_tables of Size / '
             'Overlap / Prefix / Position filters are proved to work on the dropna-projected arrays and to append the missing pairs iff '
             'allow_missing; filter_pair (Size, Overlap), filter_candset and apply_matcher are proved to keep a pair with a missing value iff '
             'allow_missing; no exception for any distribution of missing values.',
        note=_COMMON_NOTE, technique=TECH, design_ref='DESIGN.md 0.3, 4 (C08)'),
    'C09': dict(
        text='set_sim_join, _overlap_coefficient_join_split and the filter_tables of SizeFilter / PrefixFilter / PositionFilter: a right row '
             'without tokens is paired with exactly the cached token-less left rows iff allow_empty (score 1.0 in the joins), whatever '
             'threshold and operator; a pair with one empty side is never emitted by a join; OverlapFilter / overlap_join never return a pair '
             'without common token; SizeFilter.filter_pair keeps a both-empty pair iff allow_empty. The index builders are proved to cache '
             'exactly the token-less rows and never to index them.',
        note=_COMMON_NOTE, technique=TECH, design_ref='DESIGN.md 0.3, 4 (C09)'),
    'C10': dict(
        text='split_table is proved (float model) to cut a table into contiguous chunks with boundaries b(0)=0 <= ... <= b(k)=len; '
             'get_num_processes_to_launch >= 1; every driver (six joins, four filter_tables, filter_candset, apply_matcher): each chunk call '
             'satisfies the precondition of the split function, pd.concat gets equal headers, _id = 0..n-1 on all paths. The stacks whose '
             'output is characterised exactly pair by pair (Overlap, Size, overlap coefficient, apply_matcher, filter_candset) and the '
             'join results (decided by the final verification) are functions of the two rows of a pair, not of their position; the token '
             'order is proved to be (frequency, token) order.',
        note=_COMMON_NOTE + ' Equality of the parallel result with the serial one and invariance under row permutation / index relabelling are '
             'consequences of these per-pair characterisations that are not themselves stated as an obligation (they relate two runs); '
             'real process scheduling is outside any contract.',
        technique=TECH, design_ref='DESIGN.md 0.3, 4 (C10)'),
    'C11': dict(
        text='remove_redundant_attrs (order-preserving de-duplication without the key), get_attrs_to_project, '
             'find_output_attribute_indices, get_output_row_from_tables, get_output_header_from_tables are proved against full functional '
             'specifications; every split function (set_sim_join, overlap coefficient, edit distance, Size / Overlap / Prefix / Position '
             'filter_tables) and get_pairs_with_missing_value are proved to produce the documented header and rows whose cells equal the '
             'named attributes of the source rows; drivers add _id and keep the rest.',
        note=_COMMON_NOTE, technique=TECH, design_ref='DESIGN.md 0.3, 4 (C11)'),
    'C12': dict(
        text='For the six join drivers, the four filter_tables, filter_candset and apply_matcher: on every normal and every exceptional '
             'exit the tokenizer return_set flag equals its entry value (frame obligations on all paths) and no input object is written '
             '(pandas operations used are functional in the model).',
        note=_COMMON_NOTE + ' Histories: follows by induction from the per-call frame; state hidden inside third-party objects and the shared '
             'default tokenizer of the edit_distance_join dispatcher are not covered. Known finding D10 is recorded.',
        technique=TECH, design_ref='DESIGN.md 0.3, 4 (C12)'),
    'C15': dict(
        text='Every validate_* helper has an exact exceptional contract (raises X iff condition); the six join drivers, the four filter '
             'constructors and filter_tables, filter_candset and apply_matcher are proved to raise TypeError / AssertionError exactly when a '
             'documented precondition fails, before any write, and never otherwise: all implicit exceptions (KeyError, IndexError, '
             'ZeroDivisionError, pandas shape errors) are discharged as safety obligations.',
        note=_COMMON_NOTE + ' Known findings D8 (thresholds below 1e-150) and D10 (output name equal to _id) are recorded.',
        technique=TECH, design_ref='DESIGN.md 0.3, 4 (C15)'),
    'C04': dict(
        text='SizeFilter, PrefixFilter, PositionFilter (JACCARD, COSINE, DICE) and OverlapFilter: filter_pair is proved never to drop a pair of present '
             'values whose similarity meets the threshold (SizeFilter: exact window characterisation + the proved safety theorem of the '
             'size bounds; PrefixFilter: exact prefix characterisation + prefix-length theorem + prefix principle; PositionFilter: loop invariants '
             '"current_overlap = number of right prefix ranks seen so far that are left prefix ranks", "stored position <= real position", the proved '
             'prefix-length / overlap-threshold theorems and the Lean-proved prefix principle and positional bound; OverlapFilter: exact). filter_tables of SizeFilter, OverlapFilter, PrefixFilter and PositionFilter (set measures) are proved to '
             'list every such pair and every admitted empty pair (ghost origin maps, inductive invariants over the proved index '
             'structures), and filter_candset is proved to keep exactly the rows filter_pair does not drop.',
        note=_COMMON_NOTE + ' PrefixFilter: the step from "prefixes share a rank" (proved exact) to "qualifying pairs are listed" uses the '
             'prefix principle (Lean); PositionFilter.filter_tables: its find_candidates completeness is a bounded stand-in. The EDIT_DISTANCE / OVERLAP '
             'modes of PrefixFilter / PositionFilter.filter_pair are BOUNDED stand-ins on the real code (exhaustive over short strings on two letters, '
             'seeded random beyond), never counted as proved. SuffixFilter (recorded finding D2 in DESIGN.md) and the EDIT_DISTANCE / OVERLAP modes '
             'of filter_tables are NOT covered by this check.',
        technique=TECH, design_ref='DESIGN.md 0.3, 4 (C04)'),
    'C05': dict(
        text='_apply_matcher_split is proved, for all six operators, with and without tokenizer, with and without token cache, to '
             'return exactly the candidate rows (original order: ghost source map strictly increasing and complete; original _id) for '
             'which sim_function(values or their token lists) comp_op threshold holds, missing pairs kept iff allow_missing with NaN score, '
             '_sim_score the value returned by sim_function; the cached and the direct tokenisation cases have the same postcondition. '
             'apply_matcher is proved to validate (exact exceptional contract), to return an empty candset as is, and on the serial path '
             'to return the split result for the projected tables; on the parallel path every chunk call meets the split precondition '
             'and pd.concat gets equal headers.',
        note=_COMMON_NOTE + ' generate_tokens is an ASSUMED contract (pandas apply/zip/dict); sim_function is an uninterpreted deterministic '
             'function; pickling of instance methods (utils/pickle.py) is outside any contract.',
        technique=TECH, design_ref='DESIGN.md 4 (C05)'),
    'C06': dict(
        text='_filter_candset_split / Filter.filter_candset are proved, for an abstract filter, to return exactly the sub-table '
             '(same columns, row order, index labels) of the rows whose referenced values filter_pair does not drop. OverlapFilter: '
             'filter_pair keeps a pair iff both token lists are non-empty and overlap comp_op overlap_size; _filter_tables_split and '
             'filter_tables list exactly those pairs, with the overlap as _sim_score.',
        note=_COMMON_NOTE + ' The abstract filter_pair is assumed deterministic in (filter object, two values). Because the proof sits on the '
             'ASSUMED pandas abstraction (which does not see dtype coercion), the executable contract of filter_candset is also run on the real '
             'code in the quick tier (200 generated calls incl. int64 keys beyond 2^53 in numeric-only candidate sets): a BOUNDED conformance '
             'stand-in, never counted as proved.',
        technique=TECH + '; conformance of the assumed pandas layer: bounded run of the executable contract', design_ref='DESIGN.md 0.3, 4 (C06)'),
    'C14': dict(
        text='SizeFilter: filter_pair (set measures, EDIT_DISTANCE, OVERLAP) and filter_tables (set measures) are proved to decide exactly '
             'by the size window of the two token counts (a function of the counts alone; for EDIT_DISTANCE: counts differing by at most '
             'the threshold); PrefixFilter.filter_pair is proved to keep exactly the pairs whose prefixes share a rank (hence a common token); OverlapFilter is proved to keep only pairs '
             'with overlap comp_op overlap_size; PrefixFilter.filter_tables is proved to list exactly the pairs whose two prefixes share a '
             'rank (hence a common token) or that are admitted empty pairs; PositionFilter.filter_tables is proved to list only pairs with '
             'a common token whose left size lies in the size window of the right size (a subset of what SizeFilter keeps), or admitted '
             'empty pairs. Tightness of the window (no admitted pair of counts has its best attainable similarity more than 1e-4 below '
             'the threshold) is a BOUNDED check on the real get_size_lower_bound / get_size_upper_bound (all counts < 60 / 200, ~900 '
             'thresholds, seeded random), never counted as proved.',
        note=_COMMON_NOTE + ' Known finding D11 (COSINE thresholds below 0.00707 admit an empty right value) is recorded. The claim '
             '"PositionFilter.filter_tables keeps a subset of PrefixFilter.filter_tables and of SizeFilter.filter_tables" is not derived as a lemma for '
             'the table level; it is a BOUNDED differential stand-in on the real code (seeded random tables; set measures, EDIT_DISTANCE with '
             'q-gram bags, OVERLAP), never counted as proved. SizeFilter.filter_tables under EDIT_DISTANCE is otherwise not covered.',
        technique=TECH + '; window tightness and the Position <= Prefix / Size refinement in the uncontracted modes: bounded checks on the real code', design_ref='DESIGN.md 0.3, 4 (C14)'),
})

CLAIMS['C03'] = dict(
    text='_edit_distance_join_split is proved to return only pairs whose Levenshtein distance (an uninterpreted function, the value '
         'py_stringmatching returns) satisfies <=, < or = against the threshold, each pair at most once (candidates form a set; ghost origin '
         'maps), with _sim_score the distance and cells projected from the source rows; and to return every pair that passes the length '
         'filter, satisfies the comparison and is a prefix-filter candidate. PrefixIndex.build and PrefixFilter.find_candidates are proved '
         'exact (candidates = rows sharing a token within the two (q*t+1)-prefixes). edit_distance_join_py is proved to validate, to floor '
         'the threshold, to switch the tokenizer to bag mode and restore it on every exit, and to relay the rows.',
    note=_COMMON_NOTE + ' The documented completeness guarantee (every qualifying pair sharing a q-gram) is derived from the proved '
         'candidate completeness plus two ASSUMED facts of pure mathematics (length bound of the edit distance; q-gram prefix principle), '
         'listed in the evidence.',
    technique=TECH, design_ref='DESIGN.md 4 (C03)')

_REL = ('relational property over several runs (the join against filter_tables + apply_matcher; swapped tables; two thresholds; three '
        'operators): the single-call contracts built here characterise each result only up to the gap between `must` (raw and rounded '
        'similarity satisfy the comparison) and `may` (rounded similarity does), and the candidate set of the position filter is a bounded '
        'stand-in, so equality of two results cannot be derived as a lemma over these contracts; no check is registered rather than '
        'switching to differential testing (DESIGN.md 5)')
NOT_APPLICABLE = dict((p, _REL) for p in ['C07', 'C13'])
NOT_APPLICABLE['C16'] = ('converter.py is a dtype dispatch whose whole observable behaviour is pandas semantics '
                         '(astype(str), Series.update, copy); a contract proof would consist of assumed pandas contracts only '
                         'and cannot decide the property (DESIGN.md 5)')
NOTES = 'pyvc: see DESIGN.md. Exit codes of ./check: 0 held, 1 violation, 2 undecided, 3 machinery/trusted-base failure.'
