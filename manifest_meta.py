"""What MANIFEST.json claims per property (source of tools/gen_manifest.py)."""

TECH = 'contract-based deductive verification: sidecar contracts on the real functions, VCs from the AST, z3/cvc5'

CLAIMS = {
    'C17': dict(
        text='profile_table_for_join is proved, for every table with 1..2^31 rows and every choice of profile_attrs, '
             'to return one row per attribute (indexed by it) whose statistics cells are the formatted exact counts and '
             'whose comment recommends a key iff all values are distinct and none is missing and warns iff a value is missing. '
             'All loop iterations and all table sizes are covered by an inductive invariant; percentages go through the '
             'float model.',
        note='pandas counting (Series.unique, pd.isnull, sum over a boolean Series), DataFrame construction and set_index are '
             'ASSUMED contracts (pyvc/pandas_model.py), not verified; str() and str.join are uninterpreted; '
             'trusted: pyvc VC generator, z3/cvc5.',
        technique=TECH, design_ref='DESIGN.md 4 (C17)'),
}

_PENDING = 'check not registered yet in this session (contracts under construction); not claimed'
NOT_APPLICABLE = dict((p, _PENDING) for p in
                      ['C01', 'C02', 'C03', 'C04', 'C05', 'C06', 'C07', 'C08', 'C09', 'C10', 'C11', 'C12', 'C13',
                       'C14', 'C15'])
NOT_APPLICABLE['C16'] = ('converter.py is a dtype dispatch whose whole observable behaviour is pandas semantics '
                         '(astype(str), Series.update, copy); a contract proof would consist of assumed pandas contracts only '
                         'and cannot decide the property (DESIGN.md 5)')
NOTES = 'pyvc: see DESIGN.md. Exit codes of ./check: 0 held, 1 violation, 2 undecided, 3 machinery/trusted-base failure.'
