"""Executable contracts of filter/filter_utils.py (bounded search / replay)."""
import itertools
import math
from fractions import Fraction
from replay.registry import oracle

Q = 'py_stringsimjoin.filter.filter_utils.'


def sim(M, o, n, m):
    """exactly the expressions py_stringmatching 0.4.x evaluates (conformance-sampled against the
    installed library by replay/conformance.py)"""
    if o == n == m:
        return 1.0
    if M == 'JACCARD':
        return float(o) / float(n + m - o)
    if M == 'COSINE':
        return float(o) / (math.sqrt(float(n)) * math.sqrt(float(m)))
    if M == 'DICE':
        return 2.0 * float(o) / float(n + m)
    raise ValueError(M)


def required(M, o, n, m, t):
    s = sim(M, o, n, m)
    return s >= t and round(s, 4) >= t


class Tok(object):
    def __init__(self, q=2):
        self.qval = q


def size_triples(tier, model):
    big = 26 if tier != 'thorough' else 48
    base = [(o, n, m) for n in range(1, big) for m in range(1, big) for o in range(1, min(n, m) + 1)]
    extra = []
    for k in (10 ** 3, 10 ** 5, 2 ** 20, 2 ** 30):
        for (o, n, m) in ((k // 3, k, k // 2), (k // 2, k, k), (k, k, k), (1, k, 1), (k // 7, k // 5, k)):
            if 1 <= o <= min(n, m):
                extra.append((o, n, m))
    return base + extra


def thresholds_for(M, o, n, m):
    s = sim(M, o, n, m)
    out = {s, round(s, 4), math.nextafter(s, 0.0), math.nextafter(s, 2.0), round(s, 2), round(s, 3)}
    return [t for t in out if 0 < t <= 1]


GRID = [k / 100.0 for k in range(1, 101)] + [1e-9, 1e-5, 0.123456, 0.3333, 0.6667, 0.9999, 0.99995]


class _ArithOracle(object):
    fname = None

    def fn(self):
        import py_stringsimjoin.filter.filter_utils as fu
        return getattr(fu, self.fname)

    def inputs(self, case, rng, model, tier):
        M = (case or 'JACCARD').split('-')[0]
        if M in ('JACCARD', 'COSINE', 'DICE'):
            for (o, n, m) in size_triples(tier, model):
                ts = thresholds_for(M, o, n, m)
                if n <= 12 and m <= 12:
                    ts = ts + GRID
                for t in ts:
                    if required(M, o, n, m, t):
                        yield dict(M=M, o=o, n=n, m=m, t=t)
        else:
            for n in range(0, 14):
                for m in range(0, 14):
                    for o in range(0, min(n, m) + 1):
                        for t in range(0, 6):
                            for q in (1, 2, 3):
                                yield dict(M=M, o=o, n=n, m=m, t=t, q=q)


@oracle(Q + 'get_prefix_length')
class PrefixLength(_ArithOracle):
    fname = 'get_prefix_length'

    def check(self, case, a):
        f, M = self.fn(), a['M']
        if M in ('JACCARD', 'COSINE', 'DICE'):
            for x in (a['n'], a['m']):
                p = f(x, M, a['t'], Tok())
                if not (x - p + 1 <= a['o']):
                    return ('sizes (%d,%d) overlap %d satisfy %s >= %r (sim=%r) but prefix length of %d '
                            'is %d: the common tokens can lie entirely outside the prefix'
                            % (a['n'], a['m'], a['o'], M, a['t'], sim(M, a['o'], a['n'], a['m']), x, p))
                if not (1 <= p <= x + 1):
                    return 'prefix length %d of %d tokens out of range' % (p, x)
        elif M == 'OVERLAP':
            if a['t'] >= 1 and a['o'] >= a['t'] and a['n'] >= 1:
                p = f(a['n'], M, a['t'], Tok())
                if not (a['n'] - p + 1 <= a['o'] and p >= 1):
                    return 'OVERLAP prefix %d for n=%d T=%d o=%d' % (p, a['n'], a['t'], a['o'])
        elif M == 'EDIT_DISTANCE':
            p = f(a['n'], M, a['t'], Tok(a['q']))
            want = 0 if a['n'] == 0 else min(a['q'] * a['t'] + 1, a['n'])
            if p != want:
                return 'EDIT_DISTANCE prefix %r != %r' % (p, want)
        return None


@oracle(Q + 'get_size_lower_bound')
class LowerBound(_ArithOracle):
    fname = 'get_size_lower_bound'

    def check(self, case, a):
        f, M = self.fn(), a['M']
        if M in ('JACCARD', 'COSINE', 'DICE'):
            for (x, y) in ((a['n'], a['m']), (a['m'], a['n'])):
                lb = f(x, M, a['t'])
                if not (lb <= y):
                    return ('sizes (%d,%d) overlap %d satisfy %s >= %r but lower bound for %d is %d > %d'
                            % (a['n'], a['m'], a['o'], M, a['t'], x, lb, y))
        elif M == 'OVERLAP':
            if f(a['n'], M, a['t']) != a['t']:
                return 'OVERLAP lower bound'
        elif M == 'EDIT_DISTANCE':
            if f(a['n'], M, a['t']) != a['n'] - a['t']:
                return 'EDIT_DISTANCE lower bound'
        return None


@oracle(Q + 'get_size_upper_bound')
class UpperBound(_ArithOracle):
    fname = 'get_size_upper_bound'

    def inputs(self, case, rng, model, tier):
        M = (case or 'JACCARD').split('-')[0]
        if M in ('JACCARD', 'COSINE', 'DICE'):
            # extreme but valid thresholds first (overflow / division by zero in the quotient)
            for t in (1e-308, 5e-324, 1e-200, 1e-162, 1e-160, 1e-155):
                yield dict(M=M, o=1, n=25, m=25, t=t, extreme=True)
        for x in _ArithOracle.inputs(self, case, rng, model, tier):
            yield x

    def check(self, case, a):
        f, M = self.fn(), a['M']
        if M in ('JACCARD', 'COSINE', 'DICE'):
            if a.get('extreme'):
                f(a['n'], M, a['t'])          # must not raise for a threshold in (0, 1]
                return None
            for (x, y) in ((a['n'], a['m']), (a['m'], a['n'])):
                ub = f(x, M, a['t'])
                if not (y <= ub):
                    return ('sizes (%d,%d) overlap %d satisfy %s >= %r but upper bound for %d is %d < %d'
                            % (a['n'], a['m'], a['o'], M, a['t'], x, ub, y))
        elif M == 'EDIT_DISTANCE':
            if f(a['n'], M, a['t']) != a['n'] + a['t']:
                return 'EDIT_DISTANCE upper bound'
        return None


@oracle(Q + 'get_overlap_threshold')
class OverlapThreshold(_ArithOracle):
    fname = 'get_overlap_threshold'

    def check(self, case, a):
        f, M = self.fn(), a['M']
        if M in ('JACCARD', 'COSINE', 'DICE'):
            thr = f(a['n'], a['m'], M, a['t'], Tok())
            if not (thr <= a['o']):
                return ('sizes (%d,%d) overlap %d satisfy %s >= %r but required overlap is %r'
                        % (a['n'], a['m'], a['o'], M, a['t'], thr))
        elif M == 'OVERLAP':
            if f(a['n'], a['m'], M, a['t'], Tok()) != a['t']:
                return 'OVERLAP required overlap'
        elif M == 'EDIT_DISTANCE':
            q = a['q']
            if f(a['n'], a['m'], M, a['t'], Tok(q)) != max(a['n'], a['m']) - q * a['t']:
                return 'EDIT_DISTANCE required overlap'
        return None
