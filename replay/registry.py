"""Registry of executable oracles (see harness.py)."""
ORACLES = {}
ALIASES = {}


def oracle(qualname):
    def deco(cls):
        ORACLES[qualname] = cls()
        return cls
    return deco


def alias(internal, entry_point):
    """an internal function without an oracle of its own is searched through the entry points that run it
    (several may be registered; they are tried in order, the search budget is shared)"""
    lst = ALIASES.setdefault(internal, [])
    if entry_point not in lst:
        lst.append(entry_point)
