"""Registry of executable oracles (see harness.py)."""
ORACLES = {}


def oracle(qualname):
    def deco(cls):
        ORACLES[qualname] = cls()
        return cls
    return deco
