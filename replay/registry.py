"""Registry of executable oracles (see harness.py)."""
ORACLES = {}
ALIASES = {}


def oracle(qualname):
    def deco(cls):
        ORACLES[qualname] = cls()
        return cls
    return deco


def alias(internal, entry_point):
    """an internal function without an oracle of its own is searched through the entry point that runs it"""
    ALIASES[internal] = entry_point
