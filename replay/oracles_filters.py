"""Executable contracts (replay / bounded search on the real code) for the filter classes under
contract (OverlapFilter, SizeFilter), overlap_join_py, Filter.filter_candset, apply_matcher and the
generic helpers: the result is compared with a brute-force evaluation of the property."""
import math
import random
import re
from replay.registry import oracle, alias
from replay.oracles_arith import sim
from replay.oracles_join import OPS, check_rows, _frames, THR

OVF = 'py_stringsimjoin.filter.overlap_filter.'
SZF = 'py_stringsimjoin.filter.size_filter.'
GH = 'py_stringsimjoin.utils.generic_helper.'
MAT = 'py_stringsimjoin.matcher.apply_matcher.'
FLT = 'py_stringsimjoin.filter.filter.'
UNI = ['a', 'b', 'c', 'd', 'e', 'f', 'g', 'h']


def miss(v):
    return v is None or (isinstance(v, float) and math.isnan(v))


def T(s):
    from py_stringmatching import WhitespaceTokenizer
    return WhitespaceTokenizer(return_set=True).tokenize(s)


def op_of(case, default='>='):
    m = re.match(r'(>=|<=|!=|=>|>|<|=)', case or '')
    return m.group(1) if m else default


def measure_of(case, default='JACCARD'):
    m = re.match(r'(JACCARD|COSINE|DICE)', case or '')
    return m.group(1) if m else default


def gen_strings(rng, n, p_missing=0.2, p_empty=0.15):
    out = []
    for _ in range(n):
        x = rng.random()
        if x < p_missing:
            out.append(None)
        elif x < p_missing + p_empty:
            out.append('')
        else:
            k = rng.choice([3, 4, 6, 8])
            out.append(' '.join(rng.sample(UNI[:k], rng.randint(1, k))))
    return out


def gen_table_inputs(rng, tier, n):
    for _ in range(n):
        yield dict(l=gen_strings(rng, rng.randint(0, 5)), r=gen_strings(rng, rng.randint(0, 5)),
                   t=rng.choice(THR), size=rng.choice([1, 1, 2, 3, 4]), allow_empty=rng.random() < 0.5,
                   allow_missing=rng.random() < 0.5, score=rng.random() < 0.6, n_jobs=rng.choice([1, 1, 2, 3, -1]),
                   bag=rng.random() < 0.3, lp=rng.choice(['l_', 'left.', '']), rp=rng.choice(['r_', 'R']),
                   outs=rng.random() < 0.5,
                   bad=rng.choice([None, None, None, None, 'l_key', 'r_attr', 'ltable', 'dup_key', 'numeric_attr', 'l_out']))


# ----------------------------------------------------------------------------- predicates
def overlap_keep(op, size):
    def keep(lv, rv):
        if not lv or not rv:
            return False
        return OPS[op](len(set(T(lv)) & set(T(rv))), size)
    return keep


def size_window(M, t, x):
    from replay.oracles_arith import spec_lower, spec_upper
    return spec_lower(M, x, t), spec_upper(M, x, t)


def size_keep_pair(M, t, allow_empty):
    """SizeFilter (set measures), as the contract states it: the window of the LEFT count admits the right"""
    from py_stringsimjoin.filter.filter_utils import get_size_lower_bound, get_size_upper_bound

    def keep(lv, rv):
        x, y = len(T(lv)), len(T(rv))
        if x == 0 and y == 0:
            return allow_empty
        return get_size_lower_bound(x, M, t) <= y <= get_size_upper_bound(x, M, t)
    return keep


def qualifies(M, t):
    """C04: similarity meets the threshold, raw and rounded"""
    def q(lv, rv):
        a, b = set(T(lv)), set(T(rv))
        if not a or not b:
            return False
        s = sim(M, len(a & b), len(a), len(b))
        return s >= t and round(s, 4) >= t
    return q


# ----------------------------------------------------------------------------- filter_pair
@oracle(OVF + 'OverlapFilter.filter_pair')
class OverlapFilterPair(object):
    def inputs(self, case, rng, model, tier):
        for _ in range(3000 if tier != 'thorough' else 30000):
            l, r = gen_strings(rng, 2)
            yield dict(l=l, r=r, size=rng.choice([1, 1, 2, 3]), allow_missing=rng.random() < 0.5)

    def check(self, case, a):
        from py_stringmatching import WhitespaceTokenizer
        from py_stringsimjoin.filter.overlap_filter import OverlapFilter
        op = op_of(case)
        f = OverlapFilter(WhitespaceTokenizer(return_set=True), a['size'], op, a['allow_missing'])
        got = f.filter_pair(a['l'], a['r'])
        if miss(a['l']) or miss(a['r']):
            want = not a['allow_missing']
        else:
            want = not overlap_keep(op, a['size'])(a['l'], a['r'])
        if bool(got) != want or not isinstance(got, (bool,)) and got not in (True, False):
            return 'filter_pair(%r, %r) [overlap %s %r, allow_missing=%r] returned %r, expected %r' % (
                a['l'], a['r'], op, a['size'], a['allow_missing'], got, want)
        return None


@oracle(SZF + 'SizeFilter.filter_pair')
class SizeFilterPair(object):
    def inputs(self, case, rng, model, tier):
        for _ in range(3000 if tier != 'thorough' else 30000):
            l, r = gen_strings(rng, 2)
            yield dict(l=l, r=r, t=rng.choice(THR), allow_missing=rng.random() < 0.5, allow_empty=rng.random() < 0.5)

    def check(self, case, a):
        from py_stringmatching import WhitespaceTokenizer, QgramTokenizer
        from py_stringsimjoin.filter.size_filter import SizeFilter
        if case in ('EDIT_DISTANCE', 'OVERLAP'):
            # integer thresholds: the counts alone decide
            t = 1 + int(a['t'] * 3)
            tok = QgramTokenizer(qval=2, padding=False) if case == 'EDIT_DISTANCE' else WhitespaceTokenizer(return_set=True)
            f = SizeFilter(tok, case, t, a['allow_empty'], a['allow_missing'])
            got = f.filter_pair(a['l'], a['r'])
            if miss(a['l']) or miss(a['r']):
                want = not a['allow_missing']
            else:
                x, y = len(tok.tokenize(a['l'])), len(tok.tokenize(a['r']))
                if x == 0 and y == 0:
                    want = (case == 'OVERLAP')
                elif case == 'EDIT_DISTANCE':
                    want = not (x - t <= y <= x + t)
                else:
                    want = not (t <= y)
            return None if bool(got) == want else 'filter_pair(%r, %r) [%s %r] returned %r, expected %r' % (
                a['l'], a['r'], case, t, got, want)
        M = measure_of(case)
        f = SizeFilter(WhitespaceTokenizer(return_set=True), M, a['t'], a['allow_empty'], a['allow_missing'])
        got = f.filter_pair(a['l'], a['r'])
        if miss(a['l']) or miss(a['r']):
            want = not a['allow_missing']
        else:
            want = not size_keep_pair(M, a['t'], a['allow_empty'])(a['l'], a['r'])
            if got and (T(a['l']) or T(a['r'])) and qualifies(M, a['t'])(a['l'], a['r']):
                return 'filter_pair(%r, %r) [%s %r] drops a pair whose similarity meets the threshold' % (
                    a['l'], a['r'], M, a['t'])
        if bool(got) != want:
            return 'filter_pair(%r, %r) [%s %r, allow_empty=%r, allow_missing=%r] returned %r, expected %r' % (
                a['l'], a['r'], M, a['t'], a['allow_empty'], a['allow_missing'], got, want)
        return None


@oracle('py_stringsimjoin.filter.prefix_filter.PrefixFilter.filter_pair')
class PrefixFilterPair(object):
    which = 'prefix'

    def inputs(self, case, rng, model, tier):
        if case in ('EDIT_DISTANCE', 'OVERLAP'):
            # BOUNDED modes (not under contract): every pair of strings over a two-letter alphabet up to a length
            # bound (q-gram bags repeat tokens there), then seeded random strings over three letters
            import itertools
            n = 6 if tier != 'thorough' else 8
            alpha = 'ab' if case == 'EDIT_DISTANCE' else 'a b c d'.split()
            sep = '' if case == 'EDIT_DISTANCE' else ' '
            strs = [sep.join(w) for k in range(0, n + 1) for w in itertools.product(alpha, repeat=k)] \
                if case == 'EDIT_DISTANCE' else \
                [sep.join(w) for k in range(0, 5) for w in itertools.combinations(alpha + ['e', 'f'], k)]
            for t in (1, 2, 3):
                for l in strs:
                    for r in strs:
                        yield dict(l=l, r=r, t=t, q=2, allow_missing=False, allow_empty=True)
            for _ in range(20000 if tier != 'thorough' else 400000):
                l = ''.join(rng.choice('abc') for _ in range(rng.randint(0, 10)))
                r = ''.join(rng.choice('abc') for _ in range(rng.randint(0, 10)))
                if case == 'OVERLAP':
                    l, r = ' '.join(l), ' '.join(r)
                yield dict(l=l, r=r, t=rng.randint(1, 4), q=rng.choice((2, 3)), allow_missing=False, allow_empty=True)
            return
        for _ in range(3000 if tier != 'thorough' else 30000):
            l, r = gen_strings(rng, 2)
            yield dict(l=l, r=r, t=rng.choice(THR), allow_missing=rng.random() < 0.5, allow_empty=rng.random() < 0.5)

    def check_int_mode(self, case, a):
        """EDIT_DISTANCE / OVERLAP modes of filter_pair: a pair within the edit distance / with the required number
        of common tokens is never dropped (C04); bounded stand-in, these modes have no contract"""
        from py_stringmatching import WhitespaceTokenizer, QgramTokenizer, Levenshtein
        from py_stringsimjoin.filter.prefix_filter import PrefixFilter
        from py_stringsimjoin.filter.position_filter import PositionFilter
        cls = PrefixFilter if self.which == 'prefix' else PositionFilter
        if case == 'EDIT_DISTANCE':
            tok = QgramTokenizer(qval=a['q'])
            f = cls(tok, 'EDIT_DISTANCE', a['t'], a['allow_empty'], a['allow_missing'])
            # C04: within the distance AND sharing a q-gram (the documented gap of the q-gram technique)
            ok = Levenshtein().get_raw_score(a['l'], a['r']) <= a['t'] and \
                bool(set(tok.tokenize(a['l'])) & set(tok.tokenize(a['r'])))
        else:
            f = cls(WhitespaceTokenizer(return_set=True), 'OVERLAP', a['t'], a['allow_empty'], a['allow_missing'])
            ok = len(set(a['l'].split()) & set(a['r'].split())) >= a['t']
        got = f.filter_pair(a['l'], a['r'])
        if got and ok:
            return 'filter_pair(%r, %r) [%s %r, qval=%r] drops a pair that meets the threshold' % (
                a['l'], a['r'], case, a['t'], a['q'])
        return None

    def check(self, case, a):
        from py_stringmatching import WhitespaceTokenizer
        from py_stringsimjoin.filter.prefix_filter import PrefixFilter
        from py_stringsimjoin.filter.position_filter import PositionFilter
        if case in ('EDIT_DISTANCE', 'OVERLAP'):
            return self.check_int_mode(case, a)
        M = measure_of(case)
        cls = PrefixFilter if self.which == 'prefix' else PositionFilter
        f = cls(WhitespaceTokenizer(return_set=True), M, a['t'], a['allow_empty'], a['allow_missing'])
        got = f.filter_pair(a['l'], a['r'])
        if miss(a['l']) or miss(a['r']):
            want = not a['allow_missing']
            return None if bool(got) == want else 'filter_pair(%r, %r) with a missing value returned %r' % (a['l'], a['r'], got)
        x, y = set(T(a['l'])), set(T(a['r']))
        if not x and not y:
            want = not a['allow_empty']
            return None if bool(got) == want else 'both values without tokens: returned %r, allow_empty=%r' % (got, a['allow_empty'])
        if got and qualifies(M, a['t'])(a['l'], a['r']):
            return 'filter_pair(%r, %r) [%s %r] drops a pair whose similarity meets the threshold' % (a['l'], a['r'], M, a['t'])
        if not got and not (x & y):
            return 'filter_pair(%r, %r) [%s %r] keeps a pair without a common token' % (a['l'], a['r'], M, a['t'])
        return None


oracle('py_stringsimjoin.filter.position_filter.PositionFilter.filter_pair')(
    type('PositionFilterPair', (PrefixFilterPair,), {'which': 'position'}))
alias('py_stringsimjoin.utils.token_ordering.gen_token_ordering_for_lists', 'py_stringsimjoin.filter.prefix_filter.PrefixFilter.filter_pair')


# ----------------------------------------------------------------------------- filter_tables / overlap_join_py
class _Tables(object):
    """entry points of the driver shape: validation, frame, header, _id, rows == brute force"""
    kind = None          # 'overlap-filter' | 'size-filter' | 'overlap-join'

    def inputs(self, case, rng, model, tier):
        for a in gen_table_inputs(rng, tier, 150 if tier != 'thorough' else 1500):
            yield a

    def check(self, case, a):
        import pandas as pd
        from py_stringmatching import WhitespaceTokenizer
        lt, rt = _frames(a)
        lt0, rt0 = lt.copy(deep=True), rt.copy(deep=True)
        set_mode = not a['bag'] if self.kind == 'overlap-join' else True
        tok = WhitespaceTokenizer(return_set=set_mode)
        louts, routs = ((['lx', 'id', 'v', 'lx'], ['ry', 'rid', 'id', 'ry']) if a['outs'] else (None, None))
        kw = dict(l_key_attr='id', r_key_attr='rid', l_attr='v', r_attr='w')
        tabs = [lt, rt]
        expect = None
        bad = a['bad']
        if bad == 'l_key':
            kw['l_key_attr'] = 'nope'; expect = AssertionError
        elif bad == 'r_attr':
            kw['r_attr'] = 'nope'; expect = AssertionError
        elif bad == 'ltable':
            tabs[0] = [1, 2]; expect = TypeError
        elif bad == 'dup_key' and len(lt) >= 2:
            lt.loc[lt.index[1], 'id'] = lt.loc[lt.index[0], 'id']; lt0 = lt.copy(deep=True); expect = AssertionError
        elif bad == 'numeric_attr':
            kw['r_attr'] = 'ry'; expect = AssertionError
        elif bad == 'l_out':
            louts = ['zz']; expect = AssertionError
        with_score = False
        try:
            if self.kind == 'overlap-filter':
                from py_stringsimjoin.filter.overlap_filter import OverlapFilter
                op = op_of(case)
                f = OverlapFilter(tok, a['size'], op, a['allow_missing'])
                out = f.filter_tables(tabs[0], tabs[1], kw['l_key_attr'], kw['r_key_attr'], kw['l_attr'], kw['r_attr'],
                                      louts, routs, a['lp'], a['rp'], a['score'], a['n_jobs'], False)
                keep, with_score = overlap_keep(op, a['size']), a['score']
                must = keep
                score = lambda lv, rv: len(set(T(lv)) & set(T(rv)))
            elif self.kind == 'overlap-join':
                from py_stringsimjoin.join.overlap_join_py import overlap_join_py
                op = op_of(case)
                out = overlap_join_py(tabs[0], tabs[1], kw['l_key_attr'], kw['r_key_attr'], kw['l_attr'], kw['r_attr'],
                                      tok, a['size'], op, a['allow_missing'], louts, routs, a['lp'], a['rp'],
                                      a['score'], a['n_jobs'], False)
                keep, with_score = overlap_keep(op, a['size']), a['score']
                must = keep
                score = lambda lv, rv: len(set(T(lv)) & set(T(rv)))
            elif self.kind in ('prefix-filter', 'position-filter'):
                import py_stringsimjoin as ssj
                from py_stringsimjoin.filter.filter_utils import get_size_lower_bound as lb_, get_size_upper_bound as ub_
                M = measure_of(case)
                cls = ssj.PrefixFilter if self.kind == 'prefix-filter' else ssj.PositionFilter
                f = cls(tok, M, a['t'], a['allow_empty'], a['allow_missing'])
                out = f.filter_tables(tabs[0], tabs[1], kw['l_key_attr'], kw['r_key_attr'], kw['l_attr'], kw['r_attr'],
                                      louts, routs, a['lp'], a['rp'], a['n_jobs'], False)
                t = a['t']
                positional = self.kind == 'position-filter'

                def keep(lv, rv):      # C14: a common token (and, for the position filter, the size window); C09
                    x, y = set(T(lv)), set(T(rv))
                    if not x and not y:
                        return a['allow_empty']
                    if not (x & y):
                        return False
                    return (lb_(len(y), M, t) <= len(x) <= ub_(len(y), M, t)) if positional else True
                q_ = qualifies(M, t)

                def must(lv, rv):      # C04 / C09
                    if not T(lv) and not T(rv):
                        return a['allow_empty']
                    return q_(lv, rv)
                score = None
            else:
                from py_stringsimjoin.filter.size_filter import SizeFilter
                M = measure_of(case)
                f = SizeFilter(tok, M, a['t'], a['allow_empty'], a['allow_missing'])
                out = f.filter_tables(tabs[0], tabs[1], kw['l_key_attr'], kw['r_key_attr'], kw['l_attr'], kw['r_attr'],
                                      louts, routs, a['lp'], a['rp'], a['n_jobs'], False)
                from py_stringsimjoin.filter.filter_utils import get_size_lower_bound as lb_, get_size_upper_bound as ub_
                t = a['t']

                def keep(lv, rv):      # table level: the window of the RIGHT (probe) count admits the left
                    x, y = len(T(lv)), len(T(rv))
                    if x == 0 and y == 0:
                        return a['allow_empty']
                    if x == 0 or (y == 0 and a['allow_empty']):
                        return False
                    return lb_(y, M, t) <= x <= ub_(y, M, t) and lb_(y, M, t) <= y
                q_ = qualifies(M, t)
                must = lambda lv, rv: keep(lv, rv) or q_(lv, rv)
                score = None
        except Exception as e:
            if expect is None:
                return 'valid call raised %s: %s' % (type(e).__name__, e)
            if not isinstance(e, expect):
                return 'expected %s, got %s: %s' % (expect.__name__, type(e).__name__, e)
            if tok.get_return_set() != set_mode:
                return 'rejected call left the tokenizer in %s mode' % ('set' if tok.get_return_set() else 'bag')
            return None
        if expect is not None:
            return 'invalid argument (%s) accepted' % bad
        if tok.get_return_set() != set_mode:
            return 'tokenizer return_set changed from %r to %r' % (set_mode, tok.get_return_set())
        if not lt.equals(lt0) or not rt.equals(rt0) or list(lt.index) != list(lt0.index):
            return 'an input table was modified'
        lrows, rrows = lt.values.tolist(), rt.values.tolist()
        lcols, rcols = list(lt.columns), list(rt.columns)
        lv = lambda i: lrows[i][lcols.index('v')]
        rv = lambda j: rrows[j][rcols.index('w')]

        def may(i, j):
            if miss(lv(i)) or miss(rv(j)):
                return a['allow_missing']
            return keep(lv(i), rv(j))

        def must_(i, j):
            if miss(lv(i)) or miss(rv(j)):
                return a['allow_missing']
            return must(lv(i), rv(j))

        def score_(i, j):
            if miss(lv(i)) or miss(rv(j)):
                return float('nan')
            return score(lv(i), rv(j))
        dl = None if louts is None else ['lx', 'v']
        dr = None if routs is None else ['ry', 'id']
        return check_rows(out.values.tolist(), list(out.columns), lrows, rrows, lcols, rcols, 'id', 'rid', dl, dr,
                          a['lp'], a['rp'], score_, must_, may, with_score, with_id=True)


oracle(OVF + 'OverlapFilter.filter_tables')(type('OverlapTables', (_Tables,), {'kind': 'overlap-filter'}))
oracle(SZF + 'SizeFilter.filter_tables')(type('SizeTables', (_Tables,), {'kind': 'size-filter'}))
oracle('py_stringsimjoin.join.overlap_join_py.overlap_join_py')(type('OverlapJoin', (_Tables,), {'kind': 'overlap-join'}))
PXF_ = 'py_stringsimjoin.filter.prefix_filter.'
PSF_ = 'py_stringsimjoin.filter.position_filter.'
oracle(PXF_ + 'PrefixFilter.filter_tables')(type('PrefixTables', (_Tables,), {'kind': 'prefix-filter'}))
oracle(PSF_ + 'PositionFilter.filter_tables')(type('PositionTables', (_Tables,), {'kind': 'position-filter'}))
alias(PXF_ + '_filter_tables_split', PXF_ + 'PrefixFilter.filter_tables')
alias(PSF_ + '_filter_tables_split', PSF_ + 'PositionFilter.filter_tables')
# internal functions without an oracle of their own are searched through the entry point that runs them
for _q in ('_filter_tables_split', 'OverlapFilter.find_candidates', 'OverlapFilter.__init__'):
    alias(OVF + _q, OVF + 'OverlapFilter.filter_tables')
for _q in ('InvertedIndex.build', 'InvertedIndex.__init__'):
    alias('py_stringsimjoin.index.inverted_index.' + _q, OVF + 'OverlapFilter.filter_tables')
    alias('py_stringsimjoin.index.inverted_index.' + _q, 'py_stringsimjoin.join.overlap_coefficient_join_py.overlap_coefficient_join_py')
alias('py_stringsimjoin.utils.simfunctions.overlap', OVF + 'OverlapFilter.filter_pair')
for _q in ('_filter_tables_split', 'SizeFilter.find_candidates', 'SizeFilter.__init__'):
    alias(SZF + _q, SZF + 'SizeFilter.filter_tables')
for _q in ('SizeIndex.build', 'SizeIndex.__init__'):
    alias('py_stringsimjoin.index.size_index.' + _q, SZF + 'SizeFilter.filter_tables')


# ----------------------------------------------------------------------------- filter_candset
def gen_candset_inputs(rng, tier, n):
    for _ in range(n):
        l = gen_strings(rng, rng.randint(1, 5))
        r = gen_strings(rng, rng.randint(1, 5))
        pairs = [(i, j) for i in range(len(l)) for j in range(len(r)) if rng.random() < 0.6]
        rng.shuffle(pairs)
        yield dict(l=l, r=r, pairs=pairs, t=rng.choice(THR), size=rng.choice([1, 1, 2, 3]),
                   allow_missing=rng.random() < 0.5, allow_empty=rng.random() < 0.5, n_jobs=rng.choice([1, 1, 2, 3, -1]),
                   which=rng.choice(['overlap', 'size', 'prefix', 'position', 'suffix']),
                   M=rng.choice(['JACCARD', 'COSINE', 'DICE']), op=rng.choice(['>=', '>', '=']),
                   score=rng.random() < 0.5, outs=rng.random() < 0.5, cache=rng.random() < 0.5,
                   comp=rng.choice(['>=', '>', '<=', '<', '=', '!=']), tokenized=rng.random() < 0.6,
                   selfjoin=rng.random() < 0.25, dupidx=rng.random() < 0.3,
                   # numeric keys: int64 ids beyond 2**53 in a candidate set whose columns are all numeric
                   # (ids + float score): anything that moves rows through a float array confuses them
                   numkeys=rng.random() < 0.25)


def _candset(a):
    import pandas as pd
    n_ = len(a['pairs'])
    # index labels may repeat (a candidate set concatenated from several filter_tables results)
    idx = [100 + 7 * (k % max(1, (n_ + 1) // 2)) for k in range(n_)] if a.get('dupidx') else [100 + 7 * k for k in range(n_)]
    return pd.DataFrame({'_id': pd.Series([5 + 2 * k for k in range(len(a['pairs']))], index=idx, dtype=object),
                         'note': pd.Series(['n%d' % k for k in range(len(a['pairs']))], index=idx, dtype=object),
                         'l_id': pd.Series(['l%d' % i for i, _ in a['pairs']], index=idx, dtype=object),
                         'r_rid': pd.Series(['r%d' % j for _, j in a['pairs']], index=idx, dtype=object)},
                        columns=['_id', 'note', 'l_id', 'r_rid'], index=idx)


def _make_filter(a):
    from py_stringmatching import WhitespaceTokenizer
    import py_stringsimjoin as ssj
    tok = WhitespaceTokenizer(return_set=True)
    if a['which'] == 'overlap':
        return ssj.OverlapFilter(tok, a['size'], a['op'], a['allow_missing'])
    cls = dict(size=ssj.SizeFilter, prefix=ssj.PrefixFilter, position=ssj.PositionFilter, suffix=ssj.SuffixFilter)[a['which']]
    return cls(tok, a['M'], a['t'], a['allow_empty'], a['allow_missing'])


@oracle(FLT + 'Filter.filter_candset')
class FilterCandset(object):
    def inputs(self, case, rng, model, tier):
        for a in gen_candset_inputs(rng, tier, 200 if tier != 'thorough' else 2000):
            yield a

    def check(self, case, a):
        lt, rt = _frames(a)
        cs = _candset(a)
        if a.get('numkeys'):
            import pandas as pd
            B = 2 ** 53
            lt['id'] = pd.Series([B + 1 + i for i in range(len(lt))], index=lt.index, dtype='int64')
            rt['rid'] = pd.Series([B + 1 + 2 * j for j in range(len(rt))], index=rt.index, dtype='int64')
            cs = pd.DataFrame({'l_id': pd.Series([B + 1 + i for i, _ in a['pairs']], index=cs.index, dtype='int64'),
                               'r_rid': pd.Series([B + 1 + 2 * j for _, j in a['pairs']], index=cs.index, dtype='int64'),
                               '_sim_score': pd.Series([0.5 + k / 64.0 for k in range(len(cs))], index=cs.index, dtype=float)},
                              columns=['l_id', 'r_rid', '_sim_score'], index=cs.index)
        lt0, rt0, cs0 = lt.copy(deep=True), rt.copy(deep=True), cs.copy(deep=True)
        f = _make_filter(a)
        out = f.filter_candset(cs, 'l_id', 'r_rid', lt, rt, 'id', 'rid', 'v', 'w', a['n_jobs'], False)
        if not lt.equals(lt0) or not rt.equals(rt0) or not cs.equals(cs0):
            return 'an input table was modified'
        keep = [k for k, (i, j) in enumerate(a['pairs']) if not f.filter_pair(a['l'][i], a['r'][j])]
        want = cs0.iloc[keep]
        if list(out.columns) != list(cs0.columns):
            return 'columns %r, expected %r' % (list(out.columns), list(cs0.columns))
        if out.values.tolist() != want.values.tolist() or list(out.index) != list(want.index):
            return '%s filter_candset kept rows %r (index %r), expected %r (index %r)' % (
                a['which'], out.values.tolist(), list(out.index), want.values.tolist(), list(want.index))
        return None


alias(FLT + '_filter_candset_split', FLT + 'Filter.filter_candset')
alias(GH + 'build_dict_from_table', FLT + 'Filter.filter_candset')


# ----------------------------------------------------------------------------- apply_matcher
@oracle(MAT + 'apply_matcher')
class ApplyMatcher(object):
    def inputs(self, case, rng, model, tier):
        for a in gen_candset_inputs(rng, tier, 300 if tier != 'thorough' else 3000):
            if a['cache']:      # the token cache is used when len(ltable) + len(rtable) < 2 * len(candset)
                while len(a['pairs']) * 2 <= len(a['l']) + len(a['r']) and len(a['pairs']) < len(a['l']) * len(a['r']):
                    cand = [(i, j) for i in range(len(a['l'])) for j in range(len(a['r'])) if (i, j) not in a['pairs']]
                    a['pairs'].append(cand[0])
            # C15: an invalid key column (duplicate or missing key) is rejected whatever the candidate set holds,
            # an empty one included
            if rng.random() < 0.2 and not a.get('selfjoin'):
                a['badkey'] = rng.choice(['l_dup', 'r_dup', 'l_nan', 'r_nan'])
                if rng.random() < 0.5:
                    a['pairs'] = []
            yield a

    def check_badkey(self, a, op, tokenized):
        import numpy as np
        from py_stringmatching import WhitespaceTokenizer
        from py_stringsimjoin.matcher.apply_matcher import apply_matcher
        lt, rt = _frames(a)
        cs = _candset(a)
        side, kind = a['badkey'].split('_')
        tbl, key = (lt, 'id') if side == 'l' else (rt, 'rid')
        if kind == 'dup' and len(tbl) < 2:
            return None
        col = tbl[key].tolist()
        col[-1] = col[0] if kind == 'dup' else np.nan
        tbl[key] = col
        tok = WhitespaceTokenizer(return_set=True) if tokenized else None
        try:
            apply_matcher(cs, 'l_id', 'r_rid', lt, rt, 'id', 'rid', 'v', 'w', tok, (lambda x, y: 1.0), a['t'], op,
                          a['allow_missing'], None, None, 'l_', 'r_', a['score'], a['n_jobs'], False)
        except AssertionError:
            return None
        return 'apply_matcher accepted a %s table whose key column has a %s key (candidate set of %d rows)' % (
            'left' if side == 'l' else 'right', 'duplicate' if kind == 'dup' else 'missing', len(cs))

    def check(self, case, a):
        from py_stringmatching import WhitespaceTokenizer
        from py_stringsimjoin.matcher.apply_matcher import apply_matcher
        m = re.match(r'(>=|<=|!=|=>|>|<|=)-(tokenizer|no-tokenizer|none|direct|cache)', case or '')
        op = m.group(1) if m and m.group(1) in OPS else a['comp']
        tokenized = (m.group(2) not in ('no-tokenizer', 'none')) if m else a['tokenized']
        if a.get('selfjoin'):
            return self.check_selfjoin(a, op, tokenized)
        if a.get('badkey'):
            return self.check_badkey(a, op, tokenized)
        lt, rt = _frames(a)
        cs = _candset(a)
        lt0, rt0, cs0 = lt.copy(deep=True), rt.copy(deep=True), cs.copy(deep=True)
        tok = WhitespaceTokenizer(return_set=True) if tokenized else None
        calls = []
        if tokenized:
            def simf(x, y):
                calls.append((tuple(x), tuple(y)))
                sx, sy = set(x), set(y)
                return float(len(sx & sy)) / len(sx | sy) if (sx or sy) else 1.0
        else:
            def simf(x, y):
                calls.append((x, y))
                return float(abs(len(x) - len(y))) / 4
        louts, routs = ((['lx', 'id', 'v', 'lx'], ['ry', 'rid', 'id', 'ry']) if a['outs'] else (None, None))
        out = apply_matcher(cs, 'l_id', 'r_rid', lt, rt, 'id', 'rid', 'v', 'w', tok, simf, a['t'], op, a['allow_missing'],
                            louts, routs, 'l_', 'r_', a['score'], a['n_jobs'], False)
        if not lt.equals(lt0) or not rt.equals(rt0) or not cs.equals(cs0):
            return 'an input table was modified'
        if len(cs0) == 0:
            return None if out.equals(cs0) else 'empty candidate set not returned as is'
        want_rows = []
        lrows, rrows = lt.values.tolist(), rt.values.tolist()
        for k, (i, j) in enumerate(a['pairs']):
            lv, rv = a['l'][i], a['r'][j]
            if miss(lv) or miss(rv):
                if not a['allow_missing']:
                    continue
                sc = float('nan')
            else:
                sc = simf(T(lv), T(rv)) if tokenized else simf(lv, rv)
                if not OPS[op](sc, a['t']):
                    continue
            row = [5 + 2 * k, 'l%d' % i, 'r%d' % j]
            if louts:
                row += [lrows[i][0], lrows[i][2]]        # lx, v
            if routs:
                row += [rrows[j][2], rrows[j][3]]
            if a['score']:
                row.append(sc)
            want_rows.append(row)
        header = ['_id', 'l_id', 'r_rid'] + (['l_lx', 'l_v'] if louts else []) + (['r_ry', 'r_id'] if routs else []) + \
                 (['_sim_score'] if a['score'] else [])
        if list(out.columns) != header:
            return 'header %r, expected %r' % (list(out.columns), header)
        got = out.values.tolist()
        same = lambda x, y: x == y or (miss(x) and miss(y))
        if len(got) != len(want_rows) or not all(len(g) == len(w) and all(same(x, y) for x, y in zip(g, w))
                                                 for g, w in zip(got, want_rows)):
            return 'apply_matcher [%s, tokenizer=%r, n_jobs=%r] returned rows %r, expected %r' % (
                op, tokenized, a['n_jobs'], got, want_rows)
        return None


def _check_selfjoin(self, a, op, tokenized):
    """the same DataFrame object on both sides, matched on two different columns"""
    import pandas as pd
    from py_stringmatching import WhitespaceTokenizer
    from py_stringsimjoin.matcher.apply_matcher import apply_matcher
    vals = a['l'] + a['r']
    n = len(vals)
    idx = [3 + 2 * i for i in range(n)]
    T_ = pd.DataFrame({'id': pd.Series(['k%d' % i for i in range(n)], index=idx, dtype=object),
                       'name': pd.Series(vals, index=idx, dtype=object),
                       'alias': pd.Series(list(reversed(vals)), index=idx, dtype=object)}, index=idx)
    pairs = [(i, j) for i in range(n) for j in range(n) if (i * 7 + j * 3) % 4 != 0]
    cs = pd.DataFrame({'_id': pd.Series(list(range(10, 10 + len(pairs))), dtype=object),
                       'l_id': pd.Series(['k%d' % i for i, _ in pairs], dtype=object),
                       'r_id': pd.Series(['k%d' % j for _, j in pairs], dtype=object)}, columns=['_id', 'l_id', 'r_id'])
    T0, cs0 = T_.copy(deep=True), cs.copy(deep=True)
    tok = WhitespaceTokenizer(return_set=True) if tokenized else None
    if tokenized:
        simf = lambda x, y: float(len(set(x) & set(y))) / len(set(x) | set(y)) if (set(x) or set(y)) else 1.0
    else:
        simf = lambda x, y: float(abs(len(x) - len(y))) / 4
    out = apply_matcher(cs, 'l_id', 'r_id', T_, T_, 'id', 'id', 'name', 'alias', tok, simf, a['t'], op,
                        a['allow_missing'], None, None, 'l_', 'r_', True, a['n_jobs'], False)
    if not T_.equals(T0) or not cs.equals(cs0):
        return 'an input table was modified'
    if len(cs0) == 0:
        return None if out.equals(cs0) else 'empty candidate set not returned as is'
    want = []
    rev = list(reversed(vals))
    for k, (i, j) in enumerate(pairs):
        lv, rv = vals[i], rev[j]
        if miss(lv) or miss(rv):
            if not a['allow_missing']:
                continue
            sc = float('nan')
        else:
            sc = simf(T(lv), T(rv)) if tokenized else simf(lv, rv)
            if not OPS[op](sc, a['t']):
                continue
        want.append([10 + k, 'k%d' % i, 'k%d' % j, sc])
    got = out.values.tolist()
    same = lambda x, y: x == y or (miss(x) and miss(y))
    if list(out.columns) != ['_id', 'l_id', 'r_id', '_sim_score'] or len(got) != len(want) or \
            not all(all(same(x, y) for x, y in zip(g, w)) for g, w in zip(got, want)):
        return 'apply_matcher self-join [%s, tokenizer=%r, n_jobs=%r] returned %r, expected %r' % (
            op, tokenized, a['n_jobs'], got, want)
    return None


ApplyMatcher.check_selfjoin = _check_selfjoin
alias(MAT + '_apply_matcher_split', MAT + 'apply_matcher')
alias(MAT + 'generate_tokens', MAT + 'apply_matcher')


# ----------------------------------------------------------------------------- generic helpers
def _names(rng, n):
    return [rng.choice(['id', 'a', 'b', 'c', 'v']) for _ in range(n)]


@oracle(GH + 'remove_redundant_attrs')
class RemoveRedundant(object):
    def inputs(self, case, rng, model, tier):
        yield dict(out=None, key='id')
        for _ in range(3000):
            yield dict(out=_names(rng, rng.randint(0, 6)), key=rng.choice(['id', 'a']))

    def check(self, case, a):
        from py_stringsimjoin.utils.generic_helper import remove_redundant_attrs
        src = None if a['out'] is None else list(a['out'])
        got = remove_redundant_attrs(a['out'], a['key'])
        if a['out'] != src:
            return 'input list modified'
        if src is None:
            return None if got is None else 'None not passed through: %r' % (got,)
        want = []
        for x in src:
            if x != a['key'] and x not in want:
                want.append(x)
        return None if got == want else 'remove_redundant_attrs(%r, %r) = %r, expected %r' % (src, a['key'], got, want)


@oracle(GH + 'get_attrs_to_project')
class AttrsToProject(object):
    def inputs(self, case, rng, model, tier):
        yield dict(out=None, key='id', join='v')
        for _ in range(3000):
            yield dict(out=[x for x in dict.fromkeys(_names(rng, rng.randint(0, 5))) if x != 'id'], key='id',
                       join=rng.choice(['v', 'a']))

    def check(self, case, a):
        from py_stringsimjoin.utils.generic_helper import get_attrs_to_project
        got = get_attrs_to_project(a['out'], a['key'], a['join'])
        if got[:2] != [a['key'], a['join']]:
            return 'projection %r does not start with key and join attribute' % (got,)
        want = set([a['key'], a['join']] + (a['out'] or []))
        if set(got) != want or len(got) != len(set(got)):
            return 'get_attrs_to_project(%r, %r, %r) = %r, expected the distinct attributes %r' % (
                a['out'], a['key'], a['join'], got, sorted(want))
        return None


@oracle(GH + 'find_output_attribute_indices')
class FindIndices(object):
    def inputs(self, case, rng, model, tier):
        yield dict(cols=['id', 'v'], outs=None)
        for _ in range(3000):
            cols = rng.sample(['id', 'a', 'b', 'c', 'v'], rng.randint(1, 5))
            yield dict(cols=cols, outs=[rng.choice(cols) for _ in range(rng.randint(0, 4))])

    def check(self, case, a):
        from py_stringsimjoin.utils.generic_helper import find_output_attribute_indices
        got = find_output_attribute_indices(a['cols'], a['outs'])
        want = [] if a['outs'] is None else [a['cols'].index(x) for x in a['outs']]
        return None if list(got) == want else 'find_output_attribute_indices(%r, %r) = %r, expected %r' % (
            a['cols'], a['outs'], got, want)


@oracle(GH + 'get_output_row_from_tables')
class OutputRow(object):
    def inputs(self, case, rng, model, tier):
        for _ in range(3000):
            nl, nr = rng.randint(1, 5), rng.randint(1, 5)
            yield dict(l=['l%d' % i for i in range(nl)], r=['r%d' % i for i in range(nr)], lk=rng.randrange(nl),
                       rk=rng.randrange(nr), lo=[rng.randrange(nl) for _ in range(rng.randint(0, 3))],
                       ro=[rng.randrange(nr) for _ in range(rng.randint(0, 3))])

    def check(self, case, a):
        from py_stringsimjoin.utils.generic_helper import get_output_row_from_tables
        got = get_output_row_from_tables(a['l'], a['r'], a['lk'], a['rk'], a['lo'], a['ro'])
        want = [a['l'][a['lk']], a['r'][a['rk']]] + [a['l'][i] for i in a['lo']] + [a['r'][i] for i in a['ro']]
        return None if list(got) == want else 'get_output_row_from_tables(...) = %r, expected %r' % (got, want)


@oracle(GH + 'get_output_header_from_tables')
class OutputHeader(object):
    def inputs(self, case, rng, model, tier):
        for _ in range(2000):
            yield dict(lk='id', rk='rid', lo=rng.choice([None, _names(rng, rng.randint(0, 3))]),
                       ro=rng.choice([None, _names(rng, rng.randint(0, 3))]), lp=rng.choice(['l_', '']), rp='r_')

    def check(self, case, a):
        from py_stringsimjoin.utils.generic_helper import get_output_header_from_tables
        got = get_output_header_from_tables(a['lk'], a['rk'], a['lo'], a['ro'], a['lp'], a['rp'])
        want = [a['lp'] + a['lk'], a['rp'] + a['rk']] + [a['lp'] + x for x in (a['lo'] or [])] + \
               [a['rp'] + x for x in (a['ro'] or [])]
        return None if list(got) == want else 'get_output_header_from_tables(...) = %r, expected %r' % (got, want)


@oracle(GH + 'split_table')
class SplitTable(object):
    def inputs(self, case, rng, model, tier):
        for n in range(0, 40):
            for k in range(1, 12):
                yield dict(n=n, k=k, frame=False)
        for _ in range(300):
            yield dict(n=rng.randint(0, 2000), k=rng.randint(1, 64), frame=rng.random() < 0.3)

    def check(self, case, a):
        import pandas as pd
        from py_stringsimjoin.utils.generic_helper import split_table
        n, k = a['n'], a['k']
        if k > max(n, 1):
            return None
        src = list(range(n))
        table = pd.DataFrame({'x': src}) if a['frame'] else [[x] for x in src]
        parts = split_table(table, k)
        if len(parts) != k:
            return 'split_table(%d rows, %d) returned %d chunks' % (n, k, len(parts))
        flat = []
        for p in parts:
            flat += (list(p['x']) if a['frame'] else [r[0] for r in p])
        if flat != src:
            return 'split_table(%d rows, %d): the chunks concatenated are %r, not the table in order' % (n, k, flat[:50])
        return None


@oracle(GH + 'get_num_processes_to_launch')
class NumProcesses(object):
    def inputs(self, case, rng, model, tier):
        for n in range(-80, 80):
            yield dict(n=n)

    def check(self, case, a):
        import multiprocessing
        from py_stringsimjoin.utils.generic_helper import get_num_processes_to_launch
        n = a['n']
        got = get_num_processes_to_launch(n)
        want = n if n >= 1 else (1 if n == 0 else max(1, multiprocessing.cpu_count() + 1 + n))
        return None if got == want else 'get_num_processes_to_launch(%d) = %r, expected %r' % (n, got, want)


# internals of the overlap-coefficient and edit-distance joins and of the prefix filter stack
OVJ = 'py_stringsimjoin.join.overlap_coefficient_join_py.'
EDJ = 'py_stringsimjoin.join.edit_distance_join_py.'
alias(OVJ + '_overlap_coefficient_join_split', OVJ + 'overlap_coefficient_join_py')
alias(EDJ + '_edit_distance_join_split', EDJ + 'edit_distance_join_py')
for _q in ('py_stringsimjoin.index.prefix_index.PrefixIndex.build', 'py_stringsimjoin.index.prefix_index.PrefixIndex.__init__',
           'py_stringsimjoin.filter.prefix_filter.PrefixFilter.find_candidates',
           'py_stringsimjoin.filter.prefix_filter.PrefixFilter.__init__'):
    alias(_q, EDJ + 'edit_distance_join_py')
    alias(_q, PXF_ + 'PrefixFilter.filter_tables')
for _q in ('PositionIndex.build', 'PositionIndex.__init__'):
    alias('py_stringsimjoin.index.position_index.' + _q, PSF_ + 'PositionFilter.filter_tables')
    alias('py_stringsimjoin.index.position_index.' + _q, 'py_stringsimjoin.join.jaccard_join_py.jaccard_join_py')
alias(PSF_ + 'PositionFilter.find_candidates', PSF_ + 'PositionFilter.filter_tables')
alias('py_stringsimjoin.join.set_sim_join.set_sim_join', 'py_stringsimjoin.join.jaccard_join_py.jaccard_join_py')


# ----------------------------------------------------------------------------- filter constructors (C15)
class _FilterInit(object):
    cls_name = None

    def inputs(self, case, rng, model, tier):
        for name in ('JACCARD', 'jaccard', 'Cosine', 'DICE', 'OVERLAP', 'overlap', 'Overlap', 'EDIT_DISTANCE', 'edit_distance',
                     'Edit_Distance', 'LEVENSHTEIN', ''):
            for tok in ('ws', 'qgram', 'none'):
                for t in (0, 1, 2, 0.5, 1.0, 1.5, -1):
                    yield dict(name=name, tok=tok, t=t)

    def check(self, case, a):
        import py_stringsimjoin as ssj
        from py_stringmatching import WhitespaceTokenizer, QgramTokenizer
        cls = getattr(ssj, self.cls_name)
        tok = {'ws': WhitespaceTokenizer(return_set=True), 'qgram': QgramTokenizer(qval=2), 'none': 'not a tokenizer'}[a['tok']]
        M = a['name'].upper()
        if M not in ('JACCARD', 'COSINE', 'DICE', 'OVERLAP', 'EDIT_DISTANCE'):
            expect = TypeError
        elif a['tok'] == 'none':
            expect = TypeError
        elif M == 'EDIT_DISTANCE' and a['tok'] != 'qgram':
            expect = AssertionError
        elif (M == 'EDIT_DISTANCE' and a['t'] < 0) or (M == 'OVERLAP' and a['t'] <= 0) or \
                (M in ('JACCARD', 'COSINE', 'DICE') and not (0 < a['t'] <= 1)):
            expect = AssertionError
        else:
            expect = None
        try:
            f = cls(tok, a['name'], a['t'])
        except Exception as e:
            if expect is None:
                return '%s(%s tokenizer, %r, %r) is a valid call but raised %s: %s' % (self.cls_name, a['tok'], a['name'], a['t'], type(e).__name__, e)
            return None if isinstance(e, expect) else '%s(%s, %r, %r): expected %s, got %s' % (
                self.cls_name, a['tok'], a['name'], a['t'], expect.__name__, type(e).__name__)
        if expect is not None:
            return '%s(%s tokenizer, %r, %r) accepted an invalid argument (expected %s)' % (
                self.cls_name, a['tok'], a['name'], a['t'], expect.__name__)
        if f.sim_measure_type != M:
            return 'sim_measure_type stored as %r' % (f.sim_measure_type,)
        return None


for _c, _m in (('SizeFilter', 'size_filter'), ('PrefixFilter', 'prefix_filter'), ('PositionFilter', 'position_filter')):
    oracle('py_stringsimjoin.filter.%s.%s.__init__' % (_m, _c))(type(_c + 'Init', (_FilterInit,), {'cls_name': _c}))
