"""Witnesses of the recorded known findings (known_findings.json): each function reproduces one
finding on the real code and returns a description if the defect is still there, None if not."""
import warnings
warnings.filterwarnings('ignore')


def D8():
    from py_stringsimjoin.filter.filter_utils import get_size_upper_bound
    out = []
    for M, t in (('JACCARD', 1e-308), ('DICE', 1e-308), ('COSINE', 1e-162), ('COSINE', 1e-160)):
        try:
            get_size_upper_bound(25, M, t)
        except (OverflowError, ZeroDivisionError) as e:
            out.append('get_size_upper_bound(25, %r, %r) -> %s' % (M, t, type(e).__name__))
    return '; '.join(out) or None


def D10():
    import pandas as pd
    from py_stringmatching import WhitespaceTokenizer
    from py_stringsimjoin.join.jaccard_join_py import jaccard_join_py
    A = pd.DataFrame({'id': [0, 1], 'v': pd.Series(['a b c', 'x y'], dtype=object)})
    B = pd.DataFrame({'id': [0, 1], 'v': pd.Series(['a b c', 'x z'], dtype=object)})
    tok = WhitespaceTokenizer(return_set=False)
    try:
        jaccard_join_py(A, B, 'id', 'id', 'v', 'v', tok, 0.5, l_out_prefix='_', show_progress=False)
    except ValueError as e:
        return "jaccard_join_py(l_key_attr='id', l_out_prefix='_') -> ValueError(%s); tokenizer return_set left %r" \
               % (e, tok.get_return_set())
    return None


def D2():
    from py_stringmatching import WhitespaceTokenizer
    from py_stringsimjoin.filter.suffix_filter import SuffixFilter
    f = SuffixFilter(WhitespaceTokenizer(return_set=True), 'JACCARD', 0.4)
    if f.filter_pair('a b c d', 'a b c d e f g h'):
        return "SuffixFilter(JACCARD, 0.4).filter_pair('a b c d', 'a b c d e f g h') drops a pair with similarity 0.5"
    return None


def D11():
    from py_stringmatching import WhitespaceTokenizer
    from py_stringsimjoin.filter.size_filter import SizeFilter
    f = SizeFilter(WhitespaceTokenizer(return_set=True), 'COSINE', 0.005)
    if f.filter_pair('a', '') is False:
        return ("SizeFilter(COSINE, 0.005).filter_pair('a', '') keeps a pair whose best attainable similarity is 0 "
                "(while filter_pair('', 'a') drops it)")
    return None


FINDINGS = {'D8': D8, 'D10': D10, 'D2': D2, 'D11': D11}
