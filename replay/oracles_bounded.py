"""Bounded stand-ins: executable forms of the contracts whose status is `bounded` (not yet
discharged deductively), evaluated on the real code over an exhaustive small scope plus seeded
random larger cases.  Labelled bounded in the evidence, never counted as proved.

Scope (quick / thorough): token universe of 5 / 6 tokens, all non-empty... see each oracle.
"""
import itertools
import math
import random
from replay.registry import oracle
from replay.oracles_arith import sim, required

TO = 'py_stringsimjoin.utils.token_ordering.'


class Tok(object):
    """a set-mode whitespace tokenizer stand-in with the py_stringmatching interface"""

    def __init__(self, return_set=True, qval=2):
        self.return_set = return_set
        self.qval = qval

    def tokenize(self, s):
        t = s.split()
        if self.return_set:
            seen, out = set(), []
            for x in t:
                if x not in seen:
                    seen.add(x)
                    out.append(x)
            return out
        return t

    def get_return_set(self):
        return self.return_set

    def set_return_set(self, v):
        self.return_set = v
        return True


def real_tokenizer(return_set=True):
    from py_stringmatching import WhitespaceTokenizer
    return WhitespaceTokenizer(return_set=return_set)


def subsets(universe, maxlen=None):
    for k in range(0, (maxlen if maxlen is not None else len(universe)) + 1):
        for c in itertools.combinations(universe, k):
            yield list(c)


def small_tables(rng, tier, n_tables):
    """pairs of small tables over a small token universe with skewed frequencies"""
    uni = ['a', 'b', 'c', 'd', 'e', 'f', 'g', 'h']
    for _ in range(n_tables):
        k = rng.choice([3, 4, 5, 6, 8])
        u = uni[:k]
        nl, nr = rng.randint(0, 5), rng.randint(0, 5)
        mk = lambda: ' '.join(rng.sample(u, rng.randint(0, k)))
        yield [mk() for _ in range(nl)], [mk() for _ in range(nr)]


@oracle(TO + 'gen_token_ordering_for_tables')
class OrderingForTables(object):
    def inputs(self, case, rng, model, tier):
        for lt, rt in small_tables(rng, tier, 400 if tier != 'thorough' else 4000):
            yield dict(l=lt, r=rt)

    def check(self, case, a):
        from py_stringsimjoin.utils.token_ordering import gen_token_ordering_for_tables
        tok = real_tokenizer()
        lt = [(i, s) for i, s in enumerate(a['l'])]
        rt = [(i, s) for i, s in enumerate(a['r'])]
        o = gen_token_ordering_for_tables([lt, rt], [1, 1], tok, 'JACCARD')
        for tbl in (lt, rt):
            for row in tbl:
                for w in tok.tokenize(row[1]):
                    if w not in o:
                        return 'token %r of %r has no rank' % (w, row[1])
        if len(set(o.values())) != len(o):
            return 'ordering not injective: %r' % (o,)
        if any(v < 1 for v in o.values()):
            return 'rank below 1'
        # frequency-then-alphabetical (C10): rank order == (frequency, token) order
        freq = {}
        for tbl in (lt, rt):
            for row in tbl:
                for w in tok.tokenize(row[1]):
                    freq[w] = freq.get(w, 0) + 1
        want = sorted(freq, key=lambda w: (freq[w], w))
        got = sorted(o, key=lambda w: o[w])
        if want != got:
            return 'token order %r is not (frequency, token) order %r' % (got, want)
        return None


@oracle(TO + 'order_using_token_ordering')
class OrderUsing(object):
    def inputs(self, case, rng, model, tier):
        uni = ['a', 'b', 'c', 'd', 'e', 'f']
        for n in range(0, 7):
            for toks in itertools.permutations(uni, n) if n <= 3 else [tuple(rng.sample(uni, n)) for _ in range(60)]:
                for _ in range(3):
                    ranked = rng.sample(uni, rng.randint(0, 6))
                    o = dict((w, i + 1) for i, w in enumerate(rng.sample(ranked, len(ranked))))
                    yield dict(tokens=list(toks), ordering=o)

    def check(self, case, a):
        from py_stringsimjoin.utils.token_ordering import order_using_token_ordering
        res = order_using_token_ordering(list(a['tokens']), dict(a['ordering']))
        want = sorted(a['ordering'][w] for w in a['tokens'] if w in a['ordering'])
        if res != want:
            return 'ranks %r, expected sorted ranks of the ranked tokens %r' % (res, want)
        return None

    def decode(self, a):
        return a


PI = 'py_stringsimjoin.index.position_index.PositionIndex.'
PF = 'py_stringsimjoin.filter.position_filter.PositionFilter.'
THRESHOLDS = [0.1, 0.2, 0.25, 0.28, 0.3, 1 / 3.0, 0.4, 0.5, 0.6, 2 / 3.0, 0.7, 0.75, 0.8, 0.9, 1.0]


def build_position(ltable, M, t, tok, ordering):
    from py_stringsimjoin.index.position_index import PositionIndex
    idx = PositionIndex(ltable, 1, tok, M, t, ordering)
    return idx


@oracle(PI + 'build')
class PositionBuild(object):
    def inputs(self, case, rng, model, tier):
        M = (case or 'JACCARD-float').split('-')[0]
        for lt, rt in small_tables(rng, tier, 150 if tier != 'thorough' else 1500):
            for t in rng.sample(THRESHOLDS, 3):
                yield dict(M=M, l=lt, r=rt, t=t, ce=rng.random() < 0.5, ct=rng.random() < 0.5)

    def check(self, case, a):
        from py_stringsimjoin.utils.token_ordering import gen_token_ordering_for_tables, order_using_token_ordering
        from py_stringsimjoin.filter.filter_utils import get_prefix_length
        tok = real_tokenizer()
        lt = [(i, s) for i, s in enumerate(a['l'])]
        rt = [(i, s) for i, s in enumerate(a['r'])]
        o = gen_token_ordering_for_tables([lt, rt], [1, 1], tok, a['M'])
        idx = build_position(lt, a['M'], a['t'], tok, o)
        res = idx.build(a['ce'], a['ct'])
        X = [order_using_token_ordering(tok.tokenize(r[1]), o) for r in lt]
        if list(idx.size_cache) != [len(x) for x in X]:
            return 'size_cache %r != %r' % (idx.size_cache, [len(x) for x in X])
        if X and not (idx.min_length <= min(len(x) for x in X) and max(len(x) for x in X) <= idx.max_length):
            return 'min/max length do not bound the sizes'
        if a['ct']:
            if res['cached_tokens'] != X:
                return 'cached tokens differ from the ordered tokens'
        elif res['cached_tokens']:
            return 'tokens cached although not requested'
        want_empty = [c for c, x in enumerate(X) if len(x) == 0] if a['ce'] else []
        if res['empty_records'] != want_empty:
            return 'empty records %r != %r' % (res['empty_records'], want_empty)
        # index entries: (row, pos) for the first prefix-length tokens, rows increasing
        for c, x in enumerate(X):
            pl = get_prefix_length(len(x), a['M'], a['t'], tok)
            for p, w in enumerate(x):
                ent = idx.index.get(w, [])
                if (p < pl) != ((c, p) in ent):
                    return 'index entry (%d,%d) for token %r: expected present=%s' % (c, p, w, p < pl)
        for w, ent in idx.index.items():
            if [e[0] for e in ent] != sorted(set(e[0] for e in ent)):
                return 'entries of %r not strictly increasing in row id' % (w,)
        return None


@oracle(PF + 'find_candidates')
class PositionFind(object):
    """complete: a left row in the probe's size window whose overlap reaches the required overlap
    and both prefix conditions is returned with a positive count; sound: positive count implies a
    common token and the size window"""

    def inputs(self, case, rng, model, tier):
        M = (case or 'JACCARD').split('-')[0]
        uni = ['a', 'b', 'c', 'd', 'e', 'f', 'g']
        k = 5 if tier != 'thorough' else 6
        # exhaustive: every pair of subsets of a k-token universe, each in a context of filler rows
        for L in subsets(uni[:k]):
            for Rr in subsets(uni[:k]):
                for t in (0.2, 0.28, 1 / 3.0, 0.5, 0.6, 0.75, 0.8, 1.0):
                    filler = [' '.join(rng.sample(uni[:k], rng.randint(0, k))) for _ in range(rng.randint(0, 3))]
                    yield dict(M=M, l=[' '.join(L)] + filler, r=[' '.join(Rr)], t=t)
        for lt, rt in small_tables(rng, tier, 300 if tier != 'thorough' else 3000):
            for t in rng.sample(THRESHOLDS, 2):
                yield dict(M=M, l=lt, r=rt, t=t)

    def check(self, case, a):
        from py_stringsimjoin.utils.token_ordering import gen_token_ordering_for_tables, order_using_token_ordering
        from py_stringsimjoin.filter.position_filter import PositionFilter
        from py_stringsimjoin.filter import filter_utils as fu
        M, t = a['M'], a['t']
        tok = real_tokenizer()
        lt = [(i, s) for i, s in enumerate(a['l'])]
        rt = [(i, s) for i, s in enumerate(a['r'])]
        o = gen_token_ordering_for_tables([lt, rt], [1, 1], tok, M)
        idx = build_position(lt, M, t, tok, o)
        idx.build(True, True)
        f = PositionFilter(tok, M, t)
        X = [order_using_token_ordering(tok.tokenize(r[1]), o) for r in lt]
        for rr in rt:
            Y = order_using_token_ordering(tok.tokenize(rr[1]), o)
            res = f.find_candidates(Y, idx)
            m = len(Y)
            for c, x in enumerate(X):
                n = len(x)
                ov = len(set(x) & set(Y))
                if n == 0 or m == 0:
                    continue
                lb, ub = fu.get_size_lower_bound(m, M, t), fu.get_size_upper_bound(m, M, t)
                prem = (ov >= 1 and lb <= n <= ub and n - fu.get_prefix_length(n, M, t, tok) + 1 <= ov
                        and m - fu.get_prefix_length(m, M, t, tok) + 1 <= ov
                        and fu.get_overlap_threshold(n, m, M, t, tok) <= ov)
                if prem and not (res.get(c, 0) > 0):
                    return ('left %r right %r %s %r: premise holds (overlap %d) but candidate count %r'
                            % (lt[c][1], rr[1], M, t, ov, res.get(c)))
                if res.get(c, 0) > 0 and not (ov >= 1 and lb <= n <= ub):
                    return 'left %r right %r: returned with count %r but overlap %d / sizes outside window' \
                           % (lt[c][1], rr[1], res.get(c), ov)
            for c in res:
                if not (0 <= c < len(lt)):
                    return 'candidate id %r out of range' % (c,)
        return None


@oracle('spec.size_window_tightness')
class SizeWindowTightness(object):
    """C14 (bounded): the size window computed by the real get_size_lower_bound / get_size_upper_bound
    (SizeFilter keeps a pair iff lb(x) <= y <= ub(x): proved, contracts/size.py) admits no pair of
    counts (x, y) whose best attainable similarity is more than 1e-4 below the threshold.
    best(x, y): JACCARD min/max, DICE 2 min/(x+y), COSINE min/sqrt(x y); exact rational comparison.
    Scope: all 0 <= x, y <= N (N = 60 quick, 200 thorough), thresholds k/100, k/1000 (k < 100),
    a/b (b < 30) and small thresholds around the rounding step; plus seeded random (x, y, t).
    Case COSINE excludes y == 0 < x, the region of known finding D11, which is case COSINE-right-empty."""

    @staticmethod
    def best_below(M, x, y, t):
        from fractions import Fraction as F
        lo = min(x, y)
        d = F(t) - F(1, 10000)
        if d <= 0:
            return False
        if M == 'JACCARD':
            return F(lo, max(x, y)) < d
        if M == 'DICE':
            return F(2 * lo, x + y) < d
        return F(lo * lo, x * y) < d * d if x * y else True

    def inputs(self, case, rng, model, tier):
        M = case.split('-')[0]
        N = 200 if tier == 'thorough' else 60
        ths = sorted(set([k / 100.0 for k in range(1, 101)] + [k / 1000.0 for k in range(1, 100)] +
                         [float(a) / b for b in range(1, 30) for a in range(1, b + 1)] +
                         [0.00011, 0.0002, 0.0005, 0.005, 0.00707, 0.0071, 0.0001, 0.00015]))
        if case.endswith('right-empty'):
            for t in ths:
                for x in range(1, N):
                    yield dict(M=M, x=x, y=0, t=t)
            return
        for t in ths:
            for x in range(0, N):
                for y in range(0, N):
                    if (x == 0 and y == 0) or (M == 'COSINE' and y == 0):
                        continue
                    yield dict(M=M, x=x, y=y, t=t)
        for _ in range(200000 if tier == 'thorough' else 20000):
            x, y = rng.randint(1, 100000), rng.randint(1, 100000)
            if rng.random() < 0.5:
                y = max(1, int(x * rng.random()))
            yield dict(M=M, x=x, y=y, t=rng.choice([rng.random(), rng.random() * 0.1, round(rng.random(), 2), float(y) / x if y <= x else float(x) / y]) or 0.5)

    def check(self, case, a):
        from py_stringsimjoin.filter.filter_utils import get_size_lower_bound, get_size_upper_bound
        M, x, y, t = a['M'], a['x'], a['y'], a['t']
        kept = get_size_lower_bound(x, M, t) <= y <= get_size_upper_bound(x, M, t)
        if kept and self.best_below(M, x, y, t):
            return ('size window of %d tokens under %s %r is [%d, %d] and admits %d tokens, although the best attainable '
                    'similarity of these counts is more than 1e-4 below the threshold'
                    % (x, M, t, get_size_lower_bound(x, M, t), get_size_upper_bound(x, M, t), y))
        return None


@oracle('spec.position_refines_prefix_and_size')
class PositionRefinement(object):
    """C14 (bounded, real code against real code): the pairs PositionFilter.filter_tables keeps are a subset of
    those kept by PrefixFilter.filter_tables and by SizeFilter.filter_tables with the same parameters on the
    same tables.  Cases: a set measure (whitespace tokens, float thresholds), EDIT_DISTANCE (q-gram bags,
    integer thresholds 1..3, qval 2 / 3) and OVERLAP (integer thresholds) -- the last two modes of the
    filter classes have no contract.  Scope: seeded random tables of 1..6 rows per side, short strings over a
    small alphabet (so that q-gram counts differ by up to q*t), n_jobs 1."""

    def inputs(self, case, rng, model, tier):
        n = 6000 if tier == 'thorough' else 600
        for _ in range(n):
            if case == 'EDIT_DISTANCE':
                words = ['zurich', 'zurichs', 'zurichsee', 'zur', 'zu', 'urich', 'aurich', 'munich', 'ab', 'abab', 'ababab', 'b']
                mk = lambda: rng.choice(words) if rng.random() < 0.6 else ''.join(rng.choice('abz') for _ in range(rng.randint(1, 9)))
                yield dict(l=[mk() for _ in range(rng.randint(1, 6))], r=[mk() for _ in range(rng.randint(1, 6))],
                           t=rng.randint(1, 3), q=rng.choice((2, 2, 3)))
            else:
                uni = 'a b c d e f g'.split()
                mk = lambda: ' '.join(rng.sample(uni, rng.randint(1, 6)))
                yield dict(l=[mk() for _ in range(rng.randint(1, 6))], r=[mk() for _ in range(rng.randint(1, 6))],
                           t=rng.randint(1, 4) if case == 'OVERLAP' else rng.choice([0.3, 0.5, 0.6, 0.75, 0.8, 1.0]), q=None)

    def check(self, case, a):
        import pandas as pd
        from py_stringmatching import WhitespaceTokenizer, QgramTokenizer
        from py_stringsimjoin.filter.position_filter import PositionFilter
        from py_stringsimjoin.filter.prefix_filter import PrefixFilter
        from py_stringsimjoin.filter.size_filter import SizeFilter
        lt = pd.DataFrame({'id': list(range(len(a['l']))), 'v': pd.Series(a['l'], dtype=object)})
        rt = pd.DataFrame({'id': list(range(len(a['r']))), 'v': pd.Series(a['r'], dtype=object)})
        mk_tok = (lambda: QgramTokenizer(qval=a['q'])) if case == 'EDIT_DISTANCE' else (lambda: WhitespaceTokenizer(return_set=True))
        kept = {}
        for name, cls in (('position', PositionFilter), ('prefix', PrefixFilter), ('size', SizeFilter)):
            out = cls(mk_tok(), case, a['t']).filter_tables(lt, rt, 'id', 'id', 'v', 'v', n_jobs=1, show_progress=False)
            kept[name] = set(zip(out['l_id'], out['r_id']))
        for other in ('prefix', 'size'):
            extra = kept['position'] - kept[other]
            if extra:
                i, j = sorted(extra)[0]
                return ('PositionFilter.filter_tables [%s %r%s] keeps (%r, %r) which %sFilter.filter_tables drops'
                        % (case, a['t'], '' if a['q'] is None else ', qval=%d' % a['q'], a['l'][i], a['r'][j], other.capitalize()))
        return None
