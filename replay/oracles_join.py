"""Executable contracts of the split functions and join drivers (replay / bounded search):
the result is compared with a brute-force evaluation of the property-level predicates."""
import itertools
import math
import random
from replay.registry import oracle
from replay.oracles_arith import sim
from replay.oracles_bounded import real_tokenizer, small_tables

OPS = {'>=': lambda a, b: a >= b, '>': lambda a, b: a > b, '=': lambda a, b: a == b,
       '<=': lambda a, b: a <= b, '<': lambda a, b: a < b, '!=': lambda a, b: a != b}


def parse_case(case):
    """'JACCARD>=-list-None' -> (M, op, l_list, r_list)"""
    import re
    m = re.match(r'([A-Z_]*)(>=|>|=|<=|<)-(list|None)-(list|None)', case or 'JACCARD>=-None-None')
    return m.group(1), m.group(2), m.group(3) == 'list', m.group(4) == 'list'


def raw_sim(M, lt, rt):
    a, b = set(lt), set(rt)
    if not a and not b:
        return 1.0
    if not a or not b:
        return 0
    if M == 'OVERLAP_COEFFICIENT':
        return float(len(a & b)) / min(len(a), len(b))
    return sim(M, len(a & b), len(a), len(b))


def check_rows(rows, header, ltable, rtable, lcols, rcols, lkey, rkey, louts, routs, lp, rp, score_of,
               must, may, with_score, with_id=False):
    """rows: list of lists; must(a,b) / may(a,b): predicates over row indices; score_of(a,b)"""
    want_header = ([('_id')] if with_id else []) + [lp + lkey, rp + rkey] + [lp + x for x in (louts or [])] + \
                  [rp + x for x in (routs or [])] + (['_sim_score'] if with_score else [])
    if list(header) != want_header:
        return 'header %r, expected %r' % (list(header), want_header)
    lk, rk = lcols.index(lkey), rcols.index(rkey)
    lpos = dict((row[lk], i) for i, row in enumerate(ltable))
    rpos = dict((row[rk], i) for i, row in enumerate(rtable))
    off = 1 if with_id else 0
    seen = set()
    for k, row in enumerate(rows):
        if with_id and row[0] != k:
            return '_id of row %d is %r' % (k, row[0])
        a, b = lpos.get(row[off]), rpos.get(row[off + 1])
        if a is None or b is None:
            return 'row %r names a key that does not exist' % (row,)
        if (a, b) in seen:
            return 'pair (%r, %r) occurs more than once' % (row[off], row[off + 1])
        seen.add((a, b))
        if not may(a, b):
            return 'row %r: pair does not qualify (left %r, right %r)' % (row, ltable[a], rtable[b])
        want = [ltable[a][lk], rtable[b][rk]] + [ltable[a][lcols.index(x)] for x in (louts or [])] + \
               [rtable[b][rcols.index(x)] for x in (routs or [])]
        got = list(row[off:off + len(want)])
        same = lambda x, y: x == y or (x is None and y is None) or \
            (isinstance(x, float) and isinstance(y, float) and math.isnan(x) and math.isnan(y)) or \
            ((x is None or (isinstance(x, float) and math.isnan(x))) and (y is None or (isinstance(y, float) and math.isnan(y))))
        if len(got) != len(want) or not all(same(x, y) for x, y in zip(got, want)):
            return 'row %r: projected values %r, expected %r' % (row, got, want)
        if with_score:
            sc, ws = row[-1], score_of(a, b)
            if not (sc == ws or (isinstance(sc, float) and isinstance(ws, float) and math.isnan(sc) and math.isnan(ws))):
                return 'row %r: score %r, expected %r' % (row, sc, ws)
    for a in range(len(ltable)):
        for b in range(len(rtable)):
            if must(a, b) and (a, b) not in seen:
                return 'qualifying pair missing: left %r right %r' % (ltable[a], rtable[b])
    return None


def gen_tables(rng, tier, n):
    uni = ['a', 'b', 'c', 'd', 'e', 'f', 'g', 'h', 'i', 'j']
    for _ in range(n):
        k = rng.choice([3, 4, 5, 6, 8, 10])
        u = uni[:k]
        nl, nr = rng.randint(0, 5), rng.randint(0, 5)
        mk = lambda: ' '.join(rng.sample(u, rng.randint(0, k)))
        yield [mk() for _ in range(nl)], [mk() for _ in range(nr)]
    # adversarial: a long left row against its globally-last tokens (prefix arithmetic)
    for n_tok, t in ((25, 0.28), (20, 0.35), (40, 0.175), (50, 0.14), (30, 0.4)):
        toks = ['t%02d' % i for i in range(n_tok)]
        o = int(round(t * n_tok))
        yield [' '.join(toks)], [' '.join(toks[-o:])], t


THR = [0.1, 0.2, 0.25, 0.28, 0.3, 1 / 3.0, 0.4, 0.5, 0.6, 2 / 3.0, 0.7, 0.75, 0.8, 0.9, 1.0]


@oracle('py_stringsimjoin.join.set_sim_join.set_sim_join')
class SetSimJoin(object):
    def inputs(self, case, rng, model, tier):
        for tb in gen_tables(rng, tier, 500 if tier != 'thorough' else 5000):
            ts = [tb[2]] if len(tb) > 2 else rng.sample(THR, 3)
            for t in ts:
                yield dict(l=tb[0], r=tb[1], t=t, allow_empty=rng.random() < 0.5, score=rng.random() < 0.7,
                           progress=False, lperm=rng.choice([0, 1, 2]), rperm=rng.choice([0, 1, 2]))

    def check(self, case, a):
        from py_stringsimjoin.join.set_sim_join import set_sim_join
        M, op, ll, rl = parse_case(case)
        tok = real_tokenizer()
        # column orders vary, so that the key / join columns sit at different positions in the two arrays
        perms = [(0, 1, 2), (1, 0, 2), (2, 0, 1)]
        lp_, rp_ = perms[a.get('lperm', 0)], perms[a.get('rperm', 0)]
        lcols0, rcols0 = ['id', 'v', 'x'], ['rid', 'w', 'y']
        lcols, rcols = [lcols0[k] for k in lp_], [rcols0[k] for k in rp_]
        lt0 = [('l%d' % i, s, 'lx%d' % i) for i, s in enumerate(a['l'])]
        rt0 = [('r%d' % i, s, 'ry%d' % i) for i, s in enumerate(a['r'])]
        lt = [tuple(row[k] for k in lp_) for row in lt0]
        rt = [tuple(row[k] for k in rp_) for row in rt0]
        louts, routs = (['x', 'v'] if ll else None), (['y'] if rl else None)
        out = set_sim_join(lt, rt, lcols, rcols, 'id', 'rid', 'v', 'w', tok, M, a['t'], op, a['allow_empty'],
                           louts, routs, 'l_', 'r_', a['score'], a['progress'])
        T = lambda s: tok.tokenize(s)
        cmp_ = OPS[op]
        t = a['t']

        lv_ = lambda i: lt0[i][1]
        rv_ = lambda j: rt0[j][1]

        def both_empty(i, j):
            return not T(lv_(i)) and not T(rv_(j))

        def s_(i, j):
            return raw_sim(M, T(lv_(i)), T(rv_(j)))

        def must(i, j):
            if both_empty(i, j):
                return a['allow_empty']
            if not T(lv_(i)) or not T(rv_(j)):
                return False
            return cmp_(s_(i, j), t) and cmp_(round(s_(i, j), 4), t)

        def may(i, j):
            if both_empty(i, j):
                return a['allow_empty']
            if not T(lv_(i)) or not T(rv_(j)):
                return False
            return cmp_(round(s_(i, j), 4), t)

        def score(i, j):
            return 1.0 if both_empty(i, j) else round(s_(i, j), 4)
        return check_rows(out.values.tolist(), list(out.columns), lt, rt, lcols, rcols, 'id', 'rid', louts, routs,
                          'l_', 'r_', score, must, may, a['score'])


# ----------------------------------------------------------------------------- join drivers
def _frames(a):
    import pandas as pd
    import numpy as np
    idx = [10 + 3 * i for i in range(len(a['l']))]
    lt = pd.DataFrame({'lx': pd.Series(['lx%d' % i for i in range(len(a['l']))], dtype=object, index=idx),
                       'id': pd.Series(['l%d' % i for i in range(len(a['l']))], dtype=object, index=idx),
                       'v': pd.Series(a['l'], dtype=object, index=idx)}, index=idx)
    rt = pd.DataFrame({'rid': pd.Series(['r%d' % i for i in range(len(a['r']))], dtype=object),
                       'w': pd.Series(a['r'], dtype=object),
                       'ry': pd.Series([float(i) for i in range(len(a['r']))], dtype=float),
                       # a plain right column named like the LEFT key (a key mix-up must show)
                       'id': pd.Series(['rx%d' % i for i in range(len(a['r']))], dtype=object)})
    return lt, rt


def gen_driver_inputs(rng, tier, n):
    uni = ['a', 'b', 'c', 'd', 'e', 'f']
    for _ in range(n):
        k = rng.choice([3, 4, 6])
        mk = lambda: None if rng.random() < 0.2 else ' '.join(rng.sample(uni[:k], rng.randint(0, k)))
        yield dict(l=[mk() for _ in range(rng.randint(0, 4))], r=[mk() for _ in range(rng.randint(0, 4))],
                   t=rng.choice(THR), allow_empty=rng.random() < 0.5, allow_missing=rng.random() < 0.5,
                   score=rng.random() < 0.6, n_jobs=rng.choice([1, 1, 2, 3, -1]), bag=rng.random() < 0.5,
                   lp=rng.choice(['l_', 'left.', '']), rp=rng.choice(['r_', 'R']),
                   bad=rng.choice([None, None, None, 'l_key', 'r_join', 'threshold', 'tokenizer', 'ltable', 'dup_key',
                                   'numeric_join', 'l_out']))


class _Driver(object):
    M = None
    rounded = True          # jaccard / cosine / dice report and compare the 4-decimal value

    def fn(self):
        import importlib
        m = importlib.import_module('py_stringsimjoin.join.%s_join_py' % self.M.lower())
        return getattr(m, '%s_join_py' % self.M.lower())

    def inputs(self, case, rng, model, tier):
        for a in gen_driver_inputs(rng, tier, 150 if tier != 'thorough' else 1500):
            yield a

    def check(self, case, a):
        import pandas as pd
        from py_stringmatching import WhitespaceTokenizer
        M = self.M
        try:
            _, op, ll, rl = parse_case(case)
        except Exception:
            op, ll, rl = '>=', False, False
        lt, rt = _frames(a)
        lt0, rt0 = lt.copy(deep=True), rt.copy(deep=True)
        tok = WhitespaceTokenizer(return_set=not a['bag'])
        louts, routs = (['lx', 'id', 'v', 'lx'] if ll else None), (['ry', 'rid', 'id', 'ry'] if rl else None)
        kw = dict(l_key_attr='id', r_key_attr='rid', l_join_attr='v', r_join_attr='w', threshold=a['t'])
        args_t = [lt, rt]
        expect = None
        bad = a['bad']
        if bad == 'l_key':
            kw['l_key_attr'] = 'nope'; expect = AssertionError
        elif bad == 'r_join':
            kw['r_join_attr'] = 'nope'; expect = AssertionError
        elif bad == 'threshold':
            kw['threshold'] = 1.5; expect = AssertionError
        elif bad == 'tokenizer':
            tok = 'not a tokenizer'; expect = TypeError
        elif bad == 'ltable':
            args_t[0] = [1, 2]; expect = TypeError
        elif bad == 'dup_key' and len(lt) >= 2:
            lt.loc[lt.index[1], 'id'] = lt.loc[lt.index[0], 'id']; lt0 = lt.copy(deep=True); expect = AssertionError
        elif bad == 'numeric_join':
            kw['r_join_attr'] = 'ry'; expect = AssertionError
        elif bad == 'l_out':
            louts = ['zz']; expect = AssertionError
        f = self.fn()
        try:
            out = f(args_t[0], args_t[1], kw['l_key_attr'], kw['r_key_attr'], kw['l_join_attr'], kw['r_join_attr'],
                    tok, kw['threshold'], op, a['allow_empty'], a['allow_missing'], louts, routs, a['lp'], a['rp'],
                    a['score'], a['n_jobs'], False)
        except Exception as e:
            if expect is None:
                return 'valid call raised %s: %s' % (type(e).__name__, e)
            if not isinstance(e, expect):
                return 'expected %s, got %s: %s' % (expect.__name__, type(e).__name__, e)
            if not isinstance(tok, str) and tok.get_return_set() != (not a['bag']):
                return 'rejected call left the tokenizer in %s mode' % ('set' if tok.get_return_set() else 'bag')
            return None
        if expect is not None:
            return 'invalid argument (%s) accepted' % bad
        if tok.get_return_set() != (not a['bag']):
            return 'tokenizer return_set changed from %r to %r' % (not a['bag'], tok.get_return_set())
        if not lt.equals(lt0) or not rt.equals(rt0) or list(lt.index) != list(lt0.index):
            return 'an input table was modified'
        T = lambda s: WhitespaceTokenizer(return_set=True).tokenize(s)
        cmp_ = OPS[op]
        t = a['t']
        rnd = (lambda x: round(x, 4)) if self.rounded else (lambda x: x)
        lrows, rrows = lt.values.tolist(), rt.values.tolist()
        lcols, rcols = list(lt.columns), list(rt.columns)
        miss = lambda v: v is None or (isinstance(v, float) and math.isnan(v))
        lv = lambda i: lrows[i][lcols.index('v')]
        rv_ = lambda j: rrows[j][rcols.index('w')]

        def both_empty(i, j):
            return not T(lv(i)) and not T(rv_(j))

        def s_(i, j):
            return raw_sim(M, T(lv(i)), T(rv_(j)))

        def must(i, j):
            if miss(lv(i)) or miss(rv_(j)):
                return a['allow_missing']
            if both_empty(i, j):
                return a['allow_empty']
            if not T(lv(i)) or not T(rv_(j)):
                return False
            return cmp_(s_(i, j), t) and cmp_(rnd(s_(i, j)), t)

        def may(i, j):
            if miss(lv(i)) or miss(rv_(j)):
                return a['allow_missing']
            if both_empty(i, j):
                return a['allow_empty']
            if not T(lv(i)) or not T(rv_(j)):
                return False
            return cmp_(rnd(s_(i, j)), t)

        def score(i, j):
            if miss(lv(i)) or miss(rv_(j)):
                return float('nan')
            return 1.0 if both_empty(i, j) else rnd(s_(i, j))
        dl = None if louts is None else ['lx', 'v']
        dr = None if routs is None else ['ry', 'id']
        return check_rows(out.values.tolist(), list(out.columns), lrows, rrows, lcols, rcols, 'id', 'rid', dl, dr,
                          a['lp'], a['rp'], score, must, may, a['score'], with_id=True)


for _M in ('JACCARD', 'COSINE', 'DICE'):
    _cls = type('Driver' + _M, (_Driver,), {'M': _M})
    oracle('py_stringsimjoin.join.%s_join_py.%s_join_py' % (_M.lower(), _M.lower()))(_cls)
oracle('py_stringsimjoin.join.overlap_coefficient_join_py.overlap_coefficient_join_py')(
    type('DriverOVC', (_Driver,), {'M': 'OVERLAP_COEFFICIENT', 'rounded': False}))



# ----------------------------------------------------------------------------- edit distance join
def lev(a, b):
    """Levenshtein distance (independent dynamic programme)"""
    prev = list(range(len(b) + 1))
    for i, ca in enumerate(a, 1):
        cur = [i]
        for j, cb in enumerate(b, 1):
            cur.append(min(prev[j] + 1, cur[j - 1] + 1, prev[j - 1] + (ca != cb)))
        prev = cur
    return prev[-1]


def gen_ed_inputs(rng, tier, n):
    words = ['data', 'date', 'base', 'bass', 'database', 'datum', 'a', 'ab', 'abc', 'abd', 'xyz', 'xyzw', '', 'abcdefgh',
             'abcdefgx', 'abxdefgh', 'bcdefgh', 'query', 'queue', 'quart']
    for _ in range(n):
        mk = lambda: None if rng.random() < 0.15 else rng.choice(words)
        yield dict(l=[mk() for _ in range(rng.randint(0, 5))], r=[mk() for _ in range(rng.randint(0, 5))],
                   t=rng.choice([0, 1, 1, 2, 2, 3, 1.5, 2.0]), allow_missing=rng.random() < 0.5,
                   score=rng.random() < 0.6, n_jobs=rng.choice([1, 1, 2, 3, -1]), set_mode=rng.random() < 0.5,
                   qval=rng.choice([2, 2, 3]), padding=rng.random() < 0.5, lp='l_', rp='r_', outs=rng.random() < 0.4,
                   bad=rng.choice([None, None, None, None, 'l_key', 'r_join', 'threshold', 'tokenizer', 'ltable',
                                   'dup_key', 'numeric_join', 'l_out']))


@oracle('py_stringsimjoin.join.edit_distance_join_py.edit_distance_join_py')
class EditDistanceJoin(object):
    def inputs(self, case, rng, model, tier):
        for a in gen_ed_inputs(rng, tier, 200 if tier != 'thorough' else 2000):
            yield a

    def check(self, case, a):
        import math as _m
        from py_stringmatching import QgramTokenizer, WhitespaceTokenizer
        from py_stringsimjoin.join.edit_distance_join_py import edit_distance_join_py
        try:
            _, op, ll, rl = parse_case(case)
        except Exception:
            op, ll, rl = '<=', False, False
        if op not in ('<=', '<', '='):
            op = '<='
        lt, rt = _frames(a)
        lt0, rt0 = lt.copy(deep=True), rt.copy(deep=True)
        tok = QgramTokenizer(qval=a['qval'], padding=a['padding'], return_set=a['set_mode'])
        louts, routs = ((['lx', 'id', 'v', 'lx'], ['ry', 'rid', 'id', 'ry']) if (a['outs'] or ll) else (None, None))
        kw = dict(l_key_attr='id', r_key_attr='rid', l_join_attr='v', r_join_attr='w', threshold=a['t'])
        tabs = [lt, rt]
        expect = None
        bad = a['bad']
        if bad == 'l_key':
            kw['l_key_attr'] = 'nope'; expect = AssertionError
        elif bad == 'r_join':
            kw['r_join_attr'] = 'nope'; expect = AssertionError
        elif bad == 'threshold':
            kw['threshold'] = -1; expect = AssertionError
        elif bad == 'tokenizer':
            tok = WhitespaceTokenizer(return_set=a['set_mode']); expect = AssertionError
        elif bad == 'ltable':
            tabs[0] = [1, 2]; expect = TypeError
        elif bad == 'dup_key' and len(lt) >= 2:
            lt.loc[lt.index[1], 'id'] = lt.loc[lt.index[0], 'id']; lt0 = lt.copy(deep=True); expect = AssertionError
        elif bad == 'numeric_join':
            kw['r_join_attr'] = 'ry'; expect = AssertionError
        elif bad == 'l_out':
            louts = ['zz']; expect = AssertionError
        try:
            out = edit_distance_join_py(tabs[0], tabs[1], kw['l_key_attr'], kw['r_key_attr'], kw['l_join_attr'],
                                        kw['r_join_attr'], kw['threshold'], op, a['allow_missing'], louts, routs,
                                        a['lp'], a['rp'], a['score'], a['n_jobs'], False, tok)
        except Exception as e:
            if expect is None:
                return 'valid call raised %s: %s' % (type(e).__name__, e)
            if not isinstance(e, expect):
                return 'expected %s, got %s: %s' % (expect.__name__, type(e).__name__, e)
            if tok.get_return_set() != a['set_mode']:
                return 'rejected call left the tokenizer with return_set=%r' % tok.get_return_set()
            return None
        if expect is not None:
            return 'invalid argument (%s) accepted' % bad
        if tok.get_return_set() != a['set_mode']:
            return 'tokenizer return_set changed from %r to %r' % (a['set_mode'], tok.get_return_set())
        if not lt.equals(lt0) or not rt.equals(rt0) or list(lt.index) != list(lt0.index):
            return 'an input table was modified'
        t = int(_m.floor(a['t']))
        bag = QgramTokenizer(qval=a['qval'], padding=a['padding'], return_set=False)
        lrows, rrows = lt.values.tolist(), rt.values.tolist()
        lcols, rcols = list(lt.columns), list(rt.columns)
        miss = lambda v: v is None or (isinstance(v, float) and _m.isnan(v))
        lv = lambda i: lrows[i][lcols.index('v')]
        rv_ = lambda j: rrows[j][rcols.index('w')]
        cmp_ = OPS[op]

        def may(i, j):
            if miss(lv(i)) or miss(rv_(j)):
                return a['allow_missing']
            return cmp_(lev(lv(i), rv_(j)), t)

        def must(i, j):
            if miss(lv(i)) or miss(rv_(j)):
                return a['allow_missing']
            return cmp_(lev(lv(i), rv_(j)), t) and bool(set(bag.tokenize(lv(i))) & set(bag.tokenize(rv_(j))))

        def score(i, j):
            if miss(lv(i)) or miss(rv_(j)):
                return float('nan')
            return lev(lv(i), rv_(j))
        dl = None if louts is None else ['lx', 'v']
        dr = None if routs is None else ['ry', 'id']
        return check_rows(out.values.tolist(), list(out.columns), lrows, rrows, lcols, rcols, 'id', 'rid', dl, dr,
                          a['lp'], a['rp'], score, must, may, a['score'], with_id=True)
