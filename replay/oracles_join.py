"""Executable contracts of the split functions and join drivers (replay / bounded search):
the result is compared with a brute-force evaluation of the property-level predicates."""
import itertools
import math
import random
from replay.registry import oracle
from replay.oracles_arith import sim
from replay.oracles_bounded import real_tokenizer, small_tables

OPS = {'>=': lambda a, b: a >= b, '>': lambda a, b: a > b, '=': lambda a, b: a == b,
       '<=': lambda a, b: a <= b, '<': lambda a, b: a < b, '!=': lambda a, b: a != b}


def parse_case(case):
    """'JACCARD>=-list-None' -> (M, op, l_list, r_list)"""
    import re
    m = re.match(r'([A-Z_]+)(>=|>|=|<=|<)-(list|None)-(list|None)', case or 'JACCARD>=-None-None')
    return m.group(1), m.group(2), m.group(3) == 'list', m.group(4) == 'list'


def raw_sim(M, lt, rt):
    a, b = set(lt), set(rt)
    if not a and not b:
        return 1.0
    if not a or not b:
        return 0
    if M == 'OVERLAP_COEFFICIENT':
        return float(len(a & b)) / min(len(a), len(b))
    return sim(M, len(a & b), len(a), len(b))


def check_rows(rows, header, ltable, rtable, lcols, rcols, lkey, rkey, louts, routs, lp, rp, score_of,
               must, may, with_score, with_id=False):
    """rows: list of lists; must(a,b) / may(a,b): predicates over row indices; score_of(a,b)"""
    want_header = ([('_id')] if with_id else []) + [lp + lkey, rp + rkey] + [lp + x for x in (louts or [])] + \
                  [rp + x for x in (routs or [])] + (['_sim_score'] if with_score else [])
    if list(header) != want_header:
        return 'header %r, expected %r' % (list(header), want_header)
    lk, rk = lcols.index(lkey), rcols.index(rkey)
    lpos = dict((row[lk], i) for i, row in enumerate(ltable))
    rpos = dict((row[rk], i) for i, row in enumerate(rtable))
    off = 1 if with_id else 0
    seen = set()
    for k, row in enumerate(rows):
        if with_id and row[0] != k:
            return '_id of row %d is %r' % (k, row[0])
        a, b = lpos.get(row[off]), rpos.get(row[off + 1])
        if a is None or b is None:
            return 'row %r names a key that does not exist' % (row,)
        if (a, b) in seen:
            return 'pair (%r, %r) occurs more than once' % (row[off], row[off + 1])
        seen.add((a, b))
        if not may(a, b):
            return 'row %r: pair does not qualify (left %r, right %r)' % (row, ltable[a], rtable[b])
        want = [ltable[a][lk], rtable[b][rk]] + [ltable[a][lcols.index(x)] for x in (louts or [])] + \
               [rtable[b][rcols.index(x)] for x in (routs or [])]
        got = list(row[off:off + len(want)])
        if got != want:
            return 'row %r: projected values %r, expected %r' % (row, got, want)
        if with_score:
            sc, ws = row[-1], score_of(a, b)
            if not (sc == ws or (isinstance(sc, float) and isinstance(ws, float) and math.isnan(sc) and math.isnan(ws))):
                return 'row %r: score %r, expected %r' % (row, sc, ws)
    for a in range(len(ltable)):
        for b in range(len(rtable)):
            if must(a, b) and (a, b) not in seen:
                return 'qualifying pair missing: left %r right %r' % (ltable[a], rtable[b])
    return None


def gen_tables(rng, tier, n):
    uni = ['a', 'b', 'c', 'd', 'e', 'f', 'g', 'h', 'i', 'j']
    for _ in range(n):
        k = rng.choice([3, 4, 5, 6, 8, 10])
        u = uni[:k]
        nl, nr = rng.randint(0, 5), rng.randint(0, 5)
        mk = lambda: ' '.join(rng.sample(u, rng.randint(0, k)))
        yield [mk() for _ in range(nl)], [mk() for _ in range(nr)]
    # adversarial: a long left row against its globally-last tokens (prefix arithmetic)
    for n_tok, t in ((25, 0.28), (20, 0.35), (40, 0.175), (50, 0.14), (30, 0.4)):
        toks = ['t%02d' % i for i in range(n_tok)]
        o = int(round(t * n_tok))
        yield [' '.join(toks)], [' '.join(toks[-o:])], t


THR = [0.1, 0.2, 0.25, 0.28, 0.3, 1 / 3.0, 0.4, 0.5, 0.6, 2 / 3.0, 0.7, 0.75, 0.8, 0.9, 1.0]


@oracle('py_stringsimjoin.join.set_sim_join.set_sim_join')
class SetSimJoin(object):
    def inputs(self, case, rng, model, tier):
        for tb in gen_tables(rng, tier, 500 if tier != 'thorough' else 5000):
            ts = [tb[2]] if len(tb) > 2 else rng.sample(THR, 3)
            for t in ts:
                yield dict(l=tb[0], r=tb[1], t=t, allow_empty=rng.random() < 0.5, score=rng.random() < 0.7,
                           progress=False)

    def check(self, case, a):
        from py_stringsimjoin.join.set_sim_join import set_sim_join
        M, op, ll, rl = parse_case(case)
        tok = real_tokenizer()
        lcols, rcols = ['id', 'v', 'x'], ['rid', 'w', 'y']
        lt = [('l%d' % i, s, 'lx%d' % i) for i, s in enumerate(a['l'])]
        rt = [('r%d' % i, s, 'ry%d' % i) for i, s in enumerate(a['r'])]
        louts, routs = (['x', 'v'] if ll else None), (['y'] if rl else None)
        out = set_sim_join(lt, rt, lcols, rcols, 'id', 'rid', 'v', 'w', tok, M, a['t'], op, a['allow_empty'],
                           louts, routs, 'l_', 'r_', a['score'], a['progress'])
        T = lambda s: tok.tokenize(s)
        cmp_ = OPS[op]
        t = a['t']

        def both_empty(i, j):
            return not T(lt[i][1]) and not T(rt[j][1])

        def s_(i, j):
            return raw_sim(M, T(lt[i][1]), T(rt[j][1]))

        def must(i, j):
            if both_empty(i, j):
                return a['allow_empty']
            if not T(lt[i][1]) or not T(rt[j][1]):
                return False
            return cmp_(s_(i, j), t) and cmp_(round(s_(i, j), 4), t)

        def may(i, j):
            if both_empty(i, j):
                return a['allow_empty']
            if not T(lt[i][1]) or not T(rt[j][1]):
                return False
            return cmp_(round(s_(i, j), 4), t)

        def score(i, j):
            return 1.0 if both_empty(i, j) else round(s_(i, j), 4)
        return check_rows(out.values.tolist(), list(out.columns), lt, rt, lcols, rcols, 'id', 'rid', louts, routs,
                          'l_', 'r_', score, must, may, a['score'])
