"""Executable contracts: profiler, validation, missing values, split functions."""
import math
from replay.registry import oracle


def _pd():
    import pandas as pd
    return pd


@oracle('py_stringsimjoin.profiler.profiler.profile_table_for_join')
class Profile(object):
    def inputs(self, case, rng, model, tier):
        pd = _pd()
        for n in (1, 2, 3, 7, 200, 20001, 30000, 250000):
            for dup in (0, 1):
                for miss in (0, 1, 2):
                    if dup + miss >= n and n > 1:
                        continue
                    yield dict(n=n, dup=dup, miss=miss, attrs=None if n % 2 else ['v', 'id'])

    def decode(self, a):
        return a

    def check(self, case, a):
        pd = _pd()
        from py_stringsimjoin.profiler.profiler import profile_table_for_join
        n = a['n']
        ids = list(range(n))
        if a['dup'] and n > 1:
            ids[-1] = ids[0]
        vals = ['v%d' % i for i in range(n)]
        for k in range(min(a['miss'], n)):
            vals[k] = None
        t = pd.DataFrame({'id': ids, 'v': pd.Series(vals, dtype=object)})
        out = profile_table_for_join(t, a['attrs'])
        attrs = a['attrs'] or list(t.columns)
        if list(out.index) != attrs:
            return 'index %r != profiled attributes %r' % (list(out.index), attrs)
        n = len(t)
        for attr in attrs:
            u = len(set('\0nan' if v is None or (isinstance(v, float) and math.isnan(v)) else v for v in t[attr]))
            m = sum(1 for v in t[attr] if v is None or (isinstance(v, float) and math.isnan(v)))
            row = out.loc[attr]
            if not row['Unique values'].startswith('%d (' % u):
                return '%s: unique %r, expected count %d' % (attr, row['Unique values'], u)
            if not row['Missing values'].startswith('%d (' % m):
                return '%s: missing %r, expected count %d' % (attr, row['Missing values'], m)
            key = (u == n and m == 0)
            says_key = row['Comments'] == 'This attribute can be used as a key attribute.'
            if says_key != key:
                return ('%s: %d rows, %d distinct, %d missing: comment %r, key recommendation expected: %s'
                        % (attr, n, u, m, row['Comments'], key))
            warns = row['Comments'].startswith('Joining on this attribute will ignore')
            if warns != (m > 0):
                return ('%s: %d rows, %d missing: comment %r, warning expected: %s'
                        % (attr, n, m, row['Comments'], m > 0))
        return None
