"""Executable contracts: profiler, validation, missing values, split functions."""
import math
from replay.registry import oracle


def _pd():
    import pandas as pd
    return pd


@oracle('py_stringsimjoin.profiler.profiler.profile_table_for_join')
class Profile(object):
    def inputs(self, case, rng, model, tier):
        pd = _pd()
        for n in list(range(1, 41)) + [200, 20001, 30000, 250000]:
            for dup in (0, 1):
                for miss in (0, 1, 2, 5):
                    if dup + miss >= n and n > 1:
                        continue
                    yield dict(n=n, dup=dup, miss=miss, attrs=None if n % 2 else ['v', 'id'])

    def decode(self, a):
        return a

    def check(self, case, a):
        pd = _pd()
        from py_stringsimjoin.profiler.profiler import profile_table_for_join
        n = a['n']
        ids = list(range(n))
        if a['dup'] and n > 1:
            ids[-1] = ids[0]
        vals = ['v%d' % i for i in range(n)]
        for k in range(min(a['miss'], n)):
            vals[k] = None
        t = pd.DataFrame({'id': ids, 'v': pd.Series(vals, dtype=object)})
        out = profile_table_for_join(t, a['attrs'])
        attrs = a['attrs'] or list(t.columns)
        if list(out.index) != attrs:
            return 'index %r != profiled attributes %r' % (list(out.index), attrs)
        n = len(t)
        for attr in attrs:
            u = len(set('\0nan' if v is None or (isinstance(v, float) and math.isnan(v)) else v for v in t[attr]))
            m = sum(1 for v in t[attr] if v is None or (isinstance(v, float) and math.isnan(v)))
            row = out.loc[attr]
            if not row['Unique values'].startswith('%d (' % u):
                return '%s: unique %r, expected count %d' % (attr, row['Unique values'], u)
            if not row['Missing values'].startswith('%d (' % m):
                return '%s: missing %r, expected count %d' % (attr, row['Missing values'], m)
            # "(and percentage to two decimals)": the number between '(' and '%)' has at most two decimals
            # and is the count's share of the rows
            for (cell, cnt) in ((row['Unique values'], u), (row['Missing values'], m)):
                pct = cell[cell.index('(') + 1:cell.rindex('%)')]
                frac = pct.split('.')[1] if '.' in pct else ''
                if len(frac) > 2 or 'e' in pct.lower() or abs(float(pct) - 100.0 * cnt / n) > 0.005 + 1e-9:
                    return '%s: statistic %r is not the count with its percentage to two decimals (%d of %d rows)' % (
                        attr, cell, cnt, n)
            key = (u == n and m == 0)
            says_key = row['Comments'] == 'This attribute can be used as a key attribute.'
            if says_key != key:
                return ('%s: %d rows, %d distinct, %d missing: comment %r, key recommendation expected: %s'
                        % (attr, n, u, m, row['Comments'], key))
            warns = row['Comments'].startswith('Joining on this attribute will ignore')
            if warns != (m > 0):
                return ('%s: %d rows, %d missing: comment %r, warning expected: %s'
                        % (attr, n, m, row['Comments'], m > 0))
        return None


@oracle('py_stringsimjoin.utils.missing_value_handler.get_pairs_with_missing_value')
class MissingPairs(object):
    def inputs(self, case, rng, model, tier):
        for _ in range(300 if tier != 'thorough' else 3000):
            nl, nr = rng.randint(0, 5), rng.randint(0, 5)
            pm = rng.choice([0.0, 0.3, 0.6, 1.0])
            mk = lambda: None if rng.random() < pm else rng.choice(['a b', 'c', '', 'a'])
            yield dict(l=[mk() for _ in range(nl)], r=[mk() for _ in range(nr)], score=rng.random() < 0.5,
                       numkeys=rng.random() < 0.3)

    def check_numkeys(self, case, a):
        """int64 keys beyond 2**53 with numeric-only output attributes: every emitted key must be one of the source keys,
        exactly (a detour through a float array rounds them)"""
        import math
        pd = _pd()
        from py_stringsimjoin.utils.missing_value_handler import get_pairs_with_missing_value
        ll, rl = (case or 'None-None').split('-')[0] == 'list', (case or 'None-None').split('-')[1] == 'list'
        B = 2 ** 53
        lk = [B + 1 + 2 * i for i in range(len(a['l']))]
        rk = [B + 3 + 4 * j for j in range(len(a['r']))]
        lt = pd.DataFrame({'id': pd.Series(lk, dtype='int64'), 'n': pd.Series([0.5 + i for i in range(len(lk))], dtype=float),
                           'v': pd.Series(a['l'], dtype=object)})
        rt = pd.DataFrame({'rid': pd.Series(rk, dtype='int64'), 'm': pd.Series([1.5 + j for j in range(len(rk))], dtype=float),
                           'w': pd.Series(a['r'], dtype=object)})
        out = get_pairs_with_missing_value(lt, rt, 'id', 'rid', 'v', 'w', ['n'] if ll else None, ['m'] if rl else None,
                                           'l_', 'r_', a['score'], False)
        miss = lambda v: v is None or (isinstance(v, float) and math.isnan(v))
        want = set((lk[i], rk[j]) for i, lv in enumerate(a['l']) for j, rv in enumerate(a['r']) if miss(lv) or miss(rv))
        got = [(row[0], row[1]) for row in out.values.tolist()] if len(out.columns) > 2 else \
              list(zip(out['l_id'].tolist(), out['r_rid'].tolist()))
        got = list(zip(out['l_id'].tolist(), out['r_rid'].tolist()))
        for k in got:
            if (int(k[0]), int(k[1])) not in want or int(k[0]) != k[0] or isinstance(k[0], float) and k[0] != float(int(k[0])):
                return 'emitted key pair %r names no source pair with a missing value (keys %r x %r)' % (k, lk, rk)
        if set((int(x), int(y)) for x, y in got) != want or len(got) != len(want):
            return 'emitted key pairs %r, expected %r' % (sorted(got), sorted(want))
        return None

    def check(self, case, a):
        import math
        pd = _pd()
        from py_stringsimjoin.utils.missing_value_handler import get_pairs_with_missing_value
        if a.get('numkeys'):
            return self.check_numkeys(case, a)
        ll, rl = (case or 'None-None').split('-')[0] == 'list', (case or 'None-None').split('-')[1] == 'list'
        lt = pd.DataFrame({'x': pd.Series(['x%d' % i for i in range(len(a['l']))], dtype=object),
                           'id': pd.Series(['l%d' % i for i in range(len(a['l']))], dtype=object),
                           'v': pd.Series(a['l'], dtype=object)})
        rt = pd.DataFrame({'rid': pd.Series(['r%d' % i for i in range(len(a['r']))], dtype=object),
                           'w': pd.Series(a['r'], dtype=object)})
        louts, routs = (['x', 'v'] if ll else None), (['w'] if rl else None)
        out = get_pairs_with_missing_value(lt, rt, 'id', 'rid', 'v', 'w', louts, routs, 'l_', 'r_', a['score'], False)
        want_cols = ['l_id', 'r_rid'] + (['l_x', 'l_v'] if ll else []) + (['r_w'] if rl else []) + \
                    (['_sim_score'] if a['score'] else [])
        if list(out.columns) != want_cols:
            return 'columns %r, expected %r' % (list(out.columns), want_cols)
        got = {}
        for row in out.values.tolist():
            k = (row[0], row[1])
            if k in got:
                return 'pair %r emitted twice' % (k,)
            got[k] = row
        miss = lambda v: v is None or (isinstance(v, float) and math.isnan(v))
        for i, lv in enumerate(a['l']):
            for j, rv in enumerate(a['r']):
                k = ('l%d' % i, 'r%d' % j)
                if miss(lv) or miss(rv):
                    if k not in got:
                        return 'pair %r with a missing value is absent (left %r, right %r)' % (k, lv, rv)
                    if a['score'] and not miss(got[k][-1]):
                        return 'pair %r: score %r is not NaN' % (k, got[k][-1])
                elif k in got:
                    return 'pair %r has no missing value but is present' % (k,)
        return None
