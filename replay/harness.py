"""Replay / bounded-search harness.  Runs under /venv/bin/python with PYTHONPATH=<repo>:/verif
so that every evaluation is on the real code of the tree the VCs came from.

  --search  stdin: {fn, case, obligation, model, tier, seed}  ->  last stdout line: JSON
            {found: bool, fn, case, args, failure}            (executable contract violated)
  --replay  stdin: the dict printed by --search               ->  exit 1 if it still fails

Each oracle is the *executable* form of the sidecar contract of one function: an input
generator (model-guided candidates first, then an exhaustive small grid, then seeded random
inputs) and a checker that calls the real function and evaluates the postcondition.
"""
import importlib
import json
import math
import os
import random
import sys
import time

HERE = os.path.dirname(os.path.abspath(__file__))
sys.path.insert(0, os.path.dirname(HERE))

from replay.registry import ORACLES, ALIASES, oracle  # noqa


def resolve(qualname):
    parts = qualname.split('.')
    for cut in (len(parts) - 1, len(parts) - 2):
        try:
            mod = importlib.import_module('.'.join(parts[:cut]))
        except ImportError:
            continue
        obj = mod
        try:
            for p in parts[cut:]:
                obj = getattr(obj, p)
            return obj
        except AttributeError:
            continue
    raise ImportError(qualname)


def jsonable(x):
    try:
        json.dumps(x)
        return x
    except TypeError:
        if isinstance(x, (list, tuple)):
            return [jsonable(y) for y in x]
        if isinstance(x, dict):
            return dict((str(k), jsonable(v)) for k, v in x.items())
        return repr(x)


def search(req):
    fn = req['fn']
    targets = [fn] if fn in ORACLES else [t for t in ALIASES.get(fn, []) if t in ORACLES]
    if not targets:
        return dict(found=False, error='no executable oracle for %s' % fn)
    total = 200.0 if req.get('tier') == 'thorough' else 45.0
    tried = 0
    for k, tgt in enumerate(targets):
        orc = ORACLES[tgt]
        rng = random.Random(req.get('seed', 0))
        budget = total / len(targets)
        t0 = time.time()
        case = req.get('case')        # entry-point oracles read what they can from an internal's case name
        for args in orc.inputs(case, rng, req.get('model') or {}, req.get('tier', 'quick')):
            tried += 1
            try:
                fail = orc.check(case, args)
            except Exception as e:            # an exception on a valid input is itself a failure
                fail = 'raised %s: %s' % (type(e).__name__, e)
            if fail:
                return dict(found=True, fn=tgt, case=case, args=jsonable(args), failure=fail, inputs_tried=tried,
                            searched_for=fn)
            if time.time() - t0 > budget:
                break
    return dict(found=False, fn=fn, case=req.get('case'), inputs_tried=tried,
                note='bounded search exhausted its budget without a failing input')


def replay(rep):
    orc = ORACLES[rep['fn']]
    args = orc.decode(rep['args']) if hasattr(orc, 'decode') else rep['args']
    try:
        fail = orc.check(rep.get('case'), args)
    except Exception as e:
        fail = 'raised %s: %s' % (type(e).__name__, e)
    print('function :', rep['fn'], '[%s]' % rep.get('case'))
    print('arguments:', json.dumps(jsonable(args))[:2000])
    print('result   :', fail or 'contract holds on this input')
    return 1 if fail else 0


def _bounded_one(args):
    fn, case, tier, seed = args
    orc = ORACLES.get(fn)
    if orc is None:
        return dict(fn=fn, case=case, cases_run=0, failures=[], error='no executable oracle')
    rng = random.Random(seed)
    budget = 240.0 if tier == 'thorough' else 25.0
    t0 = time.time()
    n = 0
    fails = []
    exhausted = True
    try:
        for a in orc.inputs(case, rng, {}, tier):
            n += 1
            try:
                f = orc.check(case, a)
            except Exception as e:
                f = 'raised %s: %s' % (type(e).__name__, e)
            if f:
                fails.append(dict(args=jsonable(a), failure=f))
                if len(fails) >= 3:
                    break
            if time.time() - t0 > budget:
                exhausted = False
                break
    except Exception as e:
        return dict(fn=fn, case=case, cases_run=n, failures=fails, error='%s: %s' % (type(e).__name__, e))
    return dict(fn=fn, case=case, cases_run=n, failures=fails, generator_exhausted=exhausted,
                secs=round(time.time() - t0, 1))


def bounded(req):
    import multiprocessing
    tasks = [(x['fn'], x.get('case'), req.get('tier', 'quick'), req.get('seed', 0)) for x in req['targets']]
    if not tasks:
        return []
    with multiprocessing.get_context('fork').Pool(min(16, len(tasks))) as pool:
        return pool.map(_bounded_one, tasks, chunksize=1)


def main():
    for m in ('oracles_arith', 'oracles_more', 'oracles_bounded', 'oracles_join', 'oracles_filters'):
        try:
            importlib.import_module('replay.' + m)
        except ImportError as e:
            if 'replay.' + m not in str(e) and m not in str(e):
                raise
    mode = sys.argv[1]
    req = json.loads(sys.stdin.read())
    if mode == '--search':
        print(json.dumps(search(req), default=str))
        return 0
    if mode == '--replay':
        return replay(req)
    if mode == '--findings':
        from replay.findings import FINDINGS
        out = {}
        for fid in req.get('ids', []):
            try:
                out[fid] = FINDINGS[fid]() if fid in FINDINGS else 'no witness registered'
            except Exception as e:
                out[fid] = 'witness raised %s: %s' % (type(e).__name__, e)
        print(json.dumps(out))
        return 0
    if mode == '--bounded':
        print(json.dumps(bounded(req), default=str))
        return 0
    return 3


if __name__ == '__main__':
    sys.exit(main())
