"""Verify one (function, case): generate VCs from the real source and discharge them."""
import time
import traceback
import z3
from .contract import REGISTRY, Undecided
from .executor import Executor, Obligation
from .natives import NATIVES, find_function, val_order_axioms
from . import solve


def axioms_for(o):
    """background axioms an obligation needs, by the symbols it mentions"""
    ax = []
    if solve.uses_decl(list(o.assumptions) + [o.goal], 'val_lt'):
        ax += val_order_axioms()
    fs_ = list(o.assumptions) + [o.goal]
    from .values import _mem_fns, mem_axioms
    if _mem_fns and any(solve.uses_decl(fs_, 'mem_' + k_) for k_ in _mem_fns):
        ax += mem_axioms()
    if solve.uses_decl(fs_, 'dtype_is_string') or solve.uses_decl(fs_, 'val_of_int'):
        from .pandas_model import dtype_axioms
        ax += dtype_axioms(with_ints=solve.uses_decl(fs_, 'val_of_int'))
    return ax



def verify_case(repo, qualname, case_index, timeout_ms=10000, want_models=True, only_names=None, retry=True,
                failed_retry_budget=3):
    """Returns dict(status, results=[...], stats, notes).  status: ok | undecided | error."""
    contract = REGISTRY[qualname]
    case = contract.cases[case_index]
    t0 = time.time()
    out = dict(fn=qualname, case=case.name, status='ok', results=[], notes=[], assumed=[],
               stats={}, secs=0.0)
    try:
        from .natives import ModuleInfo as _MI0
        _MI0._cache.clear()          # so that `deps` lists exactly the modules this verification read
        mi, fn = find_function(repo, qualname)
        ex = Executor(mi, fn, qualname, case, NATIVES)
        obls = ex.run()
        axioms = []
        # vacuity guards ------------------------------------------------------
        s = z3.Solver()
        s.set('timeout', timeout_ms)
        for f in ex.entry_pc:
            s.add(f)
        r = s.check()
        out['results'].append(solve.Result('%s/%s/vacuity/precondition-satisfiable'
                                           % (qualname.split('.', 1)[-1], case.name), 'vacuity',
                                           'sat' if r == z3.unsat else 'unsat',
                                           'z3', 0.0, fn=qualname, case=case.name,
                                           detail='requires is satisfiable' if r == z3.sat else
                                           ('requires is contradictory' if r == z3.unsat else
                                            'requires not provably contradictory (solver: unknown)')).to_dict())
        posts = [o for o in obls if o.kind == 'post']
        if posts:
            # must-fail: `ensures False` must not be provable, i.e. the assumptions of at least one
            # returning path must not be contradictory.  `sat` = guard passed; `unknown` (typical
            # with quantified invariants) = not provably vacuous, accepted and recorded; only a
            # proof that every returning path is contradictory fails the guard.
            verdict = 'vacuous'
            seen = set()
            for o in posts:
                key = tuple(x.get_id() for x in o.assumptions)
                if key in seen:
                    continue
                seen.add(key)
                s = z3.Solver()
                s.set('timeout', 1500)
                for f in o.assumptions:
                    s.add(f)
                for f in o.fplog.facts:
                    s.add(f)
                r = s.check()
                if r == z3.sat:
                    verdict = 'reachable'
                    break
                if r == z3.unknown:
                    verdict = 'not-provably-vacuous'
            out['results'].append(solve.Result('%s/%s/vacuity/ensures-false-is-refuted'
                                               % (qualname.split('.', 1)[-1], case.name), 'vacuity',
                                               'sat' if verdict == 'vacuous' else 'unsat', 'z3', 0.0,
                                               fn=qualname, case=case.name, detail=verdict).to_dict())
        import os as _os
        only = _os.environ.get('PYVC_ONLY')
        n_retries = [(3 - failed_retry_budget) if retry else 99]       # slow queries on a correct tree are rare; many unknowns mean the code
        #                       no longer matches its contract, and retrying each would only cost time
        for o in obls:
            if only and only not in o.name:
                continue
            if only_names is not None and o.name not in only_names:
                continue
            ax = list(axioms) + axioms_for(o)
            # three retries have failed already: this (function, case) no longer matches its contract and
            # is going to be reported; the remaining obligations get a short budget
            r = solve.discharge(o, timeout_ms=timeout_ms if n_retries[0] < 3 else min(timeout_ms, 3000), axioms=ax,
                                want_model=want_models)
            if r.status == 'unknown' and n_retries[0] < 3:
                # second pass with a generous budget: a slow query must not flip the verdict when
                # all cores are busy
                r2 = solve.discharge_portfolio(o, timeout_ms * 6, axioms=ax, want_model=want_models)
                r2.detail = ('retried with %ds budget, ' % (timeout_ms * 6 // 1000)) + (r2.detail or '')
                r = r2
                if r.status == 'unknown':
                    n_retries[0] += 1      # retries that still fail are counted; successful ones are free
            out['results'].append(r.to_dict())
        import hashlib as _hl
        from .natives import ModuleInfo as _MI
        out['deps'] = dict((mi_.path, _hl.sha256(mi_.src.encode()).hexdigest())
                           for (rp_, mn_), mi_ in _MI._cache.items() if rp_ == repo)
        out['notes'] = ex.notes
        out['assumed'] = sorted(set(ex.assumed_log))
        out['stats'] = dict(ex.stats, obligations=len(obls))
    except Undecided as u:
        out['status'] = 'undecided'
        out['notes'].append(str(u))
    except Exception:
        out['status'] = 'error'
        out['notes'].append(traceback.format_exc())
    out['secs'] = round(time.time() - t0, 3)
    return out
