"""Discharge obligations with z3 (in process) and cvc5 (subprocess, second opinion)."""
import subprocess
import tempfile
import time
import os
import z3
from . import fp as FP
from .values import strconst_axioms


class Result(object):
    def __init__(self, name, kind, status, backend, secs, model=None, line=0, fn='', case='', size=0,
                 detail=''):
        self.name = name
        self.kind = kind
        self.status = status       # 'unsat' (discharged) | 'sat' | 'unknown'
        self.backend = backend
        self.secs = secs
        self.model = model
        self.line = line
        self.fn = fn
        self.case = case
        self.size = size
        self.detail = detail

    def to_dict(self):
        return dict(name=self.name, kind=self.kind, status=self.status, backend=self.backend,
                    secs=round(self.secs, 4), model=self.model, line=self.line, fn=self.fn,
                    case=self.case, size=self.size, detail=self.detail)


def uses_decl(fs, decl_name):
    seen = set()
    stack = list(fs)
    while stack:
        t = stack.pop()
        k = t.get_id()
        if k in seen:
            continue
        seen.add(k)
        if z3.is_app(t):
            if t.decl().name() == decl_name:
                return True
            stack.extend(t.children())
        elif z3.is_quantifier(t):
            stack.append(t.body())
    return False


def formulas_for(obl, axioms=()):
    fs = list(obl.assumptions) + list(obl.fplog.facts) + obl.fplog.landmark_facts() \
        + strconst_axioms() + list(axioms)
    fs += FP.commutativity_instances(fs + [obl.goal])
    return fs, obl.goal


def model_to_dict(m, limit=60):
    out = {}
    for d in m.decls():
        if d.arity() == 0:
            nm = d.name()
            if nm.startswith(('emptyarr', 'emptymap', 'k!', 'j!')):
                continue
            try:
                out[nm] = str(m[d])[:200]
            except Exception:
                pass
        if len(out) >= limit:
            break
    return out


_IGNORED_KINDS = None


def symbols_of(f, cache):
    """names of the uninterpreted constants / functions occurring in f"""
    k = f.get_id()
    if k in cache:
        return cache[k]
    out = set()
    seen = set()
    stack = [f]
    while stack:
        t = stack.pop()
        i = t.get_id()
        if i in seen:
            continue
        seen.add(i)
        if z3.is_app(t):
            d = t.decl()
            if d.kind() == z3.Z3_OP_UNINTERPRETED:
                out.add(d.name())
            stack.extend(t.children())
        elif z3.is_quantifier(t):
            stack.append(t.body())
    cache[k] = out
    return out


def relevant_slice(fs, goal, rounds):
    """assumptions within `rounds` steps of symbol sharing from the goal (a subset: proving the
    goal from it is sound)"""
    cache = {}
    syms = set(symbols_of(goal, cache))
    chosen = [False] * len(fs)
    for _ in range(rounds):
        new = set()
        for i, a in enumerate(fs):
            if not chosen[i]:
                sa = symbols_of(a, cache)
                if sa & syms or not sa:
                    chosen[i] = True
                    new |= sa
        if not new - syms:
            break
        syms |= new
    return [a for i, a in enumerate(fs) if chosen[i]]


def discharge_portfolio(obl, timeout_ms, axioms=(), want_model=True, seeds=(0, 7, 23, 101)):
    """second attempt at an `unknown`: z3 under several random seeds and cvc5, concurrently, the
    first definite answer wins (e-matching proofs that take 50 ms under one seed can run for
    minutes under another; a portfolio makes the verdict independent of that)"""
    from concurrent.futures import ThreadPoolExecutor, as_completed
    t0 = time.time()
    fs, goal = formulas_for(obl, axioms)
    s = z3.Solver()
    for f in fs:
        s.add(f)
    s.add(z3.Not(goal))
    txt = s.to_smt2()
    jobs = [('z3[seed=%d]' % k, lambda k=k: run_z3_text(txt, timeout_ms, want_model, extra=('smt.random_seed=%d' % k,)))
            for k in seeds]
    jobs.append(('cvc5', lambda: run_cvc5_text(txt, timeout_ms, want_model)))
    best = None
    with ThreadPoolExecutor(max_workers=len(jobs)) as pool:
        futs = dict((pool.submit(fn), name) for name, fn in jobs)
        for fu in as_completed(futs):
            st, d2, model = fu.result()
            if st in ('unsat', 'sat') and best is None:
                best = (st, futs[fu], model)
                _kill_children()
    if best:
        return Result(obl.name, obl.kind, best[0], best[1], time.time() - t0, model=best[2], line=obl.line,
                      fn=obl.fn, case=obl.case, size=len(txt), detail='portfolio')
    return Result(obl.name, obl.kind, 'unknown', 'z3x%d+cvc5' % len(seeds), time.time() - t0, line=obl.line,
                  fn=obl.fn, case=obl.case, size=len(txt), detail='portfolio: all unknown')


_running = set()


def _kill_children():
    for p in list(_running):
        try:
            p.kill()
        except Exception:
            pass


def _run_proc(argv, secs):
    p = subprocess.Popen(argv, stdout=subprocess.PIPE, stderr=subprocess.PIPE, text=True)
    _running.add(p)
    try:
        out, err = p.communicate(timeout=secs)
        return out, err
    except subprocess.TimeoutExpired:
        p.kill()
        p.communicate()
        return None, None
    finally:
        _running.discard(p)


def discharge(obl, timeout_ms=10000, axioms=(), want_model=True, try_cvc5=True):
    """z3 first for container VCs; cvc5 first for float-model VCs (mixed integer/real linear
    arithmetic with tiny coefficients, where z3's simplex stalls and cvc5 answers in
    milliseconds); the other solver gets the `unknown`s."""
    t0 = time.time()
    g = z3.simplify(obl.goal)
    if z3.is_true(g):
        return Result(obl.name, obl.kind, 'unsat', 'simplifier', time.time() - t0, line=obl.line,
                      fn=obl.fn, case=obl.case)
    fs, goal = formulas_for(obl, axioms)
    # first attempts: slices of the assumptions by symbol relevance (sound: fewer assumptions)
    if len(fs) > 60 and os.environ.get('PYVC_SLICE'):
        for rounds in (1, 2, 3):
            sub = relevant_slice(fs, goal, rounds)
            if len(sub) >= 0.8 * len(fs):
                break
            ss = z3.Solver()
            for f in sub:
                ss.add(f)
            ss.add(z3.Not(goal))
            st_, _, _ = run_z3_text(ss.to_smt2(), min(3000, timeout_ms), False)
            if st_ == 'unsat':
                return Result(obl.name, obl.kind, 'unsat', 'z3', time.time() - t0, line=obl.line,
                              fn=obl.fn, case=obl.case, size=len(sub),
                              detail='proved from %d of %d assumptions (relevance slice, %d rounds)'
                              % (len(sub), len(fs), rounds))
    s = z3.Solver()
    for f in fs:
        s.add(f)
    s.add(z3.Not(goal))
    txt = s.to_smt2()
    size = len(txt)
    floaty = len(obl.fplog.ops) > 0 and '(lambda' not in txt
    order = ['cvc5', 'z3'] if (floaty and try_cvc5) else (['z3', 'cvc5'] if try_cvc5 else ['z3'])
    detail = ''
    first = True
    for backend in order:
        tmo = timeout_ms if first else max(timeout_ms, 2000)
        first = False
        if backend == 'z3':
            st, d2, model = run_z3_text(txt, tmo, want_model)
            if st in ('unsat', 'sat'):
                return Result(obl.name, obl.kind, st, 'z3', time.time() - t0, model=model,
                              line=obl.line, fn=obl.fn, case=obl.case, size=size, detail=detail)
            detail += ' z3: ' + d2
        else:
            st, d2, model = run_cvc5_text(txt, tmo, want_model)
            if st in ('unsat', 'sat'):
                return Result(obl.name, obl.kind, st, 'cvc5', time.time() - t0, model=model,
                              line=obl.line, fn=obl.fn, case=obl.case, size=size, detail=detail)
            detail += ' cvc5: ' + d2
    return Result(obl.name, obl.kind, 'unknown', '+'.join(order), time.time() - t0, line=obl.line,
                  fn=obl.fn, case=obl.case, size=size, detail=detail.strip())


def run_z3_text(txt, timeout_ms, want_model=False, extra=()):
    """z3 as a subprocess (z3-new 5.1): a hard wall-clock limit, unlike the in-process timeout"""
    if want_model:
        txt = txt + '\n(get-model)\n'
    fd, path = tempfile.mkstemp(suffix='.smt2', prefix='pyvcz')
    try:
        with os.fdopen(fd, 'w') as f:
            f.write(txt)
        secs = max(1, int(round(timeout_ms / 1000.0)))
        so, se = _run_proc(['z3-new', '-T:%d' % secs] + list(extra) + [path], secs + 5)
        if so is None:
            return 'unknown', 'timeout', None

        class p:
            stdout, stderr = so, se
        out = p.stdout.strip().splitlines()
        if out and out[0] in ('unsat', 'sat', 'unknown'):
            model = None
            if out[0] == 'sat' and want_model:
                model = parse_cvc5_model('\n'.join(out[1:]))
            return out[0], '', model
        return 'unknown', (p.stdout + p.stderr)[:200].replace('\n', ' '), None
    finally:
        try:
            os.unlink(path)
        except OSError:
            pass


def run_cvc5_text(txt, timeout_ms, want_model=False):
    if '(lambda' in txt:
        return 'skipped', 'lambda terms are outside cvc5 first-order input', None
    txt = '(set-logic ALL)\n' + txt
    if want_model:
        txt = '(set-option :produce-models true)\n' + txt + '\n(get-model)\n'
    fd, path = tempfile.mkstemp(suffix='.smt2', prefix='pyvc')
    try:
        with os.fdopen(fd, 'w') as f:
            f.write(txt)
        so, se = _run_proc(['/usr/bin/cvc5', '--tlimit=%d' % timeout_ms, path], timeout_ms / 1000.0 + 5)
        if so is None:
            return 'unknown', 'timeout', None

        class p:
            stdout, stderr = so, se
        out = p.stdout.strip().splitlines()
        if out and out[0] in ('unsat', 'sat', 'unknown'):
            model = None
            if out[0] == 'sat' and want_model:
                model = parse_cvc5_model('\n'.join(out[1:]))
            return out[0], (p.stderr.strip()[:200]), model
        return 'unknown', (p.stdout + p.stderr)[:200], None
    finally:
        try:
            os.unlink(path)
        except OSError:
            pass


def parse_cvc5_model(txt):
    """(define-fun name () Sort value) lines -> {name: value-string} for scalars."""
    import re
    out = {}
    for m in re.finditer(r'\(define-fun\s+(\S+)\s+\(\)\s+(Int|Real|Bool)\s+(.+?)\)\s*(?=\(define-fun|\)\s*$|$)', txt, re.S):
        out[m.group(1).strip('|')] = ' '.join(m.group(3).split())
        if len(out) > 80:
            break
    return out


def run_cvc5(solver, timeout_ms):
    st, d, _ = run_cvc5_text(solver.to_smt2(), timeout_ms)
    return st, d


def cross_check_cvc5(obl, timeout_ms=20000, axioms=()):
    """Thorough tier: re-run a z3-unsat obligation on cvc5."""
    fs, goal = formulas_for(obl, axioms)
    s = z3.Solver()
    for f in fs:
        s.add(f)
    s.add(z3.Not(goal))
    return run_cvc5(s, timeout_ms)
