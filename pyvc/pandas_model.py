"""ASSUMED contracts of pandas / numpy objects, as an abstraction of DataFrame and Series.

Nothing here is verified: every operation is an assumption about the installed pandas,
listed in the evidence (`trusted_base`) and conformance-sampled against the real library by
replay/conformance.py.

  DataFrame = (cols: [Val], rows: [[Val]], index: [Val], dtypes: [Val])
              invariant: every row has len(cols) cells; len(index) = len(rows); len(dtypes) = len(cols)
  Series    = (vals: [Val], dtype: Val, index: [Val])
  BoolSeries= (vals: [Bool], index: [Val])
Row selection operations (boolean mask, dropna) return the selected rows in order, described by
fresh strictly increasing index maps; positional slices keep positions.
"""
import ast
import z3
from .types import *  # noqa
from .values import *  # noqa
from .contract import Undecided
from .executor import Iter
from . import natives as N

LV = ListT(VAL)
ROWS = ListT(LV)
LB = ListT(BOOL)
DF = RecT('DF', (('cols', LV), ('rows', ROWS), ('index', LV), ('dtypes', LV)))
SER = RecT('Series', (('vals', LV), ('dtype', VAL), ('index', LV)))
BSER = RecT('BSeries', (('vals', LB), ('index', LV)))

I = z3.IntSort()
OBJECT_DTYPE = z3.Const('dtype!object', ValSort)
dtype_is_string = z3.Function('dtype_is_string', ValSort, z3.BoolSort())     # pd.api.types.is_string_dtype


def dtype_is_object(d):
    return d == OBJECT_DTYPE


def dtype_is_numeric(d):
    return z3.And(d != OBJECT_DTYPE, z3.Not(dtype_is_string(d)))
val_of_int = z3.Function('val_of_int', I, ValSort)          # cell holding the Python int i


def col_index(cols_t, nm):
    """position of a column name (first occurrence) = list.index"""
    return L_index(LV, cols_t, nm)


def dtype_axioms(with_ints=True):
    i, j = z3.Ints('i!vi j!vi')
    out = [dtype_is_string(OBJECT_DTYPE)]
    if with_ints:
        out += [z3.ForAll([i, j], z3.Implies(val_of_int(i) == val_of_int(j), i == j),
                          patterns=[z3.MultiPattern(val_of_int(i), val_of_int(j))]),
                z3.ForAll([i], z3.Not(N.val_isnull(val_of_int(i))), patterns=[val_of_int(i)])]
    return out


def df_inv(v):
    j = z3.Int('j!dfinv')
    rows = rec_field(v, 'rows')
    cols = rec_field(v, 'cols')
    return [L_len(LV, R_get(DF, v.t, 'index')) == L_len(ROWS, rows.t),
            L_len(LV, R_get(DF, v.t, 'dtypes')) == L_len(LV, cols.t),
            z3.ForAll([j], z3.Implies(z3.And(j >= 0, j < L_len(ROWS, rows.t)),
                                      L_len(LV, L_get(ROWS, rows.t, j)) == L_len(LV, cols.t)),
                      patterns=[L_get(ROWS, rows.t, j)])]


def ser_inv(v):
    return [L_len(LV, R_get(SER, v.t, 'index')) == L_len(LV, R_get(SER, v.t, 'vals'))]


def bser_inv(v):
    return [L_len(LV, R_get(BSER, v.t, 'index')) == L_len(LB, R_get(BSER, v.t, 'vals'))]


REC_INVARIANTS['DF'] = df_inv
REC_INVARIANTS['Series'] = ser_inv
REC_INVARIANTS['BSeries'] = bser_inv


def is_df(v):
    return isinstance(v.ty, RecT) and v.ty.name == 'DF'


def is_ser(v):
    return isinstance(v.ty, RecT) and v.ty.name == 'Series'


def is_bser(v):
    return isinstance(v.ty, RecT) and v.ty.name == 'BSeries'


def note(ex, what):
    ex.assumed_log.append('pandas: ' + what + ' [assumed]')


def fresh_assumed(ex, st, ty, name):
    v = fresh(ty, name)
    for f in wf(v):
        st.assume(f)
    return v


col_vals = z3.Function('col_vals', sort_of(DF), I, sort_of(LV))      # values of the column at position p
isnull_list = z3.Function('isnull_list', sort_of(LV), sort_of(LB))
notnull_list = z3.Function('notnull_list', sort_of(LV), sort_of(LB))


def column_position(ex, st, cols, name, node, label='column-exists'):
    """position p of column `name` (first occurrence); KeyError obligation if absent."""
    nm = to_val(name).t
    ex.oblige(st, 'safety', label, L_has(LV, cols.t, nm), node)
    p = col_index(cols.t, nm)
    for f in L_index_facts(LV, cols.t, nm):
        st.assume(f)
    return p


sel_rows = z3.Function('sel_rows', sort_of(ROWS), sort_of(LB), sort_of(ROWS))    # rows[mask]
sel_index = z3.Function('sel_index', sort_of(LV), sort_of(LB), sort_of(LV))
sel_src = z3.Function('sel_src', sort_of(LB), I, I)      # position in the result -> position in the source
sel_dst = z3.Function('sel_dst', sort_of(LB), I, I)      # position in the source -> position in the result


def selection_facts(rows_t, index_t, mask_t):
    """facts defining sel_rows(rows, mask) / sel_index(index, mask): the rows whose mask entry is
    True, in order.  sel_src / sel_dst depend on the mask only."""
    n = L_len(ROWS, rows_t)
    nr, ni = sel_rows(rows_t, mask_t), sel_index(index_t, mask_t)
    m = L_len(ROWS, nr)
    src = lambda q: sel_src(mask_t, q)
    dst = lambda q: sel_dst(mask_t, q)
    keep = lambda q: L_get(LB, mask_t, q)
    p, p2, j = z3.Ints('p!sel p2!sel j!sel')
    return [
        z3.And(m >= 0, m <= n, L_len(LV, ni) == m),
        z3.ForAll([p], z3.Implies(z3.And(p >= 0, p < m), z3.And(
            src(p) >= 0, src(p) < n, keep(src(p)), dst(src(p)) == p,
            L_get(ROWS, nr, p) == L_get(ROWS, rows_t, src(p)),
            L_get(LV, ni, p) == L_get(LV, index_t, src(p)))), patterns=[src(p), L_get(ROWS, nr, p)]),
        z3.ForAll([p, p2], z3.Implies(z3.And(p >= 0, p < p2, p2 < m), src(p) < src(p2)),
                  patterns=[z3.MultiPattern(src(p), src(p2))]),
        z3.ForAll([j], z3.Implies(z3.And(j >= 0, j < n, keep(j)), z3.And(
            dst(j) >= 0, dst(j) < m, src(dst(j)) == j)), patterns=[dst(j)]),
        z3.Implies(z3.ForAll([j], z3.Implies(z3.And(j >= 0, j < n), z3.Not(keep(j))), patterns=[keep(j)]), m == 0),
        z3.Implies(z3.ForAll([j], z3.Implies(z3.And(j >= 0, j < n), keep(j)), patterns=[keep(j)]), m == n),
    ]


def select_rows(ex, st, rows, index, mask_t):
    """(new_rows V, new_index V) for the boolean mask list term."""
    for f in selection_facts(rows.t, index.t, mask_t):
        st.assume(f)
    return V(ROWS, sel_rows(rows.t, mask_t)), V(LV, sel_index(index.t, mask_t))


# ------------------------------------------------------------------ isinstance
def isinstance_df(ex, st, v, e):
    return vbool(is_df(v))


N.ISINSTANCE['pandas.DataFrame'] = isinstance_df


# ------------------------------------------------------------------------ len
def len_rec(ex, st, v, e):
    if is_df(v):
        return V(INT, L_len(ROWS, R_get(DF, v.t, 'rows')))
    if is_ser(v):
        return V(INT, L_len(LV, R_get(SER, v.t, 'vals')))
    if is_bser(v):
        return V(INT, L_len(LB, R_get(BSER, v.t, 'vals')))
    raise Undecided('len of %r' % (v.ty,))


N.LEN['RecT'] = len_rec


# ----------------------------------------------------------------- attributes
def attr_columns(ex, st, v, node):
    if is_df(v):
        return rec_field(v, 'cols')
    return None


def attr_values(ex, st, v, node):
    if is_df(v):
        note(ex, 'DataFrame.values is the array of rows')
        return rec_field(v, 'rows')
    if isinstance(v.ty, ListT):
        return v
    return None


def attr_dtype(ex, st, v, node):
    if is_ser(v):
        return rec_field(v, 'dtype')
    return None


def attr_empty(ex, st, v, node):
    if is_df(v):
        note(ex, 'DataFrame.empty iff it has no rows or no columns')
        return vbool(z3.Or(L_len(ROWS, R_get(DF, v.t, 'rows')) == 0, L_len(LV, R_get(DF, v.t, 'cols')) == 0))
    return None


N.ATTRS[('RecT', 'columns')] = attr_columns
N.ATTRS[('RecT', 'values')] = attr_values
N.ATTRS[('ListT', 'values')] = attr_values
N.ATTRS[('RecT', 'dtype')] = attr_dtype
N.ATTRS[('RecT', 'empty')] = attr_empty


# ------------------------------------------------------------------ subscript
def df_column(ex, st, df, name, node):
    cols = rec_field(df, 'cols')
    p = column_position(ex, st, cols, name, node)
    rows = rec_field(df, 'rows')
    j = z3.Int('j!col')
    vals = col_vals(df.t, p)
    st.assume(L_len(LV, vals) == L_len(ROWS, rows.t))
    st.assume(z3.ForAll([j], z3.Implies(z3.And(j >= 0, j < L_len(ROWS, rows.t)),
                                        L_get(LV, vals, j) == L_get(LV, L_get(ROWS, rows.t, j), p)),
                        patterns=[L_get(LV, vals, j), L_get(ROWS, rows.t, j)]))
    ser = R_mk(SER, vals=vals, dtype=L_get(LV, R_get(DF, df.t, 'dtypes'), p), index=R_get(DF, df.t, 'index'))
    note(ex, 'df[name] is the column as a Series (values in row order, same index, its dtype)')
    return V(SER, ser)


proj_rows = z3.Function('proj_rows', sort_of(ROWS), sort_of(LV), sort_of(LV), sort_of(ROWS))   # rows, cols, names
proj_dtypes = z3.Function('proj_dtypes', sort_of(LV), sort_of(LV), sort_of(LV), sort_of(LV))


def projection_facts(rows_t, cols_t, dtypes_t, names_t):
    """facts defining proj_rows(rows, cols, names): column c of the result is the (first) column of
    the source named names[c]"""
    k = L_len(LV, names_t)
    n = L_len(ROWS, rows_t)
    nrows = proj_rows(rows_t, cols_t, names_t)
    ndt = proj_dtypes(dtypes_t, cols_t, names_t)
    j, c = z3.Ints('j!proj c!proj')
    pos = lambda q: L_index(LV, cols_t, L_get(LV, names_t, q))
    return [z3.And(L_len(ROWS, nrows) == n, L_len(LV, ndt) == k),
            z3.ForAll([j], z3.Implies(z3.And(j >= 0, j < n), L_len(LV, L_get(ROWS, nrows, j)) == k),
                      patterns=[L_get(ROWS, nrows, j), L_get(ROWS, rows_t, j)]),
            z3.ForAll([j, c], z3.Implies(z3.And(j >= 0, j < n, c >= 0, c < k),
                                         L_get(LV, L_get(ROWS, nrows, j), c) ==
                                         L_get(LV, L_get(ROWS, rows_t, j), pos(c))),
                      patterns=[L_get(LV, L_get(ROWS, nrows, j), c),
                                z3.MultiPattern(L_get(ROWS, rows_t, j), L_get(LV, names_t, c))]),
            z3.ForAll([c], z3.Implies(z3.And(c >= 0, c < k), L_get(LV, ndt, c) == L_get(LV, dtypes_t, pos(c))),
                      patterns=[L_get(LV, ndt, c)])]


def df_project(ex, st, df, names, node):
    cols, rows = rec_field(df, 'cols'), rec_field(df, 'rows')
    k = L_len(LV, names.t)
    j = z3.Int('j!proj')
    ex.oblige(st, 'safety', 'projected-columns-exist',
              z3.ForAll([j], z3.Implies(z3.And(j >= 0, j < k), L_has(LV, cols.t, L_get(LV, names.t, j))),
                        patterns=[L_get(LV, names.t, j)]), node)
    dts = R_get(DF, df.t, 'dtypes')
    for f in projection_facts(rows.t, cols.t, dts, names.t):
        st.assume(f)
    note(ex, 'df[list] projects the named columns in the given order, all rows, same index')
    return V(DF, R_mk(DF, cols=names.t, rows=proj_rows(rows.t, cols.t, names.t), index=R_get(DF, df.t, 'index'),
                      dtypes=proj_dtypes(dts, cols.t, names.t)))


def df_mask(ex, st, df, mask_t, node, what):
    rows, index = rec_field(df, 'rows'), rec_field(df, 'index')
    ex.oblige(st, 'safety', 'mask-length-matches', L_len(LB, mask_t) == L_len(ROWS, rows.t), node)
    nr, ni = select_rows(ex, st, rows, index, mask_t)
    note(ex, what)
    return V(DF, R_mk(DF, cols=R_get(DF, df.t, 'cols'), rows=nr.t, index=ni.t,
                      dtypes=R_get(DF, df.t, 'dtypes')))


def rec_subscript(ex, st, base, k, node):
    if is_df(base):
        if isinstance(k.ty, (ValT, StrConstT)):
            return df_column(ex, st, base, k, node)
        if isinstance(k.ty, ListT) and isinstance(k.ty.elem, ValT):
            return df_project(ex, st, base, k, node)
        if is_bser(k):
            vals = R_get(BSER, k.t, 'vals')
            return df_mask(ex, st, base, vals, node,
                           'df[boolean Series] keeps exactly the rows whose mask entry is True, in order, with their index labels')
        if isinstance(k.ty, ListT) and isinstance(k.ty.elem, BoolT):
            return df_mask(ex, st, base, k.t, node,
                           'df[list of bool] keeps exactly the rows whose mask entry is True, in order, with their index labels')
        raise Undecided('DataFrame indexed by %r (line %d)' % (k.ty, node.lineno))
    return None


_prev_subscript = N.Natives.subscript


def _subscript(self, ex, st, base, k, node):
    if isinstance(base.ty, RecT):
        return rec_subscript(ex, st, base, k, node)
    return None


N.Natives.subscript = _subscript


slice_rows = z3.Function('slice_rows', sort_of(ROWS), I, I, sort_of(ROWS))      # rows[a:b], 0 <= a <= b <= len
slice_labels = z3.Function('slice_labels', sort_of(LV), I, I, sort_of(LV))


def df_slice(ex, st, base, lo, hi, node):
    """df[a:b]: the positional row slice (rows and index labels); described by uninterpreted
    functions with element facts rather than lambda terms (keeps the VCs first-order)"""
    if not is_df(base):
        raise Undecided('slice of %r' % (base.ty,))
    rows, index = rec_field(base, 'rows'), rec_field(base, 'index')
    n = L_len(ROWS, rows.t)
    lo_t = z3.IntVal(0) if lo is None or isinstance(lo.ty, NoneT) else ex.need_int(st, lo, node, 'slice-index-int').t
    hi_t = n if hi is None or isinstance(hi.ty, NoneT) else ex.need_int(st, hi, node, 'slice-index-int').t
    # negative bounds count from the end in Python; the verified code never uses them: obligation
    ex.oblige(st, 'safety', 'slice-bounds-non-negative', z3.And(lo_t >= 0, hi_t >= 0), node)
    a = z3.If(lo_t > n, n, lo_t)
    b = z3.If(hi_t > n, n, hi_t)
    a_, b_ = z3.Int(fresh_name('sl_a')), z3.Int(fresh_name('sl_b'))
    st.assume(z3.And(a_ == a, b_ == b))
    nr, ni = slice_rows(rows.t, a_, b_), slice_labels(index.t, a_, b_)
    ln_ = z3.If(b_ > a_, b_ - a_, 0)
    j = z3.Int('j!sl')
    st.assume(z3.And(L_len(ROWS, nr) == ln_, L_len(LV, ni) == ln_))
    st.assume(z3.ForAll([j], z3.Implies(z3.And(j >= 0, j < ln_), z3.And(
        L_get(ROWS, nr, j) == L_get(ROWS, rows.t, a_ + j), L_get(LV, ni, j) == L_get(LV, index.t, a_ + j))),
        patterns=[L_get(ROWS, nr, j), L_get(LV, ni, j)]))
    note(ex, 'df[a:b] is the positional row slice, with the index labels of those rows')
    return V(DF, R_mk(DF, cols=R_get(DF, base.t, 'cols'), rows=nr, index=ni, dtypes=R_get(DF, base.t, 'dtypes')))


N.SLICERS['RecT'] = df_slice


# -------------------------------------------------------------------- methods
def m_itertuples(ex, st, recv, args, kw, e):
    if not is_df(recv):
        raise Undecided('itertuples on %r' % (recv.ty,))
    idx = kw.get('index')
    if idx is None or not z3.is_false(z3.simplify(idx.t)):
        raise Undecided('itertuples(index=True)')
    rows = rec_field(recv, 'rows')
    note(ex, 'itertuples(index=False) yields the rows in order, cells in column order')
    return ex.as_iter(st, rows, e)


def m_dropna(ex, st, recv, args, kw, e):
    if not is_df(recv):
        raise Undecided('dropna on %r' % (recv.ty,))
    subset = kw.get('subset')
    if subset is None or not isinstance(subset.ty, ListT):
        raise Undecided('dropna without subset')
    n = z3.simplify(L_len(subset.ty, subset.t))
    if not (z3.is_int_value(n) and n.as_long() == 1):
        raise Undecided('dropna(subset=...) with other than one column')
    name = V(VAL, L_get(LV, subset.t, z3.IntVal(0)))
    cols, rows, index = rec_field(recv, 'cols'), rec_field(recv, 'rows'), rec_field(recv, 'index')
    ser = df_column(ex, st, recv, name, e)
    mask = isnull_of(ex, st, ser, True, e)
    nr, ni = select_rows(ex, st, rows, index, R_get(BSER, mask.t, 'vals'))
    note(ex, 'dropna(axis=0, subset=[a]) keeps exactly the rows whose cell a is not null, in order')
    return V(DF, R_mk(DF, cols=cols.t, rows=nr.t, index=ni.t, dtypes=R_get(DF, recv.t, 'dtypes')))


nunique = z3.Function('nunique', sort_of(LV), I)        # number of distinct values (NaN counting once)
count_true = z3.Function('count_true', sort_of(LB), I)


def m_unique(ex, st, recv, args, kw, e):
    if not is_ser(recv):
        raise Undecided('unique on %r' % (recv.ty,))
    vals = rec_field(recv, 'vals')
    u = fresh_assumed(ex, st, LV, 'unique')
    n = L_len(LV, vals.t)
    k = nunique(vals.t)
    i, j = z3.Ints('i!u j!u')
    st.assume(z3.And(L_len(LV, u.t) == k, k >= 0, k <= n, z3.Implies(n > 0, k >= 1)))
    # k == n  iff  the values are pairwise distinct
    distinct = z3.ForAll([i, j], z3.Implies(z3.And(i >= 0, i < j, j < n),
                                            L_get(LV, vals.t, i) != L_get(LV, vals.t, j)),
                         patterns=[z3.MultiPattern(L_get(LV, vals.t, i), L_get(LV, vals.t, j))])
    st.assume(z3.Implies(k == n, distinct))
    st.assume(z3.Implies(distinct, k == n))
    note(ex, 'Series.unique() has one entry per distinct value (missing counting as one value)')
    return u


def m_isnull(ex, st, recv, args, kw, e):
    return isnull_of(ex, st, recv, False, e)


def isnull_of(ex, st, x, negate, e):
    if isinstance(x.ty, (ValT,)):
        b = N.val_isnull(x.t)
        return vbool(z3.Not(b) if negate else b)
    if isinstance(x.ty, StrConstT):
        return vbool(negate)
    if isinstance(x.ty, NoneT):
        return vbool(not negate)
    if isinstance(x.ty, (IntT, FloatT, BoolT)):
        return vbool(negate)
    if is_ser(x):
        vals = rec_field(x, 'vals')
        j = z3.Int('j!isnull')
        f = notnull_list if negate else isnull_list
        out = f(vals.t)
        body = N.val_isnull(L_get(LV, vals.t, j))
        st.assume(L_len(LB, out) == L_len(LV, vals.t))
        st.assume(z3.ForAll([j], z3.Implies(z3.And(j >= 0, j < L_len(LV, vals.t)),
                                            L_get(LB, out, j) == (z3.Not(body) if negate else body)),
                            patterns=[L_get(LB, out, j), L_get(LV, vals.t, j)]))
        note(ex, 'pd.isnull / notnull on a Series is elementwise')
        return V(BSER, R_mk(BSER, vals=out, index=R_get(SER, x.t, 'index')))
    raise Undecided('isnull of %r (line %d)' % (x.ty, e.lineno))


def q_isnull(ex, st, args, kw, e):
    return isnull_of(ex, st, args[0], False, e)


def q_notnull(ex, st, args, kw, e):
    return isnull_of(ex, st, args[0], True, e)


def b_sum(ex, st, args, kw, e):
    x = args[0]
    if is_bser(x):
        vals = R_get(BSER, x.t, 'vals')
        n = L_len(LB, vals)
        c = count_true(vals)
        j = z3.Int('j!sum')
        st.assume(z3.And(c >= 0, c <= n))
        none_true = z3.ForAll([j], z3.Implies(z3.And(j >= 0, j < n), z3.Not(L_get(LB, vals, j))),
                              patterns=[L_get(LB, vals, j)])
        st.assume(z3.Implies(c == 0, none_true))
        st.assume(z3.Implies(none_true, c == 0))
        note(ex, 'sum(boolean Series) counts the True entries')
        return V(INT, c)
    raise Undecided('sum() of %r (line %d)' % (x.ty, e.lineno))


N.BUILTINS['sum'] = b_sum


def q_dataframe(ex, st, args, kw, e):
    """pd.DataFrame(list_of_rows, columns=header)"""
    rows = args[0]
    header = kw.get('columns')
    if header is None or not isinstance(header.ty, ListT):
        raise Undecided('pd.DataFrame without columns=')
    if isinstance(rows.ty, ListT) and rows.t is None:
        rows = V(ROWS, L_empty(ROWS))
    if isinstance(rows.ty, ListT) and isinstance(rows.ty.elem, TupleT) and \
            all(isinstance(t, ValT) for t in rows.ty.elem.elems):
        # list of tuples of cells: same as a list of rows of that width
        tt = rows.ty.elem
        w = len(tt.elems)
        nrows = fresh(ROWS, 'tuple_rows')
        jj, cc = z3.Ints('j!tr c!tr')
        n0 = L_len(rows.ty, rows.t)
        st.assume(L_len(ROWS, nrows.t) == n0)
        st.assume(z3.ForAll([jj], z3.Implies(z3.And(jj >= 0, jj < n0), z3.And(
            L_len(LV, L_get(ROWS, nrows.t, jj)) == w,
            *[L_get(LV, L_get(ROWS, nrows.t, jj), z3.IntVal(q)) == T_get(tt, L_get(rows.ty, rows.t, jj), q)
              for q in range(w)])), patterns=[L_get(ROWS, nrows.t, jj)]))
        rows = nrows
    if rows.ty != ROWS:
        raise Undecided('pd.DataFrame from %r (line %d)' % (rows.ty, e.lineno))
    j = z3.Int('j!mkdf')
    n = L_len(ROWS, rows.t)
    k = L_len(LV, header.t)
    # pandas: ValueError("k columns passed, passed data had w columns") unless the widest row has
    # exactly k cells; shorter rows are padded with missing values.  The verified code must build
    # rows of uniform length k.
    ex.oblige(st, 'safety', 'DataFrame-rows-match-header',
              z3.ForAll([j], z3.Implies(z3.And(j >= 0, j < n), L_len(LV, L_get(ROWS, rows.t, j)) == k),
                        patterns=[L_get(ROWS, rows.t, j)]), e)
    idx = fresh_assumed(ex, st, LV, 'rangeindex')
    dts = fresh_assumed(ex, st, LV, 'dtypes')
    st.assume(z3.And(L_len(LV, idx.t) == n, L_len(LV, dts.t) == k))
    st.assume(z3.ForAll([j], z3.Implies(z3.And(j >= 0, j < n), L_get(LV, idx.t, j) == val_of_int(j)),
                        patterns=[L_get(LV, idx.t, j)]))
    note(ex, 'pd.DataFrame(rows, columns=h): rows and columns as given, RangeIndex; raises unless row width == len(h)')
    return V(DF, R_mk(DF, cols=header.t, rows=rows.t, index=idx.t, dtypes=dts.t))


def q_concat(ex, st, args, kw, e):
    """pd.concat([a, b]) for a two-element literal list; pd.concat(list_of_frames)."""
    lst = args[0]
    if isinstance(lst.ty, ListT) and lst.ty.elem == DF:
        n = z3.simplify(L_len(lst.ty, lst.t))
        if z3.is_int_value(n) and n.as_long() == 2:
            a = V(DF, L_get(lst.ty, lst.t, z3.IntVal(0)))
            b = V(DF, L_get(lst.ty, lst.t, z3.IntVal(1)))
            for f in wf(a) + wf(b):
                st.assume(f)
            ca, cb = rec_field(a, 'cols'), rec_field(b, 'cols')
            jj = z3.Int('j!cc')
            ex.oblige(st, 'safety', 'concat-same-columns', z3.Or(ca.t == cb.t, z3.And(
                L_len(LV, ca.t) == L_len(LV, cb.t),
                z3.ForAll([jj], z3.Implies(z3.And(jj >= 0, jj < L_len(LV, ca.t)),
                                           L_get(LV, ca.t, jj) == L_get(LV, cb.t, jj)),
                          patterns=[L_get(LV, ca.t, jj)]))), e)
            rows = N.NATIVES.list_concat(ex, st, rec_field(a, 'rows'), rec_field(b, 'rows'), e)
            idx = N.NATIVES.list_concat(ex, st, rec_field(a, 'index'), rec_field(b, 'index'), e)
            dts = fresh_assumed(ex, st, LV, 'dtypes')
            st.assume(L_len(LV, dts.t) == L_len(LV, R_get(DF, a.t, 'cols')))
            note(ex, 'pd.concat([a, b]): rows of a then rows of b, same columns, index labels kept')
            return V(DF, R_mk(DF, cols=R_get(DF, a.t, 'cols'), rows=rows.t, index=idx.t, dtypes=dts.t))
        h = N.SPECIAL.get('concat-many')
        if h:
            return h(ex, st, lst, e)
    raise Undecided('pd.concat of %r (line %d)' % (lst.ty, e.lineno))


def m_set_index(ex, st, recv, args, kw, e):
    """df.set_index(name): that column becomes the index and is removed from the columns."""
    if not is_df(recv):
        raise Undecided('set_index on %r' % (recv.ty,))
    cols, rows = rec_field(recv, 'cols'), rec_field(recv, 'rows')
    p = column_position(ex, st, cols, args[0], e)
    out = fresh_assumed(ex, st, DF, 'indexed')
    n, k = L_len(ROWS, rows.t), L_len(LV, cols.t)
    ocols, orows, oidx = rec_field(out, 'cols'), rec_field(out, 'rows'), rec_field(out, 'index')
    j, c = z3.Ints('j!si c!si')
    src = lambda q: z3.If(q < p, q, q + 1)
    st.assume(z3.And(L_len(LV, ocols.t) == k - 1, L_len(ROWS, orows.t) == n))
    st.assume(z3.ForAll([c], z3.Implies(z3.And(c >= 0, c < k - 1), L_get(LV, ocols.t, c) == L_get(LV, cols.t, src(c))),
                        patterns=[L_get(LV, ocols.t, c)]))
    st.assume(z3.ForAll([j], z3.Implies(z3.And(j >= 0, j < n),
                                        L_get(LV, oidx.t, j) == L_get(LV, L_get(ROWS, rows.t, j), p)),
                        patterns=[L_get(LV, oidx.t, j)]))
    st.assume(z3.ForAll([j, c], z3.Implies(z3.And(j >= 0, j < n, c >= 0, c < k - 1),
                                           L_get(LV, L_get(ROWS, orows.t, j), c) ==
                                           L_get(LV, L_get(ROWS, rows.t, j), src(c))),
                        patterns=[L_get(LV, L_get(ROWS, orows.t, j), c)]))
    note(ex, 'df.set_index(name) moves that column into the index, other columns and row order unchanged')
    return out


N.METHODS['set_index'] = m_set_index
N.METHODS['itertuples'] = m_itertuples
N.METHODS['dropna'] = m_dropna
N.METHODS['unique'] = m_unique
N.METHODS['isnull'] = m_isnull
N.QUALIFIED['pandas.isnull'] = q_isnull
N.QUALIFIED['pandas.notnull'] = q_notnull
N.QUALIFIED['pandas.DataFrame'] = q_dataframe
N.QUALIFIED['pandas.concat'] = q_concat


# ------------------------------------------------------------- py_stringmatching
def isinstance_tokenizer(ex, st, v, e):
    return vbool(isinstance(v.ty, ObjT) and v.ty.cls == 'Tokenizer')


def isinstance_qgram(ex, st, v, e):
    if isinstance(v.ty, ObjT) and v.ty.cls == 'Tokenizer':
        return st.heap[v.t]['is_qgram']
    return vbool(False)


N.ISINSTANCE['py_stringmatching.tokenizer.tokenizer.Tokenizer'] = isinstance_tokenizer
N.ISINSTANCE['py_stringmatching.tokenizer.qgram_tokenizer.QgramTokenizer'] = isinstance_qgram


def q_is_string_dtype(ex, st, args, kw, e):
    d = args[0]
    if not isinstance(d.ty, ValT):
        raise Undecided('is_string_dtype of %r' % (d.ty,))
    note(ex, 'pd.api.types.is_string_dtype(dtype) is True for object and pandas string dtypes, False for numeric ones')
    st.assume(z3.Implies(dtype_is_object(d.t), dtype_is_string(d.t)))
    return vbool(dtype_is_string(d.t))


N.QUALIFIED['pandas.api.types.is_string_dtype'] = q_is_string_dtype


# ---------------------------------------------------------------- DataFrame.insert(0, name, range)
def m_df_insert(ex, st, lv, recv, args, e):
    if not is_df(recv):
        return None
    pos = z3.simplify(args[0].t)
    if not (z3.is_int_value(pos) and pos.as_long() == 0):
        raise Undecided('DataFrame.insert at a position other than 0')
    name = to_val(args[1])
    rng = args[2]
    if not isinstance(rng, Iter) or not hasattr(rng, 'lo'):
        raise Undecided('DataFrame.insert with a value other than range(...)')
    recv = ex.name_value(st, recv, 'frame')
    cols, rows = rec_field(recv, 'cols'), rec_field(recv, 'rows')
    cols, rows = ex.name_value(st, cols, 'frame_cols'), ex.name_value(st, rows, 'frame_rows')
    n = L_len(ROWS, rows.t)
    ex.oblige(st, 'safety', 'insert-length-matches', rng.length == n, e)
    ex.oblige(st, 'safety', 'insert-column-is-new', z3.Not(L_has(LV, cols.t, name.t)), e)
    j, c = z3.Ints('j!ins c!ins')
    k = L_len(LV, cols.t)
    ocols = L_mk(LV, k + 1, z3.Lambda([c], z3.If(c == 0, name.t, L_get(LV, cols.t, c - 1))))
    orows = L_mk(ROWS, n, z3.Lambda([j], L_mk(LV, k + 1, z3.Lambda([c], z3.If(
        c == 0, val_of_int(rng.lo + j), L_get(LV, L_get(ROWS, rows.t, j), c - 1))))))
    odt = fresh_assumed(ex, st, LV, 'dtypes')
    st.assume(L_len(LV, odt.t) == k + 1)
    out = V(DF, R_mk(DF, cols=ocols, rows=orows, index=R_get(DF, recv.t, 'index'), dtypes=odt.t))
    note(ex, 'df.insert(0, name, range(n)) prepends the column name with values 0..n-1; other columns, rows and index unchanged')
    ex.lv_write(st, lv, out)
    return vnone()


_prev_insert = N.METHODS_MUT['insert']


def _insert(ex, st, lv, recv, args, e):
    if isinstance(recv.ty, RecT):
        return m_df_insert(ex, st, lv, recv, args, e)
    return _prev_insert(ex, st, lv, recv, args, e)


N.METHODS_MUT['insert'] = _insert


# ------------------------------------------------- joblib: Parallel(n_jobs=k)(delayed(F)(args) for j in range(k))
def _consts_of(fs):
    out = {}
    seen = set()
    stack = list(fs)
    while stack:
        t = stack.pop()
        if t.get_id() in seen:
            continue
        seen.add(t.get_id())
        if z3.is_app(t):
            if t.num_args() == 0 and t.decl().kind() == z3.Z3_OP_UNINTERPRETED:
                out[t.decl().name()] = t
            stack.extend(t.children())
        elif z3.is_quantifier(t):
            stack.append(t.body())
    return out


def sp_parallel(ex, st, e):
    """results = [F(args_j) for j in range(k)], F run on copies of its arguments (ASSUMED joblib
    contract: each call behaves as the function's contract says, in order, no effect on the
    caller's state).  The callee's precondition is an obligation for an arbitrary j; its
    postcondition is assumed for every j."""
    gen = e.args[0]
    if not isinstance(gen, ast.GeneratorExp) or len(gen.generators) != 1 or gen.generators[0].ifs:
        raise Undecided('Parallel(...) applied to something other than a simple generator')
    comp = gen.generators[0]
    call = gen.elt
    if not (isinstance(call, ast.Call) and isinstance(call.func, ast.Call) and isinstance(call.func.func, ast.Name)
            and call.func.func.id == 'delayed' and len(call.func.args) == 1 and isinstance(comp.target, ast.Name)):
        raise Undecided('Parallel generator is not delayed(F)(args) for name in iterable')
    it = ex.as_iter(st, ex.eval(st, comp.iter), comp.iter)
    n = it.length
    j = z3.Int(fresh_name('job'))
    sub = st.fork()
    sub.pc += [j >= 0, j < n]
    sub.env[comp.target.id] = it.elem(j)
    before = set(a.get_id() for a in sub.pc)
    mark = fresh_counter()
    synthetic = ast.Call(func=call.func.args[0], args=call.args, keywords=call.keywords)
    ast.copy_location(synthetic, call)
    ast.fix_missing_locations(synthetic)
    res_j = ex.eval(sub, synthetic)
    if not is_ground(res_j.ty):
        raise Undecided('Parallel over a function returning %r' % (res_j.ty,))
    new = [a for a in sub.pc if a.get_id() not in before]
    lt = ListT(res_j.ty)
    results = fresh(lt, 'parallel_results')
    st.assume(L_len(lt, results.t) == n)
    # generalise over j: fresh constants created by the call become functions of j
    subst = []
    res_named = res_j.t
    for nm, cst in _consts_of(new + [res_named]).items():
        fi = fresh_index(nm)
        if fi is None or fi <= mark or cst.eq(j):
            continue              # only symbols created by this call depend on j
        if cst.eq(res_named):
            subst.append((cst, L_get(lt, results.t, j)))
        else:
            arr = z3.Const(fresh_name('par_' + nm.split('!')[0]), z3.ArraySort(I, cst.sort()))
            subst.append((cst, z3.Select(arr, j)))
    body = z3.And(*new) if new else z3.BoolVal(True)
    body = z3.substitute(body, *subst) if subst else body
    jq = z3.Int('j!par')
    body = z3.substitute(body, (j, jq))
    st.assume(z3.ForAll([jq], z3.Implies(z3.And(jq >= 0, jq < n), body), patterns=[L_get(lt, results.t, jq)]))
    note(ex, 'joblib.Parallel(n)(delayed(F)(a_j) ...) returns [F(a_j)] in order; F runs on copies, no effect on the caller')
    ex.assumed_log.append('joblib.Parallel / delayed [assumed: results in order, pure function of pickled arguments; real process scheduling not modelled]')
    return results


N.SPECIAL['joblib.Parallel'] = sp_parallel


def concat_many(ex, st, lst, e):
    """pd.concat(list_of_frames), all frames with the same columns"""
    lt = lst.ty
    n = L_len(lt, lst.t)
    frame = lambda q: V(DF, L_get(lt, lst.t, q))
    ex.oblige(st, 'safety', 'concat-non-empty-list', n >= 1, e)
    j, p, c = z3.Ints('j!cm p!cm c!cm')
    c0 = rec_field(frame(z3.IntVal(0)), 'cols')
    same_term = z3.ForAll([j], z3.Implies(z3.And(j >= 0, j < n), R_get(DF, frame(j).t, 'cols') == c0.t),
                          patterns=[L_get(lt, lst.t, j)])
    ex.oblige(st, 'safety', 'concat-same-columns', z3.Or(same_term, z3.ForAll([j, c], z3.Implies(
        z3.And(j >= 0, j < n), z3.And(
            L_len(LV, R_get(DF, frame(j).t, 'cols')) == L_len(LV, c0.t),
            z3.Implies(z3.And(c >= 0, c < L_len(LV, c0.t)),
                       L_get(LV, R_get(DF, frame(j).t, 'cols'), c) == L_get(LV, c0.t, c)))),
        patterns=[L_get(LV, R_get(DF, frame(j).t, 'cols'), c)])), e)
    out = fresh_assumed(ex, st, DF, 'concat')
    off = z3.Function(fresh_name('off'), I, I)
    orows, oidx = rec_field(out, 'rows'), rec_field(out, 'index')
    rows_of = lambda q: R_get(DF, frame(q).t, 'rows')
    st.assume(z3.And(off(0) == 0, L_len(ROWS, orows.t) == off(n), R_get(DF, out.t, 'cols') == c0.t))
    st.assume(z3.ForAll([j], z3.Implies(z3.And(j >= 0, j < n), z3.And(
        off(j + 1) == off(j) + L_len(ROWS, rows_of(j)), off(j) >= 0)), patterns=[off(j)]))
    st.assume(z3.ForAll([j, p], z3.Implies(z3.And(j >= 0, j < n, p >= 0, p < L_len(ROWS, rows_of(j))), z3.And(
        L_get(ROWS, orows.t, off(j) + p) == L_get(ROWS, rows_of(j), p),
        L_get(LV, oidx.t, off(j) + p) == L_get(LV, R_get(DF, frame(j).t, 'index'), p))),
        patterns=[L_get(ROWS, rows_of(j), p)]))
    note(ex, 'pd.concat(frames): rows of the frames in order, same columns, index labels kept')
    st.aux['concat_off'] = off
    return out


N.SPECIAL['concat-many'] = concat_many


# ------------------------------------------------------------- Series.apply / zip / dict(zip)
LLV = ListT(LV)
TSER = RecT('TSeries', (('vals', LLV), ('index', LV)))            # a Series of token lists
tok_list = z3.Function('tok_list', z3.BoolSort(), sort_of(LV), sort_of(LLV))    # [tokenize(v) for v in vals]
sel_vals = z3.Function('sel_vals', sort_of(LV), sort_of(LB), sort_of(LV))       # vals[mask]


def m_apply(ex, st, recv, args, kw, e):
    """Series.apply(tokenizer.tokenize): elementwise, same index; tokenizing a missing value raises"""
    f = args[0] if args else None
    if not (is_ser(recv) and f is not None and isinstance(f.ty, FuncT) and isinstance(f.t, tuple)
            and f.t[0] == 'bound' and f.t[2] == 'tokenize'):
        raise Undecided('Series.apply of something else than tokenizer.tokenize (line %d)' % e.lineno)
    tok = f.t[1]
    rs = st.heap[tok.t]['return_set'].t
    vals = rec_field(recv, 'vals')
    n = L_len(LV, vals.t)
    j = z3.Int('j!apply')
    ex.oblige(st, 'safety', 'apply-tokenize-values-present',
              z3.ForAll([j], z3.Implies(z3.And(j >= 0, j < n), z3.Not(N.val_isnull(L_get(LV, vals.t, j)))),
                        patterns=[L_get(LV, vals.t, j)]), e)
    out = tok_list(rs, vals.t)
    from . import spec as S_
    st.assume(L_len(LLV, out) == n)
    st.assume(z3.ForAll([j], z3.Implies(z3.And(j >= 0, j < n),
                                        L_get(LLV, out, j) == S_.toks(rs, L_get(LV, vals.t, j))),
                        patterns=[L_get(LLV, out, j)]))
    note(ex, 'Series.apply(f) is [f(v) for v in values], same index')
    ex.assumed_log.append('py_stringmatching.tokenizer.tokenizer.Tokenizer.tokenize {default} [assumed]')
    return V(TSER, R_mk(TSER, vals=out, index=R_get(SER, recv.t, 'index')))


def m_series_dropna(ex, st, recv, args, kw, e):
    """Series.dropna(): the non-null values in order, with their index labels"""
    vals, index = rec_field(recv, 'vals'), rec_field(recv, 'index')
    mask = isnull_of(ex, st, recv, True, e)
    mk = R_get(BSER, mask.t, 'vals')
    nv, ni = sel_vals(vals.t, mk), sel_index(index.t, mk)
    n, m = L_len(LV, vals.t), L_len(LV, nv)
    src = lambda q: sel_src(mk, q)
    dst = lambda q: sel_dst(mk, q)
    keep = lambda q: L_get(LB, mk, q)
    p, p2, j = z3.Ints('p!sd p2!sd j!sd')
    for f in [z3.And(m >= 0, m <= n, L_len(LV, ni) == m),
              z3.ForAll([p], z3.Implies(z3.And(p >= 0, p < m), z3.And(
                  src(p) >= 0, src(p) < n, keep(src(p)), dst(src(p)) == p,
                  L_get(LV, nv, p) == L_get(LV, vals.t, src(p)),
                  L_get(LV, ni, p) == L_get(LV, index.t, src(p)))), patterns=[src(p), L_get(LV, nv, p)]),
              z3.ForAll([p, p2], z3.Implies(z3.And(p >= 0, p < p2, p2 < m), src(p) < src(p2)),
                        patterns=[z3.MultiPattern(src(p), src(p2))]),
              z3.ForAll([j], z3.Implies(z3.And(j >= 0, j < n, keep(j)), z3.And(
                  dst(j) >= 0, dst(j) < m, src(dst(j)) == j)), patterns=[dst(j)])]:
        st.assume(f)
    note(ex, 'Series.dropna() keeps exactly the non-null values, in order, with their index labels')
    return V(SER, R_mk(SER, vals=nv, dtype=R_get(SER, recv.t, 'dtype'), index=ni))


_df_dropna = m_dropna


def m_dropna_any(ex, st, recv, args, kw, e):
    if is_ser(recv):
        return m_series_dropna(ex, st, recv, args, kw, e)
    return _df_dropna(ex, st, recv, args, kw, e)


def _seq_of(v, e):
    """(list type, list term) of a zip operand"""
    if is_ser(v):
        return LV, R_get(SER, v.t, 'vals')
    if isinstance(v.ty, RecT) and v.ty.name == 'TSeries':
        return LLV, R_get(TSER, v.t, 'vals')
    if isinstance(v.ty, ListT) and v.t is not None:
        return v.ty, v.t
    raise Undecided('zip() of %r (line %d)' % (v.ty, e.lineno))


def b_zip(ex, st, args, kw, e):
    if len(args) != 2:
        raise Undecided('zip() with %d arguments (line %d)' % (len(args), e.lineno))
    return V(FUNC, ('zip', _seq_of(args[0], e), _seq_of(args[1], e)))


def b_dict(ex, st, args, kw, e):
    """dict(zip(keys, values)): pairs up to the shorter length, a later pair overrides an earlier one"""
    if len(args) != 1 or not (isinstance(args[0].ty, FuncT) and isinstance(args[0].t, tuple) and args[0].t[0] == 'zip'):
        raise Undecided('dict() of something else than zip(a, b) (line %d)' % e.lineno)
    (kt, ks), (vt, vs) = args[0].t[1], args[0].t[2]
    dt = DictT(kt.elem, vt.elem)
    d = fresh_assumed(ex, st, dt, 'zipdict')
    nk, nv = L_len(kt, ks), L_len(vt, vs)
    n = z3.If(nk <= nv, nk, nv)
    last = z3.Function(fresh_name('ziplast'), I, I)
    wit = z3.Function(fresh_name('zipwit'), sort_of(kt.elem), I)
    j, j2 = z3.Ints('j!zd j2!zd')
    k = z3.Const('k!zd', sort_of(kt.elem))
    key = lambda q: L_get(kt, ks, q)
    st.assume(z3.ForAll([j], z3.Implies(z3.And(j >= 0, j < n), z3.And(
        D_has(dt, d.t, key(j)), last(j) >= j, last(j) < n, key(last(j)) == key(j),
        D_get(dt, d.t, key(j)) == L_get(vt, vs, last(j)))), patterns=[key(j)]))
    st.assume(z3.ForAll([j, j2], z3.Implies(z3.And(j >= 0, j < n, j2 > last(j), j2 < n), key(j2) != key(j)),
                        patterns=[z3.MultiPattern(last(j), key(j2))]))
    st.assume(z3.ForAll([k], z3.Implies(D_has(dt, d.t, k), z3.And(wit(k) >= 0, wit(k) < n, key(wit(k)) == k)),
                        patterns=[D_has(dt, d.t, k)]))
    note(ex, 'dict(zip(a, b)) pairs a[j] with b[j] for j < min(len a, len b); the last pair of a repeated key wins')
    return d


N.METHODS['apply'] = m_apply
N.METHODS['dropna'] = m_dropna_any
N.BUILTINS['zip'] = b_zip
N.BUILTINS['dict'] = b_dict
