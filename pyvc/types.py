"""Type descriptors of the verified Python subset and their z3 sorts.

Every Python value the symbolic executor handles has a static type descriptor
(declared for parameters in the sidecar contract, inferred for everything
else).  Ground types map to z3 sorts so that containers nest freely:

    int -> Int      float -> Real (float model, see fp.py)     bool -> Bool
    Val -> uninterpreted sort (strings, tokens, keys, cells)
    list[T]  -> datatype  L(len: Int, arr: Array(Int, T))
    tuple    -> datatype with one field per component
    dict[K,V]-> datatype  D(dom: Array(K, Bool), map: Array(K, V))
    set[K]   -> Array(K, Bool)
    Opt[T]   -> datatype  none | some(v: T)
Objects (self, indexes, tokenizer, data frames) are *not* z3 values: they live in
the executor's heap as records of typed fields.
"""
import z3

_cache = {}


class T(object):
    def __eq__(self, o):
        return type(self) is type(o) and self.key() == o.key()

    def __ne__(self, o):
        return not self.__eq__(o)

    def __hash__(self):
        return hash((type(self).__name__, self.key()))

    def key(self):
        return ()

    def __repr__(self):
        k = self.key()
        return type(self).__name__ + (repr(k) if k else '')


class IntT(T):
    pass


class FloatT(T):
    pass


class BoolT(T):
    pass


class ValT(T):
    pass


class NoneT(T):
    pass


class StrConstT(T):
    """A concrete Python string known at verification time."""
    pass


class ListT(T):
    def __init__(self, elem):
        self.elem = elem

    def key(self):
        return (self.elem,)


class TupleT(T):
    def __init__(self, *elems):
        self.elems = tuple(elems)

    def key(self):
        return self.elems


class DictT(T):
    def __init__(self, k, v):
        self.k = k
        self.v = v

    def key(self):
        return (self.k, self.v)


class SetT(T):
    def __init__(self, k):
        self.k = k

    def key(self):
        return (self.k,)


class OptT(T):
    def __init__(self, t):
        self.t = t

    def key(self):
        return (self.t,)


class ArrT(T):
    """Ghost total map (z3 array); never a Python value."""

    def __init__(self, k, v):
        self.k = k
        self.v = v

    def key(self):
        return (self.k, self.v)


class RecT(T):
    """Named immutable record of ground fields (DataFrame / Series abstractions)."""

    def __init__(self, name, fields):
        self.name = name
        self.fields = tuple(fields)          # ((fname, T), ...)

    def key(self):
        return (self.name, self.fields)

    def __repr__(self):
        return 'RecT(%s)' % self.name

    def ftype(self, f):
        return dict(self.fields)[f]


class ObjT(T):
    def __init__(self, cls):
        self.cls = cls

    def key(self):
        return (self.cls,)


class AnyT(T):
    """In an ObjSpec: the field may hold anything (it is not read before being overwritten)."""
    pass


class FuncT(T):
    """A function value known at verification time (payload: qualified name)."""
    pass


INT = IntT()
FLOAT = FloatT()
BOOL = BoolT()
VAL = ValT()
NONE = NoneT()
STR = StrConstT()
FUNC = FuncT()
ANY = AnyT()

ValSort = z3.DeclareSort('Val')


def _name(t):
    if isinstance(t, IntT):
        return 'I'
    if isinstance(t, FloatT):
        return 'F'
    if isinstance(t, BoolT):
        return 'B'
    if isinstance(t, ValT):
        return 'V'
    if isinstance(t, ListT):
        return 'L_' + _name(t.elem) + '_'
    if isinstance(t, TupleT):
        return 'T_' + '_'.join(_name(e) for e in t.elems) + '_'
    if isinstance(t, DictT):
        return 'D_' + _name(t.k) + '_' + _name(t.v) + '_'
    if isinstance(t, SetT):
        return 'S_' + _name(t.k) + '_'
    if isinstance(t, OptT):
        return 'O_' + _name(t.t) + '_'
    if isinstance(t, ArrT):
        return 'A_' + _name(t.k) + '_' + _name(t.v) + '_'
    if isinstance(t, RecT):
        return 'R' + t.name
    raise TypeError('no sort name for %r' % (t,))


def sort_of(t):
    """z3 sort of a ground type."""
    if t in _cache:
        return _cache[t]
    if isinstance(t, IntT):
        s = z3.IntSort()
    elif isinstance(t, FloatT):
        s = z3.RealSort()
    elif isinstance(t, BoolT):
        s = z3.BoolSort()
    elif isinstance(t, ValT):
        s = ValSort
    elif isinstance(t, ListT):
        d = z3.Datatype(_name(t))
        d.declare('mk', ('len', z3.IntSort()),
                  ('arr', z3.ArraySort(z3.IntSort(), sort_of(t.elem))))
        s = d.create()
    elif isinstance(t, TupleT):
        d = z3.Datatype(_name(t))
        d.declare('mk', *[('f%d' % i, sort_of(e)) for i, e in enumerate(t.elems)])
        s = d.create()
    elif isinstance(t, DictT):
        d = z3.Datatype(_name(t))
        d.declare('mk', ('dom', z3.ArraySort(sort_of(t.k), z3.BoolSort())),
                  ('map', z3.ArraySort(sort_of(t.k), sort_of(t.v))))
        s = d.create()
    elif isinstance(t, SetT):
        s = z3.ArraySort(sort_of(t.k), z3.BoolSort())
    elif isinstance(t, ArrT):
        s = z3.ArraySort(sort_of(t.k), sort_of(t.v))
    elif isinstance(t, RecT):
        d = z3.Datatype(_name(t))
        d.declare('mk', *[(fn, sort_of(ft)) for fn, ft in t.fields])
        s = d.create()
    elif isinstance(t, OptT):
        d = z3.Datatype(_name(t))
        d.declare('none')
        d.declare('some', ('v', sort_of(t.t)))
        s = d.create()
    else:
        raise TypeError('type %r has no z3 sort (object/function/None values '
                        'cannot be stored in symbolic containers)' % (t,))
    _cache[t] = s
    return s


def is_ground(t):
    try:
        sort_of(t)
        return True
    except TypeError:
        return False
