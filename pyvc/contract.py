"""Sidecar contracts: registry, cases, loop specs, evaluation context."""
import collections
import z3
from .types import *  # noqa
from .values import *  # noqa


class Undecided(Exception):
    """The contract does not bind to the code, or the code left the subset."""


class ObjSpec(object):
    """Declares an object-typed parameter: class name and typed fields."""

    def __init__(self, cls, **fields):
        self.cls = cls
        self.fields = fields


class LoopSpec(object):
    """Loop contract.  inv(c) -> [(label, formula)] evaluated with c.i = number of
    completed iterations, c.seq = iterated sequence (a list value), c.v(name) =
    current local.  `decl` maps names of locals first assigned inside the loop to
    their types when they are read after the loop (rare)."""

    def __init__(self, inv, ghost=None, decl=None):
        self.inv = inv
        self.decl = decl or {}


class Hook(object):
    """Ghost code run after a call site.  target: source text of the callee expression
    (e.g. 'uniq_attrs.append'); nth: which occurrence in document order (None: all);
    fn(c): updates c.ghost[...]; writes: names of the ghost variables it assigns."""

    def __init__(self, target, fn, writes, nth=None):
        self.target = target
        self.fn = fn
        self.writes = tuple(writes)
        self.nth = nth


class Case(object):
    """One typing/configuration of a function under contract."""
    name = 'default'
    params = None            # OrderedDict name -> T | V | ObjSpec  (order irrelevant: bound by name)
    defaults = {}            # param name -> V used when the caller omits the argument
    returns = None           # T of the result (None: returns None)
    modifies = ()            # ('self.index', ...)  heap locations the function may write
    loops = {}               # ordinal string -> LoopSpec
    locals = {}              # local name -> T, for locals initialised with an empty literal
    hooks = ()               # ghost hooks (Hook)
    field_types = {}         # attribute name -> T, for fields initialised with None / an empty literal
    callee_views = {}        # callee qualname -> label prefixes of the postconditions this caller uses
    inline = ()              # qualified names of small straight-line repo helpers executed in place
    ghost = None             # ghost(c) -> {name: V}: ghost variables at function entry
    status = 'verified'      # 'verified' | 'assumed' (external / out of reach) | 'bounded'
    pure = True

    def requires(self, c):
        return []

    def ensures(self, c, res):
        return []

    def raises(self, c):
        """dict exception-class-name -> z3 condition under which the function is
        *allowed* to raise it (and, with ensures_raise_iff, must).  Default: no
        exception may escape."""
        return {}

    def hints(self, c, res):
        """Extra lemma instances assumed when proving the postconditions."""
        return []

    def landmarks(self, c):
        return []

    def applies(self, c):
        """Call-site case selection on concrete (non-symbolic) argument parts."""
        return True

    def setup(self, c):
        """Assumptions about fresh symbolic entities created for this case (ghost
        functions etc.); evaluated once at entry, after params are bound."""
        return []


class Contract(object):
    def __init__(self, qualname, cases, props=(), note=''):
        self.qualname = qualname
        self.cases = cases
        self.props = tuple(props)
        self.note = note


REGISTRY = collections.OrderedDict()


def register(qualname, cases, props=(), note=''):
    REGISTRY[qualname] = Contract(qualname, cases, props, note)
    return REGISTRY[qualname]


class Ctx(object):
    """Evaluation context handed to requires/ensures/inv callbacks."""

    def __init__(self, ex, params, pre_heap, heap, env=None, i=None, seq=None, ghost=None,
                 pre_env=None, case=None):
        self.ex = ex
        self.params = params       # name -> V at function entry
        self.pre_heap = pre_heap
        self.heap = heap
        self.env = env or {}
        self.pre_env = pre_env or {}
        self.i = i
        self.seq = seq
        self.ghost = ghost if ghost is not None else {}
        self.case = case
        self.extra = []            # assumptions produced while evaluating (lemma instances)
        self.proving = False       # True: postconditions are being proved; False: used at a call site
        self.fp = None             # float log of the current path (spec-side float facts go here)

    def ghost_out(self, name, ty):
        """A ghost result of the function: when proving, the final value of ghost variable
        `name`; at a call site, a fresh (existentially quantified) constant."""
        if self.proving:
            return self.ghost[name].t
        key = '_ghost_out_' + name
        if not hasattr(self, key):
            setattr(self, key, z3.Const(fresh_name('g_' + name), sort_of(ty)))
        return getattr(self, key)

    def ghost_in(self, name, ty):
        """A ghost argument (existentially quantified in the precondition): when the function is
        verified, a fixed arbitrary constant; at a call site, the witness the caller holds -- the
        ghost result of the same name of an earlier call (e.g. the position map returned by build)."""
        if self.proving:
            return z3.Const('ghost_in!' + name, sort_of(ty))
        aux = getattr(self, 'aux', None) or {}
        w = aux.get('ghost_outs_by_name', {}).get(name)
        if w is None:
            w = z3.Const(fresh_name('no_witness_' + name), sort_of(ty))
        return w

    def forall(self, decls, body, patterns=None):
        """Universally quantified clause of a contract.  decls: [(name, z3 sort)].
        Proving: the bound variables become fresh constants (skolemisation) and the body is
        returned as is.  Using (call site): a genuine quantifier."""
        if self.proving:
            xs = [z3.Const(fresh_name(n), s) for (n, s) in decls]
            if self.fp is not None:
                for x in xs:
                    if z3.is_int(x):
                        self.fp.landmark(x)
            return body(*xs)
        xs = [z3.Const(n + '!q', s) for (n, s) in decls]
        b = body(*xs)
        pats = patterns(*xs) if patterns else []
        return z3.ForAll(xs, b, patterns=pats) if pats else z3.ForAll(xs, b)

    # parameters at entry -----------------------------------------------------
    def p(self, name):
        return self.params[name]

    def __getitem__(self, name):
        v = self.params[name]
        return v.t

    # current locals ----------------------------------------------------------
    def v(self, name):
        return self.env[name]

    def t(self, name):
        return self.env[name].t

    def has(self, name):
        return name in self.env

    def pre(self, name):
        return self.pre_env[name]

    # heap ----------------------------------------------------------------------
    def field(self, obj, name):
        return self.heap[obj.t][name]

    def f(self, obj, name):
        return self.heap[obj.t][name].t

    def oldfield(self, obj, name):
        return self.pre_heap[obj.t][name]

    def of(self, obj, name):
        return self.pre_heap[obj.t][name].t
