"""Nonlinear real-arithmetic lemmas about `rmul` (the uninterpreted product of fp.py).

Each lemma is a closed statement schema over reals, `hyps ==> concl`.  It is *proved*
once per run by substituting true multiplication for rmul and asking z3 (nlsat) for
unsatisfiability of the negation (and, as a vacuity guard, satisfiability of the
hypotheses); contracts *instantiate* it at the terms they need (`inst`).  Because
rmul is uninterpreted in the main VC and the instances are consequences of real
multiplication, an `unsat` main VC is valid for the real product.

The `big` lemmas carry the mathematical content of one pruning formula each: from
the similarity premise in product form and the rounding relations of every float
operation of the formula, the exact value fed into the final round/ceil/floor is
within a few ulps of the integer bound it must respect.
"""
import time
from fractions import Fraction
import z3
from . import fp as FP

LEMMAS = {}
USED = set()
e_ = FP.EPS2
TLOW = z3.RealVal(Fraction(1, 2 ** 500))      # below this threshold float products of t may underflow


def lemma(name):
    def deco(f):
        import inspect
        n = len(inspect.signature(f).parameters) - 1
        LEMMAS[name] = (f, n)
        return f
    return deco


def inst(name, *args):
    f, n = LEMMAS[name]
    assert len(args) == n, '%s expects %d arguments, got %d' % (name, n, len(args))
    args = [z3.ToReal(a) if z3.is_int(a) else a for a in args]
    USED.add(name)
    hyps, concl = f(FP.exact_mul, *args)
    return z3.Implies(z3.And(*hyps), concl) if hyps else concl


def up(r, x):
    """r = fl(x) for x >= 0 in the normal range."""
    return z3.And(r >= 0, r <= x * (1 + e_), r >= x * (1 - e_))


# ----------------------------------------------------------------- small lemmas
@lemma('mul_mono_r')
def _(mul, a, b, c):
    return [a >= 0, b <= c], mul(a, b) <= mul(a, c)


@lemma('mul_mono_l')
def _(mul, a, b, c):
    return [c >= 0, a <= b], mul(a, c) <= mul(b, c)


@lemma('mul_nonneg')
def _(mul, a, b):
    return [a >= 0, b >= 0], mul(a, b) >= 0


@lemma('mul_pos')
def _(mul, a, b):
    return [a > 0, b > 0], mul(a, b) > 0


@lemma('mul_le_right')
def _(mul, a, b):
    return [a >= 0, a <= 1, b >= 0], mul(a, b) <= b


@lemma('mul_lower')
def _(mul, a, b, ca, cb):
    """a >= ca >= 0 and b >= cb >= 0  ==>  a*b >= ca*cb      (ca, cb constants)"""
    return [ca >= 0, cb >= 0, a >= ca, b >= cb], mul(a, b) >= ca * cb


@lemma('mul_upper')
def _(mul, a, b, ca, cb):
    """0 <= a <= ca and 0 <= b <= cb  ==>  a*b <= ca*cb      (ca, cb constants)"""
    return [a >= 0, b >= 0, a <= ca, b <= cb], mul(a, b) <= ca * cb


@lemma('quot_upper')
def _(mul, q, d, a, c):
    """q*d = a, d >= c > 0, a >= 0  ==>  0 <= q <= a/c      (c constant)"""
    return [mul(q, d) == a, d >= c, c > 0, a >= 0], z3.And(q >= 0, q <= a / c)


@lemma('quot_lower')
def _(mul, q, d, a, c):
    """q*d = a, 0 < d <= c, a >= 0  ==>  q >= a/c      (c constant)"""
    return [mul(q, d) == a, d > 0, d <= c, a >= 0], q >= a / c


@lemma('sqrt_upper')
def _(mul, s, a, c):
    """s >= 0, s*s = a, a <= c*c, c >= 0  ==>  s <= c"""
    return [s >= 0, mul(s, s) == a, a <= c * c, c >= 0], s <= c


@lemma('sqrt_lower')
def _(mul, s, a, c):
    """s >= 0, s*s = a, a >= c*c, c >= 0  ==>  s >= c"""
    return [s >= 0, mul(s, s) == a, a >= c * c, c >= 0], s >= c


@lemma('mul_abs')
def _(mul, a, b, ca, cb):
    """|a| <= ca and |b| <= cb  ==>  |a*b| <= ca*cb      (ca, cb constants)"""
    return [a <= ca, a >= -ca, b <= cb, b >= -cb], z3.And(mul(a, b) <= ca * cb, mul(a, b) >= -ca * cb)


@lemma('quot_abs')
def _(mul, q, d, a, cd, ca):
    """q*d = a, |d| >= cd > 0, |a| <= ca  ==>  |q| <= ca/cd      (cd, ca constants)"""
    return [mul(q, d) == a, cd > 0, z3.Or(d >= cd, d <= -cd), a <= ca, a >= -ca], \
        z3.And(q <= ca / cd, q >= -ca / cd)


@lemma('mul_lower_scaled')
def _(mul, h, x, k):
    """h >= k >= 0 and x >= 0  ==>  h*x >= k*x      (k constant)"""
    return [h >= k, k >= 0, x >= 0], mul(h, x) >= k * x


@lemma('dice_g_le_one')
def _(mul, t, w, gq, g, x):
    """g = fl(t / fl(2-t)) is at most 1 (+ulps):  g*x <= x*(1+4e) + 1e-9"""
    return [t > 0, t <= 1, up(w, 2 - t), mul(gq, w) == t, g >= 0, g <= gq * (1 + e_) + FP.ETA,
            x >= 0, x <= 2 ** 31], mul(g, x) <= x * (1 + 4 * e_) + z3.RealVal('1/1000000000')


@lemma('split_end')
def _(mul, k, qk, inv, L, ss):
    """inv = fl(1/k), ss = fl(inv*L):  |k*ss - L| <= 2^-18   (k, L <= 2^31)"""
    return [k >= 1, k <= 2 ** 31, L >= 0, L <= 2 ** 31, mul(qk, k) == 1, up(inv, qk),
            z3.Or(z3.And(L == 0, ss == 0), up(ss, mul(inv, L)))], \
        z3.And(mul(k, ss) - L <= z3.RealVal(Fraction(1, 2 ** 18)), L - mul(k, ss) <= z3.RealVal(Fraction(1, 2 ** 18)))


@lemma('split_size_bounds')
def _(mul, k, qk, inv, L, ss):
    """0 <= ss <= L*(1+4e)/k ... in product form:  0 <= ss and k*ss <= 2^32"""
    return [k >= 1, k <= 2 ** 31, L >= 0, L <= 2 ** 31, mul(qk, k) == 1, up(inv, qk),
            z3.Or(z3.And(L == 0, ss == 0), up(ss, mul(inv, L)))], \
        z3.And(ss >= 0, ss <= L * (1 + 4 * e_), inv > 0, inv <= 1 + e_)


# ------------------------------------------------------- similarity premises
def _common(t, o, a, b):
    return [t > 0, t <= 1, o >= 1, o <= a, o <= b]


def _jac_sim(mul, t, qs, o, a, b):
    return z3.Or(z3.And(o == a, o == b),
                 z3.And(mul(qs, a + b - o) == o, qs >= 0, t <= (1 + e_) * qs))


def _dice_sim(mul, t, qs, o, a, b):
    return z3.Or(z3.And(o == a, o == b),
                 z3.And(mul(qs, a + b) == 2 * o, qs >= 0, t <= (1 + e_) * qs))


def _cos_sim(mul, t, qs, o, a, b, Sa, Sb, sa, sb, d):
    return z3.Or(z3.And(o == a, o == b),
                 z3.And(Sa >= 0, Sb >= 0, mul(Sa, Sa) == a, mul(Sb, Sb) == b, up(sa, Sa), up(sb, Sb),
                        up(d, mul(sa, sb)), mul(qs, d) == o, qs >= 0, t <= (1 + e_) * qs))


# ------------------------------------------------------------------ JACCARD
@lemma('jac_low')
def _(mul, t, qs, o, a, b, x):
    """x in {a, b}:  t*x <= o*(1+4e)          [lower bound / prefix length]"""
    return _common(t, o, a, b) + [_jac_sim(mul, t, qs, o, a, b), x >= 0, x <= a + b - o], \
        mul(t, x) <= o * (1 + 4 * e_)


@lemma('jac_ub')
def _(mul, t, qs, o, a, b, x, y, q2):
    """q2 = x / t :  the other size y <= q2*(1+4e)          [upper bound]"""
    return _common(t, o, a, b) + [_jac_sim(mul, t, qs, o, a, b), mul(q2, t) == x, o <= x, y >= 0,
                                  y <= a + b - o, z3.Implies(z3.And(o == a, o == b), y == x)], \
        y <= q2 * (1 + 4 * e_)


@lemma('jac_othr')
def _(mul, t, qs, o, a, b, w, gq, g):
    """w = fl(1+t), gq = t/w, g = fl(gq):  g*(a+b) <= o*(1+8e)          [required overlap]"""
    return _common(t, o, a, b) + [_jac_sim(mul, t, qs, o, a, b), up(w, 1 + t), mul(gq, w) == t, up(g, gq)], \
        mul(g, a + b) <= o * (1 + 8 * e_)


# --------------------------------------------------------------------- DICE
@lemma('dice_low')
def _(mul, t, qs, o, a, b, x, w, gq, g):
    """w = fl(2-t), gq = t/w, g = fl(gq), x in {a,b}:  g*x <= o*(1+8e)"""
    return _common(t, o, a, b) + [_dice_sim(mul, t, qs, o, a, b), up(w, 2 - t), mul(gq, w) == t, up(g, gq),
                                  z3.Or(x == a, x == b)], \
        mul(g, x) <= o * (1 + 8 * e_)


@lemma('dice_ub')
def _(mul, t, qs, o, a, b, x, y, w, hq, h):
    """w = fl(2-t), hq = w/t, h = fl(hq); {x,y} = {a,b}:  h*x >= y*(1-8e)"""
    return _common(t, o, a, b) + [_dice_sim(mul, t, qs, o, a, b), up(w, 2 - t), mul(hq, t) == w, up(h, hq),
                                  z3.Or(z3.And(x == a, y == b), z3.And(x == b, y == a))], \
        mul(h, x) >= y * (1 - 8 * e_)


@lemma('dice_othr')
def _(mul, t, qs, o, a, b, hf):
    """hf = fl(t/2):  hf*(a+b) <= o*(1+4e)"""
    return _common(t, o, a, b) + [_dice_sim(mul, t, qs, o, a, b), up(hf, t / 2)], \
        mul(hf, a + b) <= o * (1 + 4 * e_)


# ------------------------------------------------------------------- COSINE
@lemma('cos_step')
def _(mul, t, qs, o, a, b, Sa, Sb, sa, sb, d):
    """o >= t * sqrt(a) * sqrt(b) * (1-6e)   (or the sets are equal)"""
    return _common(t, o, a, b) + [_cos_sim(mul, t, qs, o, a, b, Sa, Sb, sa, sb, d)], \
        z3.Or(z3.And(o == a, o == b), o >= mul(mul(t, Sa), Sb) * (1 - 6 * e_))


@lemma('cos_low')
def _(mul, t, o, a, b, Sa, Sb, x, t2):
    """t2 = fl(t*t), x in {a,b}:  t2*x <= o*(1+16e)"""
    return _common(t, o, a, b) + [z3.Or(z3.And(o == a, o == b),
                                        z3.And(Sa >= 0, Sb >= 0, mul(Sa, Sa) == a, mul(Sb, Sb) == b,
                                               o >= mul(mul(t, Sa), Sb) * (1 - 6 * e_))),
                                  up(t2, mul(t, t)), z3.Or(x == a, x == b)], \
        mul(t2, x) <= o * (1 + 16 * e_)


@lemma('cos_ub')
def _(mul, t, o, a, b, Sa, Sb, x, y, t2, q2):
    """t2 = fl(t*t), q2 = x / t2, {x,y} = {a,b}:  y <= q2*(1+16e)"""
    return _common(t, o, a, b) + [z3.Or(z3.And(o == a, o == b),
                                        z3.And(Sa >= 0, Sb >= 0, mul(Sa, Sa) == a, mul(Sb, Sb) == b,
                                               o >= mul(mul(t, Sa), Sb) * (1 - 6 * e_))),
                                  up(t2, mul(t, t)), mul(q2, t2) == x, q2 >= 0,
                                  z3.Or(z3.And(x == a, y == b), z3.And(x == b, y == a))], \
        y <= q2 * (1 + 16 * e_)


@lemma('cos_othr')
def _(mul, t, o, a, b, Sa, Sb, flr, S, s):
    """flr = fl(a*b), S = sqrt(flr), s = fl(S):  t*s <= o*(1+16e)"""
    return _common(t, o, a, b) + [z3.Or(z3.And(o == a, o == b),
                                        z3.And(Sa >= 0, Sb >= 0, mul(Sa, Sa) == a, mul(Sb, Sb) == b,
                                               o >= mul(mul(t, Sa), Sb) * (1 - 6 * e_))),
                                  up(flr, mul(a, b)), S >= 0, mul(S, S) == flr, up(s, S)], \
        mul(t, s) <= o * (1 + 16 * e_)


def prove_all(timeout_ms=30000, only=None):
    out = []
    for name, (f, n) in sorted(LEMMAS.items()):
        if only is not None and name not in only:
            continue
        xs = [z3.Real('x%d' % i) for i in range(n)]
        hyps, concl = f(lambda a, b: a * b, *xs)
        s = z3.Solver()
        s.set('timeout', timeout_ms)
        s.add(*hyps)
        s.add(z3.Not(concl))
        t0 = time.time()
        r = s.check()
        status = 'unsat' if r == z3.unsat else str(r)
        detail = (f.__doc__ or '').strip()
        model = str(s.model()) if r == z3.sat else None
        if r == z3.unsat and hyps:
            v = z3.Solver()
            v.set('timeout', timeout_ms)
            v.add(*hyps)
            rv = v.check()
            if rv != z3.sat:
                status = 'unknown'
                detail += ' [vacuity guard: hypotheses %s]' % rv
        out.append(dict(name='lemma/' + name, kind='lemma', status=status,
                        backend='z3-nlsat', secs=round(time.time() - t0, 4), fn='pyvc.lemmas', case=name,
                        model=model, line=0, size=0, detail=detail))
    return out


if __name__ == '__main__':
    for r in prove_all():
        print('%-8s %-22s %.3fs %s' % (r['status'], r['name'], r['secs'], r['detail'][:90]))
