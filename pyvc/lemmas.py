"""Nonlinear real-arithmetic lemmas about `rmul` (the uninterpreted product of fp.py).

Each lemma is a closed statement schema over reals.  It is *proved* once per run
by substituting true multiplication for rmul and asking z3 (nlsat) for
unsatisfiability of the negation; contracts then *instantiate* it at the terms
they need (`inst`).  Because rmul is uninterpreted in the main VC and the
instances are consequences of real multiplication, an `unsat` main VC is valid
for the real product.
"""
import time
import z3
from . import fp as FP

LEMMAS = {}


def lemma(name, nargs, sqrt_args=()):
    def deco(f):
        LEMMAS[name] = (f, nargs, sqrt_args)
        return f
    return deco


def inst(name, *args):
    f, n, _ = LEMMAS[name]
    assert len(args) == n, name
    args = [z3.ToReal(a) if z3.is_int(a) else a for a in args]
    USED.add(name)
    return f(FP.exact_mul, *args)


USED = set()


@lemma('mul_mono_r', 3)
def _(mul, a, b, c):
    """a >= 0 and b <= c  ==>  a*b <= a*c"""
    return z3.Implies(z3.And(a >= 0, b <= c), mul(a, b) <= mul(a, c))


@lemma('mul_mono_scaled', 4)
def _(mul, a, q, k, c):
    """a <= k*q and c >= 0  ==>  a*c <= k*(q*c)      (k is used with constant values)"""
    return z3.Implies(z3.And(a <= k * q, c >= 0), mul(a, c) <= k * mul(q, c))


@lemma('mul_mono_scaled_ge', 4)
def _(mul, a, q, k, c):
    """a >= k*q and c >= 0  ==>  a*c >= k*(q*c)"""
    return z3.Implies(z3.And(a >= k * q, c >= 0), mul(a, c) >= k * mul(q, c))


@lemma('mul_nonneg', 2)
def _(mul, a, b):
    return z3.Implies(z3.And(a >= 0, b >= 0), mul(a, b) >= 0)


@lemma('mul_le_right', 2)
def _(mul, a, b):
    """0 <= a <= 1 and b >= 0  ==>  a*b <= b"""
    return z3.Implies(z3.And(a >= 0, a <= 1, b >= 0), mul(a, b) <= b)


@lemma('mul_pos', 2)
def _(mul, a, b):
    return z3.Implies(z3.And(a > 0, b > 0), mul(a, b) > 0)


@lemma('mul_assoc', 3)
def _(mul, a, b, c):
    return mul(mul(a, b), c) == mul(a, mul(b, c))


@lemma('mul_distrib', 3)
def _(mul, a, b, c):
    return mul(a, b + c) == mul(a, b) + mul(a, c)


@lemma('mul_scale', 3)
def _(mul, a, k, b):
    """a*(k*b) = k*(a*b)"""
    return mul(a, k * b) == k * mul(a, b)


@lemma('mul_cancel_le', 3)
def _(mul, a, b, c):
    """c > 0 and a*c <= b*c  ==>  a <= b"""
    return z3.Implies(z3.And(c > 0, mul(a, c) <= mul(b, c)), a <= b)


@lemma('mul_cancel_lt', 3)
def _(mul, a, b, c):
    """c > 0 and a*c < b*c  ==>  a < b"""
    return z3.Implies(z3.And(c > 0, mul(a, c) < mul(b, c)), a < b)


@lemma('mul_mono_both', 4)
def _(mul, a, b, c, d):
    """0 <= a <= c and 0 <= b <= d  ==>  a*b <= c*d"""
    return z3.Implies(z3.And(a >= 0, a <= c, b >= 0, b <= d), mul(a, b) <= mul(c, d))


@lemma('sq_mono', 2)
def _(mul, a, b):
    """0 <= a <= b  ==>  a*a <= b*b"""
    return z3.Implies(z3.And(a >= 0, a <= b), mul(a, a) <= mul(b, b))


@lemma('sq_mono_inv', 2)
def _(mul, a, b):
    """a >= 0, b >= 0, a*a <= b*b  ==>  a <= b"""
    return z3.Implies(z3.And(a >= 0, b >= 0, mul(a, a) <= mul(b, b)), a <= b)


@lemma('mul_comm4', 4)
def _(mul, a, b, c, d):
    """(a*b)*(c*d) = (a*c)*(b*d)"""
    return mul(mul(a, b), mul(c, d)) == mul(mul(a, c), mul(b, d))


def prove_all(timeout_ms=20000, only=None):
    out = []
    for name, (f, n, _) in sorted(LEMMAS.items()):
        if only is not None and name not in only:
            continue
        xs = [z3.Real('x%d' % i) for i in range(n)]
        stmt = f(lambda a, b: a * b, *xs)
        s = z3.Solver()
        s.set('timeout', timeout_ms)
        s.add(z3.Not(stmt))
        t0 = time.time()
        r = s.check()
        out.append(dict(name='lemma/' + name, kind='lemma', status=str(r) if r != z3.unsat else 'unsat',
                        backend='z3-nlsat', secs=round(time.time() - t0, 4), fn='pyvc.lemmas', case=name,
                        model=str(s.model()) if r == z3.sat else None, line=0, size=0,
                        detail=(f.__doc__ or '').strip()))
    return out
