"""Module resolution, builtins, container methods and call dispatch."""
import ast
import os
import z3
from .types import *  # noqa
from .values import *  # noqa
from . import fp as FP
from .contract import Undecided, REGISTRY, ObjSpec, Ctx
from .executor import Iter, PyTuple, PyDict, new_addr

val_lt = z3.Function('val_lt', ValSort, ValSort, z3.BoolSort())      # strict total order on strings
val_empty = z3.Function('val_isempty', ValSort, z3.BoolSort())       # s == ''
val_concat = z3.Function('val_concat', ValSort, ValSort, ValSort)
val_isnull = z3.Function('val_isnull', ValSort, z3.BoolSort())       # pd.isnull(cell)
val_len = z3.Function('val_strlen', ValSort, z3.IntSort())           # len(str)


def val_order_axioms():
    a, b, c = z3.Consts('va vb vc', ValSort)
    return [z3.ForAll([a], z3.Not(val_lt(a, a))),
            z3.ForAll([a, b], z3.Or(val_lt(a, b), val_lt(b, a), a == b), patterns=[val_lt(a, b)]),
            z3.ForAll([a, b, c], z3.Implies(z3.And(val_lt(a, b), val_lt(b, c)), val_lt(a, c)),
                      patterns=[z3.MultiPattern(val_lt(a, b), val_lt(b, c))])]


class ModuleInfo(object):
    _cache = {}

    def __init__(self, repo, modname):
        self.repo = repo
        self.modname = modname
        rel = modname.replace('.', '/')
        path = os.path.join(repo, rel + '.py')
        if not os.path.exists(path):
            path = os.path.join(repo, rel, '__init__.py')
        self.path = path
        self.src = open(path).read()
        self.tree = ast.parse(self.src)
        self.imports = {}
        self.functions = {}
        self.classes = {}
        self.globals = {}
        for node in self.tree.body:
            self._scan(node)

    def _scan(self, node):
        if isinstance(node, ast.Import):
            for a in node.names:
                self.imports[a.asname or a.name.split('.')[0]] = a.name if a.asname else a.name.split('.')[0]
        elif isinstance(node, ast.ImportFrom):
            for a in node.names:
                self.imports[a.asname or a.name] = '%s.%s' % (node.module, a.name)
        elif isinstance(node, ast.FunctionDef):
            self.functions[node.name] = node
        elif isinstance(node, ast.ClassDef):
            self.classes[node.name] = node
            for sub in node.body:
                if isinstance(sub, ast.FunctionDef):
                    self.functions['%s.%s' % (node.name, sub.name)] = sub
        elif isinstance(node, ast.Assign):
            for t in node.targets:
                if isinstance(t, ast.Name):
                    self.globals[t.id] = node.value

    @classmethod
    def get(cls, repo, modname):
        k = (repo, modname)
        if k not in cls._cache:
            cls._cache[k] = ModuleInfo(repo, modname)
        return cls._cache[k]

    def qualify(self, e):
        """Qualified name of a dotted expression rooted at an imported module, else None."""
        parts = []
        while isinstance(e, ast.Attribute):
            parts.append(e.attr)
            e = e.value
        if isinstance(e, ast.Name) and e.id in self.imports:
            return '.'.join([self.imports[e.id]] + parts[::-1])
        return None

    def resolve_name(self, name):
        if name in self.functions or name in self.classes:
            return '%s.%s' % (self.modname, name)
        if name in self.imports:
            return self.imports[name]
        return None

    def global_value(self, name, ex):
        if name in self.globals:
            node = self.globals[name]
            if isinstance(node, ast.Dict) and all(isinstance(k, ast.Constant) for k in node.keys):
                d = {}
                for k, v in zip(node.keys, node.values):
                    q = self.qualify(v)
                    if q is None:
                        return None
                    d[k.value] = V(FUNC, q)
                return PyDict(d)
            if isinstance(node, ast.Constant):
                return ex.expr_Constant(None, node)
            return None
        q = self.resolve_name(name)
        if q is not None:
            if q.startswith('py_stringsimjoin.') and '.' in q:
                # a constant imported from another repo module (COMP_OP_MAP)
                mod, _, attr = q.rpartition('.')
                try:
                    mi = ModuleInfo.get(self.repo, mod)
                    if attr in mi.globals:
                        return mi.global_value(attr, ex)
                except (IOError, OSError):
                    pass
            c = NATIVES.constant(q)
            if c is not None:
                return c
            return V(FUNC, q)
        return None


def find_function(repo, qualname):
    """(ModuleInfo, FunctionDef) for 'pkg.mod.func' or 'pkg.mod.Class.method'."""
    parts = qualname.split('.')
    for cut in (len(parts) - 1, len(parts) - 2):
        mod = '.'.join(parts[:cut])
        rest = '.'.join(parts[cut:])
        try:
            mi = ModuleInfo.get(repo, mod)
        except (IOError, OSError):
            continue
        if rest in mi.functions:
            return mi, mi.functions[rest]
    raise Undecided('contract does not bind: function %s not found under %s' % (qualname, repo))


OPERATORS = {'operator.ge': ast.GtE(), 'operator.gt': ast.Gt(), 'operator.le': ast.LtE(),
             'operator.lt': ast.Lt(), 'operator.eq': ast.Eq(), 'operator.ne': ast.NotEq()}


class Natives(object):
    val_lt = staticmethod(val_lt)

    def val_truth(self, t):
        return z3.Not(val_empty(t))

    def concat(self, a, b):
        return val_concat(a, b)

    def constant(self, q):
        if q == 'sys.maxsize':
            return vint(2 ** 63 - 1)
        if q in ('numpy.NaN', 'numpy.nan'):
            return V(VAL, NAN_CELL)
        return None

    def attribute(self, ex, st, obj, attr, node):
        h = ATTRS.get((type(obj.ty).__name__, attr))
        if h is not None:
            return h(ex, st, obj, node)
        return None

    def subscript(self, ex, st, base, k, node):
        return None

    # --------------------------------------------------------------- contains
    def contains(self, ex, st, cont, x, node):
        if isinstance(cont, PyDict):
            if isinstance(x.ty, StrConstT):
                return z3.BoolVal(x.t in cont.d)
            acc = z3.BoolVal(False)
            xv = to_val(x).t
            for k in cont.d:
                acc = z3.Or(acc, xv == strconst(k))
            return acc
        ty = cont.ty
        if isinstance(ty, ListT):
            if cont.t is None:
                return z3.BoolVal(False)
            xx = ex.coerce(st, x, ty.elem, node, 'in-elem-type')
            # concrete small lists (['<=', '<', '=']) expand to a disjunction
            n = z3.simplify(L_len(ty, cont.t))
            if z3.is_int_value(n) and n.as_long() <= 16:
                return z3.Or(*[L_get(ty, cont.t, z3.IntVal(i)) == xx.t for i in range(n.as_long())]) \
                    if n.as_long() else z3.BoolVal(False)
            return list_contains(ty, cont.t, xx.t)
        if isinstance(ty, DictT):
            if cont.t is None:
                return z3.BoolVal(False)
            xx = ex.coerce(st, x, ty.k, node, 'in-key-type')
            return D_has(ty, cont.t, xx.t)
        if isinstance(ty, SetT):
            xx = ex.coerce(st, x, ty.k, node, 'in-key-type')
            return z3.Select(cont.t, xx.t)
        raise Undecided('`in` on %r (line %d)' % (ty, node.lineno))

    # ------------------------------------------------------------------ slice
    def slice(self, ex, st, base, lo, hi, node):
        ty = base.ty
        if not isinstance(ty, ListT):
            r = SLICERS.get(type(ty).__name__)
            if r:
                return r(ex, st, base, lo, hi, node)
            raise Undecided('slice of %r (line %d)' % (ty, node.lineno))
        n = L_len(ty, base.t)
        lo_t = z3.IntVal(0) if lo is None or isinstance(lo.ty, NoneT) else ex.need_int(st, lo, node, 'slice-index-int').t
        hi_t = n if hi is None or isinstance(hi.ty, NoneT) else ex.need_int(st, hi, node, 'slice-index-int').t

        def clamp(x):
            x = z3.If(x < 0, x + n, x)
            return z3.If(x < 0, 0, z3.If(x > n, n, x))
        a, b = clamp(lo_t), clamp(hi_t)
        ln = z3.If(b > a, b - a, 0)
        if z3.is_int_value(z3.simplify(a)) and z3.simplify(a).as_long() == 0:
            # a prefix base[0:k]: same elements at the same positions, shorter length (no lambda term)
            return V(ty, L_mk(ty, z3.simplify(ln), L_arr(ty, base.t)))
        j = z3.Int('j!slice')
        arr = z3.Lambda([j], z3.Select(L_arr(ty, base.t), j + a))
        return V(ty, L_mk(ty, z3.simplify(ln), arr))

    def list_concat(self, ex, st, a, b, node):
        ty = a.ty if a.t is not None else b.ty
        a = ex.coerce(st, a, ty, node, 'concat')
        b = ex.coerce(st, b, ty, node, 'concat')
        na, nb = L_len(ty, a.t), L_len(ty, b.t)
        j = z3.Int('j!cat')
        arr = z3.Lambda([j], z3.If(j < na, L_get(ty, a.t, j), L_get(ty, b.t, j - na)))
        return V(ty, L_mk(ty, na + nb, arr))

    def listcomp(self, ex, st, e):
        raise Undecided('list comprehension (line %d)' % e.lineno)

    # ------------------------------------------------------------------- call
    def call(self, ex, st, e):
        f = e.func
        # special forms --------------------------------------------------------
        if isinstance(f, ast.Call):
            inner = f
            if isinstance(inner.func, ast.Name) and inner.func.id == 'Parallel':
                h = SPECIAL.get('joblib.Parallel')
                if h:
                    return h(ex, st, e)
            raise Undecided('call of a call result (line %d)' % e.lineno)
        if isinstance(f, ast.Attribute) and f.attr == '__init__' and isinstance(f.value, ast.Call) \
                and isinstance(f.value.func, ast.Name) and f.value.func.id == 'super':
            return self.super_init(ex, st, e)
        if isinstance(f, ast.Subscript):
            fv = ex.eval(st, f)
            return self.call_value(ex, st, fv, e)
        if isinstance(f, ast.Name):
            if f.id in st.env:
                return self.call_value(ex, st, st.env[f.id], e)
            if f.id in BUILTINS and f.id not in ex.module.imports and f.id not in ex.module.functions:
                args = [ex.eval(st, a) for a in e.args]
                kwargs = dict((k.arg, ex.eval(st, k.value)) for k in e.keywords)
                return BUILTINS[f.id](ex, st, args, kwargs, e)
            q = ex.module.resolve_name(f.id)
            if q is None:
                raise Undecided('unknown function %s (line %d)' % (f.id, e.lineno))
            return self.call_qual(ex, st, q, e)
        if isinstance(f, ast.Attribute):
            q = ex.module.qualify(f)
            root = f
            while isinstance(root, ast.Attribute):
                root = root.value
            gv = None
            if isinstance(f.value, ast.Name) and f.value.id not in st.env:
                gv = ex.module.global_value(f.value.id, ex)
                if gv is not None and isinstance(gv.ty, FuncT):
                    gv = None
            if gv is not None:
                h = METHODS.get(f.attr)
                if h is None:
                    raise Undecided('method %s on module constant (line %d)' % (f.attr, e.lineno))
                args = [ex.eval(st, a) for a in e.args]
                kwargs = dict((k.arg, ex.eval(st, k.value)) for k in e.keywords)
                return h(ex, st, gv, args, kwargs, e)
            if q is not None and not (isinstance(root, ast.Name) and root.id in st.env):
                return self.call_qual(ex, st, q, e)
            # mutating container methods need an lvalue
            if f.attr in METHODS_MUT:
                try:
                    lv = ex.lvalue(st, f.value)
                except Undecided:
                    lv = None
                if lv is not None:
                    recv = ex.lv_read(st, lv)
                    if not isinstance(recv.ty, ObjT):
                        args = [ex.eval(st, a) for a in e.args]
                        return METHODS_MUT[f.attr](ex, st, lv, recv, args, e)
            recv = ex.eval(st, f.value)
            if isinstance(recv.ty, ObjT) and recv.ty.cls == 'ProgBar':
                return vnone()
            if isinstance(recv.ty, ObjT):
                return self.call_method(ex, st, recv, f.attr, e)
            if isinstance(recv.ty, FuncT):
                raise Undecided('attribute call on function value (line %d)' % e.lineno)
            h = METHODS.get(f.attr)
            if h is not None:
                args = [ex.eval(st, a) for a in e.args]
                kwargs = dict((k.arg, ex.eval(st, k.value)) for k in e.keywords)
                return h(ex, st, recv, args, kwargs, e)
            raise Undecided('method %s on %r (line %d)' % (f.attr, recv.ty, e.lineno))
        raise Undecided('call form at line %d' % e.lineno)

    def call_value(self, ex, st, fv, e):
        if not isinstance(fv.ty, FuncT):
            raise Undecided('call of non-function value %r (line %d)' % (fv.ty, e.lineno))
        p = fv.t
        if isinstance(p, str):
            return self.call_qual(ex, st, p, e)
        if isinstance(p, tuple) and p[0] == 'bound':
            return self.call_method(ex, st, p[1], p[2], e)
        if isinstance(p, tuple) and p[0] == 'spec':
            args = [ex.eval(st, a) for a in e.args]
            return p[1](ex, st, args, e)
        raise Undecided('call of %r' % (p,))

    def call_qual(self, ex, st, q, e):
        args = [ex.eval(st, a) for a in e.args]
        kwargs = dict((k.arg, ex.eval(st, k.value)) for k in e.keywords)
        if q in OPERATORS:
            return vbool(ex.compare(st, OPERATORS[q], args[0], args[1], e))
        if q in QUALIFIED:
            return QUALIFIED[q](ex, st, args, kwargs, e)
        if q in REGISTRY:
            return ex.apply_contract(st, q, self.bind_args(ex, q, args, kwargs, e), e)
        if q in getattr(ex.case, 'inline', ()):
            return self.inline_call(ex, st, q, args, kwargs, e)
        # class constructor?
        if q + '.__init__' in REGISTRY:
            return self.construct(ex, st, q, args, kwargs, e)
        raise Undecided('no contract for callee %s (line %d)' % (q, e.lineno))

    def param_names(self, ex, q):
        if q.startswith('py_stringsimjoin.'):
            mi, fn = find_function(ex.module.repo, q)
            return [a.arg for a in fn.args.args]
        c = REGISTRY[q]
        return list(c.cases[0].params.keys())

    def bind_args(self, ex, q, args, kwargs, e, skip_self=False):
        names = self.param_names(ex, q)
        if skip_self:
            names = names[1:]
        if len(args) > len(names):
            raise Undecided('too many arguments for %s (line %d)' % (q, e.lineno))
        bound = dict(zip(names, args))
        for k, v in kwargs.items():
            if k not in names or k in bound:
                raise Undecided('bad keyword %s for %s (line %d)' % (k, q, e.lineno))
            bound[k] = v
        return bound

    def method_qual(self, ex, cls, meth):
        suffix = '.%s.%s' % (cls, meth)
        for q in REGISTRY:
            if q.endswith(suffix):
                return q
        return None

    def call_method(self, ex, st, recv, meth, e):
        for iq in getattr(ex.case, 'inline', ()):
            if iq.endswith('.%s.%s' % (recv.ty.cls, meth)):
                args = [recv] + [ex.eval(st, a) for a in e.args]
                kwargs = dict((k.arg, ex.eval(st, k.value)) for k in e.keywords)
                return self.inline_call(ex, st, iq, args, kwargs, e)
        q = self.method_qual(ex, recv.ty.cls, meth)
        if q is None:
            raise Undecided('no contract for method %s.%s (line %d)' % (recv.ty.cls, meth, e.lineno))
        args = [ex.eval(st, a) for a in e.args]
        kwargs = dict((k.arg, ex.eval(st, k.value)) for k in e.keywords)
        names = self.param_names(ex, q)
        bound = self.bind_args(ex, q, args, kwargs, e, skip_self=(names and names[0] == 'self'))
        if names and names[0] == 'self':
            bound['self'] = recv
        else:
            bound[names[0] if names else 'self'] = recv
        return ex.apply_contract(st, q, bound, e)

    def construct(self, ex, st, q, args, kwargs, e):
        qi = q + '.__init__'
        bound = self.bind_args(ex, qi, args, kwargs, e, skip_self=True)
        a = new_addr()
        st.heap[a] = {}
        st.fresh_objs.add(a)
        obj = V(ObjT(q.split('.')[-1]), a)
        bound['self'] = obj
        contract = REGISTRY[qi]
        chosen = None
        for case in contract.cases:
            probe = dict(bound)
            if ex.match_case(st, _NoSelf(case), dict((k, v) for k, v in probe.items() if k != 'self')):
                chosen = case
                break
        if chosen is None:
            raise Undecided('no constructor case of %s matches (line %d)' % (q, e.lineno))
        for pname in chosen.params:
            if pname not in bound and pname in chosen.defaults:
                bound[pname] = chosen.defaults[pname]
        c = Ctx(ex, bound, st.heap, st.heap, case=chosen)
        for (label, f) in chosen.requires(c):
            ex.oblige(st, 'call-pre', '%s/%s@L%d' % (q.split('.')[-1], label, e.lineno), f, e)
        conds = chosen.raises(c)
        for exc, cond in conds.items():
            cond = z3.simplify(cond)
            if z3.is_false(cond):
                continue
            rst = st.fork()
            rst.pc.append(cond)
            if ex.feasible(rst):
                ex._raised.append((rst, exc, e))
        for exc, cond in conds.items():
            st.assume(z3.Not(cond))
        for fname, fv in chosen.fields(c).items():
            st.heap[a][fname] = fv
        if chosen.status != 'verified':
            ex.assumed_log.append('%s {%s} [%s]' % (qi, chosen.name, chosen.status))
        return obj

    def inline_call(self, ex, st, q, args, kwargs, e):
        """Execute the body of a small straight-line repo helper in place of a contract
        (the caller is then checked against the callee's real body)."""
        mi, fn = find_function(ex.module.repo, q)
        bound = self.bind_args(ex, q, args, kwargs, e)
        names = [a.arg for a in fn.args.args]
        dflt = fn.args.defaults
        saved_env, saved_mod = st.env, ex.module
        st.env = {}
        for i, nm in enumerate(names):
            if nm in bound:
                st.env[nm] = bound[nm]
            else:
                d = dflt[i - (len(names) - len(dflt))]
                st.env[nm] = ex.eval(st, d)
        ex.module = mi
        try:
            outs = ex.exec_block(fn.body, st)
        finally:
            ex.module = saved_mod
        rets = [o for o in outs if o[0] in ('return', 'normal')]
        if len(outs) != 1 or len(rets) != 1 or rets[0][1] is not st:
            raise Undecided('inlined callee %s is not straight-line' % q)
        st.env = saved_env
        return rets[0][2] if rets[0][0] == 'return' else vnone()

    def super_init(self, ex, st, e):
        """super(...).__init__(args): the base-class __init__ is executed inline."""
        # find the enclosing class and its base
        cls = ex.qualname.split('.')[-2]
        cnode = ex.module.classes.get(cls)
        if cnode is None or not cnode.bases:
            raise Undecided('super() outside a class')
        base = cnode.bases[0]
        bq = ex.module.resolve_name(base.id) if isinstance(base, ast.Name) else None
        if bq is None or bq == 'object':
            return vnone()
        try:
            mi, fn = find_function(ex.module.repo, bq + '.__init__') if bq.startswith('py_stringsimjoin') else (None, None)
        except Undecided:
            mi, fn = None, None          # the base class defines no __init__ (object.__init__)
        if fn is None:
            return vnone()
        args = [ex.eval(st, a) for a in e.args]
        names = [a.arg for a in fn.args.args]
        saved = st.env
        st.env = {names[0]: saved['self']}
        dflt = fn.args.defaults
        for i, nm in enumerate(names[1:]):
            if i < len(args):
                st.env[nm] = args[i]
            else:
                d = dflt[i - (len(names) - 1 - len(dflt))]
                st.env[nm] = ex.eval(st, d)
        saved_mod = ex.module
        ex.module = mi
        outs = ex.exec_block(fn.body, st)
        ex.module = saved_mod
        if len(outs) != 1 or outs[0][0] != 'normal':
            raise Undecided('inlined base __init__ is not straight-line')
        st2 = outs[0][1]
        assert st2 is st
        st.env = saved
        return vnone()


class _NoSelf(object):
    """View of a constructor case without the self parameter (for matching)."""

    def __init__(self, case):
        self.case = case
        self.params = dict((k, v) for k, v in case.params.items() if k != 'self')
        self.defaults = case.defaults

    def applies(self, c):
        return self.case.applies(c)


list_contains_fns = {}


def list_contains(ty, lt, x):
    """x in list: uninterpreted predicate with its defining axiom attached lazily."""
    return L_has(ty, lt, x)


NAN_CELL = z3.Const('cell!nan', ValSort)


# ------------------------------------------------------------------- builtins
def _num2(ex, st, args, e):
    a, b = args
    if isinstance(a.ty, IntT) and isinstance(b.ty, IntT):
        return a, b, INT
    if isinstance(a.ty, (IntT, FloatT)) and isinstance(b.ty, (IntT, FloatT)):
        return a, b, None
    raise Undecided('min/max on %r, %r (line %d)' % (a.ty, b.ty, e.lineno))


def b_len(ex, st, args, kw, e):
    v = args[0]
    if isinstance(v, PyTuple):
        return vint(len(v.parts))
    if isinstance(v.ty, ListT):
        return V(INT, z3.IntVal(0) if v.t is None else L_len(v.ty, v.t))
    if isinstance(v.ty, TupleT):
        return vint(len(v.ty.elems))
    if isinstance(v.ty, ValT):
        r = val_len(v.t)
        st.assume(r >= 0)
        st.assume(val_empty(v.t) == (r == 0))
        return V(INT, r)
    if isinstance(v.ty, StrConstT):
        return vint(len(v.t))
    h = LEN.get(type(v.ty).__name__ if not isinstance(v.ty, ObjT) else 'Obj:' + v.ty.cls)
    if h:
        return h(ex, st, v, e)
    raise Undecided('len of %r (line %d)' % (v.ty, e.lineno))


def _minmax(is_min):
    def f(ex, st, args, kw, e):
        if len(args) == 1:
            raise Undecided('min/max of an iterable (line %d)' % e.lineno)
        acc = args[0]
        for b in args[1:]:
            if isinstance(acc.ty, IntT) and isinstance(b.ty, IntT):
                acc = V(INT, z3.If(acc.t <= b.t, acc.t, b.t) if is_min else z3.If(acc.t >= b.t, acc.t, b.t))
            else:
                x, y = ex.num_term(acc), ex.num_term(b)
                if x is None or y is None:
                    raise Undecided('min/max on %r, %r' % (acc.ty, b.ty))
                # Python returns the first operand on ties and keeps each operand's own type;
                # a mixed int/float result is tracked as float only when both are float
                if isinstance(acc.ty, FloatT) and isinstance(b.ty, FloatT):
                    acc = V(FLOAT, z3.If(x <= y, x, y) if is_min else z3.If(x >= y, x, y))
                else:
                    raise Undecided('min/max mixing int and float (result type is data dependent)')
        return acc
    return f


def b_abs(ex, st, args, kw, e):
    v = args[0]
    if isinstance(v.ty, IntT):
        return V(INT, z3.If(v.t >= 0, v.t, -v.t))
    if isinstance(v.ty, FloatT):
        return V(FLOAT, z3.If(v.t >= 0, v.t, -v.t))
    raise Undecided('abs of %r' % (v.ty,))


def b_int(ex, st, args, kw, e):
    v = args[0]
    if isinstance(v.ty, IntT):
        return v
    if isinstance(v.ty, BoolT):
        return V(INT, z3.If(v.t, 1, 0))
    if isinstance(v.ty, FloatT):
        return V(INT, ex.fpop(st, e, 'trunc', v.t))
    raise Undecided('int() of %r (line %d)' % (v.ty, e.lineno))


def b_float(ex, st, args, kw, e):
    return ex.to_float(st, args[0], e)


def b_round(ex, st, args, kw, e):
    v = args[0]
    if len(args) == 2:
        nd = z3.simplify(args[1].t)
        if not z3.is_int_value(nd):
            raise Undecided('round with symbolic ndigits')
        if isinstance(v.ty, IntT):
            return v
        fv = ex.to_float(st, v, e)
        return V(FLOAT, ex.fpop(st, e, 'round_nd', fv.t, nd.as_long()))
    if isinstance(v.ty, IntT):
        return v
    return V(INT, ex.fpop(st, e, 'round0', v.t))


def q_ceil(ex, st, args, kw, e):
    v = args[0]
    if isinstance(v.ty, IntT):
        return v
    return V(INT, ex.fpop(st, e, 'ceil', v.t))


def q_floor(ex, st, args, kw, e):
    v = args[0]
    if isinstance(v.ty, IntT):
        return v
    return V(INT, ex.fpop(st, e, 'floor', v.t))


def q_sqrt(ex, st, args, kw, e):
    v = ex.to_float(st, args[0], e)
    return V(FLOAT, ex.fpop(st, e, 'sqrt', v.t))


def b_range(ex, st, args, kw, e):
    ints = [ex.need_int(st, a, e, 'range-arg-int') for a in args]
    if len(ints) == 1:
        lo, hi = z3.IntVal(0), ints[0].t
    elif len(ints) == 2:
        lo, hi = ints[0].t, ints[1].t
    else:
        raise Undecided('range with step')
    n = z3.If(hi > lo, hi - lo, 0)
    it = Iter(n, lambda i: V(INT, lo + i))
    it.lo = lo
    return it


def b_isinstance(ex, st, args, kw, e):
    v = args[0]
    clsnode = e.args[1]
    q = ex.module.qualify(clsnode) if isinstance(clsnode, ast.Attribute) else \
        (ex.module.resolve_name(clsnode.id) if isinstance(clsnode, ast.Name) else None)
    if isinstance(clsnode, ast.Name) and clsnode.id in ('int', 'float', 'str', 'set', 'list', 'bool'):
        tymap = {'int': IntT, 'float': FloatT, 'set': SetT, 'list': ListT, 'bool': BoolT}
        if clsnode.id == 'str':
            return vbool(isinstance(v.ty, (ValT, StrConstT)))
        return vbool(isinstance(v.ty, tymap[clsnode.id]))
    h = ISINSTANCE.get(q)
    if h is None:
        raise Undecided('isinstance(_, %s) (line %d)' % (q, e.lineno))
    return h(ex, st, v, e)


def b_print(ex, st, args, kw, e):
    return vnone()


def b_str(ex, st, args, kw, e):
    v = args[0]
    if isinstance(v.ty, StrConstT):
        return v
    if isinstance(v.ty, ValT):
        return v
    f = z3.Function('str_of_' + _sname(v.ty), sort_of(v.ty), ValSort)
    return V(VAL, f(v.t))


def _sname(t):
    from .types import _name
    return _name(t)


def b_list(ex, st, args, kw, e):
    if not args:
        return V(ListT(NONE), None)
    v = args[0]
    if isinstance(v, Iter):
        return iter_to_list(ex, st, v, e)
    if isinstance(v.ty, ListT):
        return v           # a copy; value semantics
    raise Undecided('list() of %r (line %d)' % (v.ty, e.lineno))


def iter_to_list(ex, st, it, e):
    probe = it.elem(z3.Int('j!probe'))
    lt = ListT(probe.ty)
    j = z3.Int('j!tolist')
    arr = z3.Lambda([j], it.elem(j).t)
    return V(lt, L_mk(lt, it.length, arr))


def b_set(ex, st, args, kw, e):
    if not args:
        return V(SetT(NONE), None)
    v = args[0]
    if isinstance(v.ty, SetT):
        return v
    if isinstance(v.ty, ListT):
        st_ty = SetT(v.ty.elem)
        if v.t is None:
            return V(st_ty, S_empty(st_ty))
        x = z3.Const('x!setof', sort_of(v.ty.elem))
        j = z3.Int('j!setof')
        s = z3.Lambda([x], z3.Exists([j], z3.And(j >= 0, j < L_len(v.ty, v.t), L_get(v.ty, v.t, j) == x)))
        return V(st_ty, s)
    raise Undecided('set() of %r' % (v.ty,))


def b_sum(ex, st, args, kw, e):
    raise Undecided('sum() (line %d)' % e.lineno)


BUILTINS = {'len': b_len, 'min': _minmax(True), 'max': _minmax(False), 'abs': b_abs, 'int': b_int,
            'float': b_float, 'round': b_round, 'range': b_range, 'xrange': b_range,
            'isinstance': b_isinstance, 'print': b_print, 'str': b_str, 'list': b_list, 'set': b_set,
            'sum': b_sum}

QUALIFIED = {'math.ceil': q_ceil, 'math.floor': q_floor, 'math.sqrt': q_sqrt,
             'six.moves.xrange': b_range}

ISINSTANCE = {}
LEN = {}
ATTRS = {}
SLICERS = {}
SPECIAL = {}


# ------------------------------------------------------------ container methods
def m_append(ex, st, lv, recv, args, e):
    x = args[0]
    if recv.t is None:
        ety = VAL if isinstance(x.ty, StrConstT) else x.ty
        if not is_ground(ety):
            raise Undecided('append of non-ground value (line %d)' % e.lineno)
        recv = V(ListT(ety), L_empty(ListT(ety)))
    xx = ex.coerce(st, x, recv.ty.elem, e, 'append-elem-type')
    ex.lv_write(st, lv, V(recv.ty, L_append(recv.ty, recv.t, xx.t)))
    return vnone()


def m_insert(ex, st, lv, recv, args, e):
    pos = z3.simplify(args[0].t)
    if not (z3.is_int_value(pos) and pos.as_long() == 0):
        raise Undecided('insert at a position other than 0 (line %d)' % e.lineno)
    x = ex.coerce(st, args[1], recv.ty.elem, e, 'insert-elem-type')
    ty = recv.ty
    out = L_cons(ty, x.t, recv.t)
    for f in L_cons_facts(ty, x.t, recv.t):
        st.assume(f)
    ex.lv_write(st, lv, V(ty, out))
    return vnone()


def m_add(ex, st, lv, recv, args, e):
    x = args[0]
    if recv.t is None:
        recv = V(SetT(x.ty), S_empty(SetT(x.ty)))
    xx = ex.coerce(st, x, recv.ty.k, e, 'add-elem-type')
    ex.lv_write(st, lv, V(recv.ty, z3.Store(recv.t, xx.t, z3.BoolVal(True))))
    return vnone()


def m_update(ex, st, lv, recv, args, e):
    other = args[0]
    if isinstance(recv.ty, SetT) and isinstance(other.ty, ListT):
        if recv.t is None:
            recv = V(SetT(other.ty.elem), S_empty(SetT(other.ty.elem)))
        os_ = b_set(ex, st, [other], {}, e)
        x = z3.Const('x!upd', sort_of(recv.ty.k))
        new = z3.Lambda([x], z3.Or(z3.Select(recv.t, x), z3.Select(os_.t, x)))
        ex.lv_write(st, lv, V(recv.ty, new))
        return vnone()
    raise Undecided('update on %r with %r (line %d)' % (recv.ty, other.ty, e.lineno))


METHODS_MUT = {'append': m_append, 'insert': m_insert, 'add': m_add, 'update': m_update}


def m_get(ex, st, recv, args, kw, e):
    if isinstance(recv, PyDict):
        raise Undecided('get on constant dict')
    ty = recv.ty
    if not isinstance(ty, DictT):
        raise Undecided('get on %r (line %d)' % (ty, e.lineno))
    if recv.t is None:
        return args[1] if len(args) > 1 else vnone()
    k = ex.coerce(st, args[0], ty.k, e, 'dict-key-type')
    has = D_has(ty, recv.t, k.t)
    val = D_get(ty, recv.t, k.t)
    if len(args) > 1:
        d = ex.coerce(st, args[1], ty.v, e, 'get-default-type')
        return V(ty.v, z3.If(has, val, d.t))
    ot = OptT(ty.v)
    return V(ot, z3.If(has, O_some(ot, val), O_none(ot)))


def m_index(ex, st, recv, args, kw, e):
    ty = recv.ty
    if not isinstance(ty, ListT):
        raise Undecided('index on %r' % (ty,))
    x = ex.coerce(st, args[0], ty.elem, e, 'index-elem-type')
    present = L_has(ty, recv.t, x.t)
    ex.oblige(st, 'safety', 'list-index-value-present', present, e)
    for f in L_index_facts(ty, recv.t, x.t):
        st.assume(f)
    return V(INT, L_index(ty, recv.t, x.t))


def m_items(ex, st, recv, args, kw, e):
    if isinstance(recv.ty, DictT):
        if recv.t is None:
            return Iter(z3.IntVal(0), lambda i: None)
        return ex.enum_keys(st, recv, with_values=True)
    raise Undecided('items on %r' % (recv.ty,))


def m_keys(ex, st, recv, args, kw, e):
    if isinstance(recv, PyDict):
        lt = ListT(VAL)
        return ex.make_list(st, [vstr(k) for k in recv.d], e)
    if isinstance(recv.ty, DictT):
        return ex.enum_keys(st, recv)
    raise Undecided('keys on %r' % (recv.ty,))


def m_upper(ex, st, recv, args, kw, e):
    if isinstance(recv.ty, StrConstT):
        return vstr(recv.t.upper())
    f = z3.Function('val_upper', ValSort, ValSort)
    return V(VAL, f(recv.t))


def m_join(ex, st, recv, args, kw, e):
    lst = args[0]
    if isinstance(recv.ty, StrConstT) and isinstance(lst.ty, ListT):
        f = z3.Function('val_join_' + _sname(lst.ty), sort_of(lst.ty), ValSort)
        return V(VAL, f(lst.t))
    raise Undecided('join')


def m_intersection(ex, st, recv, args, kw, e):
    o = args[0]
    if isinstance(recv.ty, SetT) and isinstance(o.ty, SetT):
        x = z3.Const('x!int', sort_of(recv.ty.k))
        return V(recv.ty, z3.Lambda([x], z3.And(z3.Select(recv.t, x), z3.Select(o.t, x))))
    raise Undecided('intersection on %r' % (recv.ty,))


METHODS = {'get': m_get, 'index': m_index, 'items': m_items, 'iteritems': m_items, 'keys': m_keys,
           'upper': m_upper, 'join': m_join, 'intersection': m_intersection}


def q_iteritems(ex, st, args, kw, e):
    return m_items(ex, st, args[0], [], {}, e)


QUALIFIED['six.iteritems'] = q_iteritems


def q_cpu_count(ex, st, args, kw, e):
    from . import spec as S
    st.assume(S.cpu_count >= 1)
    ex.assumed_log.append('multiprocessing.cpu_count [assumed: returns an int >= 1]')
    return V(INT, S.cpu_count)


QUALIFIED['multiprocessing.cpu_count'] = q_cpu_count


def q_progbar(ex, st, args, kw, e):
    """pyprind.ProgBar(n): a progress bar object; assumed to have no effect on program state"""
    a = new_addr()
    st.heap[a] = {}
    st.fresh_objs.add(a)
    ex.assumed_log.append('pyprind.ProgBar / update [assumed: no effect on program state]')
    return V(ObjT('ProgBar'), a)


QUALIFIED['pyprind.ProgBar'] = q_progbar

NATIVES = Natives()
