"""Float model: an over-approximation of IEEE-754 binary64, round-to-nearest.

Python floats are z3 Reals.  Every float operation produces a *fresh* real `r`
related to the exact real result `e` only by facts that hold for correctly
rounded binary64 arithmetic.  Because the relation is an over-approximation, a
VC that is `unsat` under it is valid for the machine arithmetic.

Facts recorded for r = fl(e):
  (sign)      e >= 0 => r >= 0 ,  e <= 0 => r <= 0
  (abs)       |e| <= 2^33  =>  |r - e| <= 1e-6          (2^-53 * 2^33 < 1e-6)
  (rel)       e >= 0 => e*(1-2^-52) <= r <= e*(1+2^-52)   (and mirrored; only when
              requested, the tiny coefficient slows the simplex down)
  (landmark)  for every integer-valued term k, |k| <= 2^53, present in the VC:
              e <= k => r <= k   and   e >= k => r >= k
              (rounding is monotone and integers below 2^53 are representable)
Products and quotients of two symbolic terms use the uninterpreted function
`rmul`; its properties enter only through explicitly instantiated lemmas
(lemmas.py), each proved separately over the reals.  This keeps the main VC
linear.  `true_products(f)` substitutes real multiplication back, used to obtain
meaningful counter-models.

round(x, 4): CPython prints x correctly rounded to 4 decimals and parses the
string back, so the result is fl(R / 10^4) for the integer R nearest to
10^4 * x (ties: to even on the exact binary value; the model allows either).
ceil, floor, int(), comparisons int<->float: exact.
Overflow: each operation emits the safety obligation |e| < 2^1023 (stated with
the bound available in the VC: |e| <= BIG).
"""
from fractions import Fraction
import z3
from .values import fresh_name

R = z3.RealSort()
rmul = z3.Function('rmul', R, R, R)
rsqrt = z3.Function('rsqrt', R, R)          # exact real square root (>= 0)

DELTA = z3.RealVal('1/1000000')
B33 = z3.RealVal(2 ** 33)
B53 = z3.RealVal(2 ** 53)
OVF = z3.RealVal(2 ** 1023)
EPS2 = z3.RealVal(Fraction(1, 2 ** 52))


_round_ufs = {}


def fl_round(nd):
    """round(x, nd) as a deterministic function of the double x."""
    if nd not in _round_ufs:
        _round_ufs[nd] = z3.Function('fl_round%d' % nd, R, R)
    return _round_ufs[nd]


def is_num(t):
    return z3.is_rational_value(t) or z3.is_int_value(t) or z3.is_algebraic_value(t)


def exact_mul(a, b):
    a = z3.simplify(a) if not is_num(a) else a
    b = z3.simplify(b) if not is_num(b) else b
    if is_num(a) or is_num(b):
        return a * b
    # canonical argument order: rmul is commutative by construction
    if a.get_id() > b.get_id():
        a, b = b, a
    return rmul(a, b)


class FPLog(object):
    """Per-path record of float operations, used to emit landmark facts."""

    def __init__(self):
        self.ops = []          # (r, e)  result / exact
        self.ints = []         # integer-valued z3 Int terms usable as landmarks
        self.facts = []        # definitional facts (assumed)
        self.rel = False

    def copy(self):
        c = FPLog()
        c.ops = list(self.ops)
        c.ints = list(self.ints)
        c.facts = list(self.facts)
        c.rel = self.rel
        return c

    def landmark(self, k):
        for x in self.ints:
            if x.eq(k):
                return
        self.ints.append(k)

    def rounded(self, e, tag='fl'):
        """fresh r = fl(e)."""
        r = z3.Real(fresh_name(tag))
        self.ops.append((r, e))
        self.last_exact = e
        self.facts += [z3.Implies(e >= 0, r >= 0), z3.Implies(e <= 0, r <= 0),
                       z3.Implies(z3.And(e <= B33, e >= -B33),
                                  z3.And(r - e <= DELTA, e - r <= DELTA)),
                       # monotone at the magnitude thresholds themselves
                       z3.Implies(e >= B33, r >= B33), z3.Implies(e <= -B33, r <= -B33)]
        if self.rel:
            self.facts += [z3.Implies(e >= 0, z3.And(r <= e * (1 + EPS2), r >= e * (1 - EPS2))),
                           z3.Implies(e <= 0, z3.And(r >= e * (1 + EPS2), r <= e * (1 - EPS2)))]
        return r

    def landmark_facts(self):
        out = []
        for (r, e) in self.ops:
            for k in self.ints:
                kr = z3.ToReal(k)
                ok = z3.And(kr <= B53, kr >= -B53)
                out.append(z3.Implies(z3.And(ok, e <= kr), r <= kr))
                out.append(z3.Implies(z3.And(ok, e >= kr), r >= kr))
        return out

    # ---- operations; each returns (result, [safety obligations]) -------------
    def i2f(self, n):
        # exact for |n| <= 2^53
        self.landmark(n)
        return z3.ToReal(n), [('int-to-float-exact', z3.And(z3.ToReal(n) <= B53, z3.ToReal(n) >= -B53))]

    def add(self, a, b):
        e = a + b
        return self.rounded(e, 'fadd'), [('float-no-overflow', z3.And(e < OVF, e > -OVF))]

    def sub(self, a, b):
        e = a - b
        return self.rounded(e, 'fsub'), [('float-no-overflow', z3.And(e < OVF, e > -OVF))]

    def mul(self, a, b):
        e = exact_mul(a, b)
        for x in (a, b):
            xs = z3.simplify(x)
            if z3.is_rational_value(xs) and xs.denominator_as_long() == 1:
                k = abs(xs.numerator_as_long())
                if k and (k & (k - 1)) == 0:
                    # multiplication by a power of two is exact
                    self.last_exact = e
                    return e, [('float-no-overflow', z3.And(e < OVF, e > -OVF))]
        return self.rounded(e, 'fmul'), [('float-no-overflow', z3.And(e < OVF, e > -OVF))]

    def div(self, a, b):
        if is_num(b) and not z3.simplify(b == 0).eq(z3.BoolVal(True)):
            e = a / b
            return self.rounded(e, 'fdiv'), [('float-no-overflow', z3.And(e < OVF, e > -OVF))]
        q = z3.Real(fresh_name('quot'))
        # q is the exact quotient: q * b = a  (only meaningful when b != 0)
        self.facts.append(z3.Implies(b != 0, exact_mul(q, b) == a))
        self.facts.append(z3.Implies(z3.And(b > 0, a >= 0), q >= 0))
        self.facts.append(z3.Implies(z3.And(b > 0, a <= 0), q <= 0))
        self.facts.append(z3.Implies(z3.And(b < 0, a >= 0), q <= 0))
        self.facts.append(z3.Implies(z3.And(b < 0, a <= 0), q >= 0))
        return self.rounded(q, 'fdiv'), [('division-by-zero', b != 0),
                                         ('float-no-overflow', z3.And(q < OVF, q > -OVF))]

    def sqrt(self, a):
        s = z3.Real(fresh_name('sqrt'))
        self.facts += [s >= 0, z3.Implies(a >= 0, exact_mul(s, s) == a), s == rsqrt(a)]
        return self.rounded(s, 'fsqrt'), [('sqrt-domain', a >= 0)]

    def round_nd(self, x, nd):
        p = z3.RealVal(10 ** nd)
        Rn = z3.Int(fresh_name('R%d' % nd))
        self.facts += [p * x - z3.ToReal(Rn) <= z3.RealVal('1/2'),
                       z3.ToReal(Rn) - p * x <= z3.RealVal('1/2')]
        e = z3.ToReal(Rn) / p
        r = self.rounded(e, 'fround')
        self.facts.append(r == fl_round(nd)(x))
        self.last_R = Rn
        return r, [('float-no-overflow', z3.And(x < OVF, x > -OVF))]

    def round0(self, x):
        """round(x) with one argument -> int, nearest, ties to even."""
        n = z3.Int(fresh_name('rnd'))
        self.facts += [x - z3.ToReal(n) <= z3.RealVal('1/2'),
                       z3.ToReal(n) - x <= z3.RealVal('1/2')]
        self.landmark(n)
        return n, [('float-no-overflow', z3.And(x < OVF, x > -OVF))]

    def ceil(self, x):
        c = z3.Int(fresh_name('ceil'))
        self.facts += [z3.ToReal(c) >= x, z3.ToReal(c) - 1 < x]
        self.landmark(c)
        return c, [('float-no-overflow', z3.And(x < OVF, x > -OVF))]

    def floor(self, x):
        c = z3.Int(fresh_name('floor'))
        self.facts += [z3.ToReal(c) <= x, z3.ToReal(c) + 1 > x]
        self.landmark(c)
        return c, [('float-no-overflow', z3.And(x < OVF, x > -OVF))]

    def trunc(self, x):
        c = z3.Int(fresh_name('trunc'))
        self.facts += [z3.Implies(x >= 0, z3.And(z3.ToReal(c) <= x, z3.ToReal(c) + 1 > x)),
                       z3.Implies(x < 0, z3.And(z3.ToReal(c) >= x, z3.ToReal(c) - 1 < x))]
        self.landmark(c)
        return c, [('float-no-overflow', z3.And(x < OVF, x > -OVF))]


def const(x):
    """Exact real value of the double nearest to the Python literal x."""
    return z3.RealVal(Fraction(float(x)))


def true_products(f):
    """Replace rmul(a,b) by a*b in formula f (nonlinear; for counter-models)."""
    cache = {}

    def go(t):
        k = t.get_id()
        if k in cache:
            return cache[k]
        if z3.is_app(t):
            ch = [go(c) for c in t.children()]
            if t.decl().eq(rmul):
                r = ch[0] * ch[1]
            elif ch:
                r = t.decl()(*ch)
            else:
                r = t
        elif z3.is_quantifier(t):
            r = t
        else:
            r = t
        cache[k] = r
        return r
    return go(f)
