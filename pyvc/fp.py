"""Float model: an over-approximation of IEEE-754 binary64, round-to-nearest.

Python floats are z3 Reals.  Every float operation produces a *fresh* real `r`
related to the exact real result `e` only by facts that hold for correctly
rounded binary64 arithmetic.  Because the relation is an over-approximation, a
VC that is `unsat` under it is valid for the machine arithmetic.

Facts recorded for r = fl(e):
  (sign)      e >= 0 => r >= 0 ,  e <= 0 => r <= 0
  (abs)       |e| <= 2^33  =>  |r - e| <= 1e-6          (2^-53 * 2^33 < 1e-6)
  (rel)       e >= 0 => e*(1-2^-52) - 2^-1074 <= r <= e*(1+2^-52) + 2^-1074   (always; the
              additive term covers results in the subnormal range), and the pure
              relative form  e*(1-2^-52) <= r <= e*(1+2^-52)  when e >= 2^-1021
              (mirrored for e <= 0).  Specification-side operations on token counts
              (similarity quotients in [2^-32, 1], square roots in [1, 2^16]) use the
              pure form unconditionally: their operands cannot be subnormal.
  (landmark)  for every integer-valued term k, |k| <= 2^53, present in the VC:
              e <= k => r <= k   and   e >= k => r >= k
              (rounding is monotone and integers below 2^53 are representable)
Products and quotients of two symbolic terms use the uninterpreted function
`rmul`; its properties enter only through explicitly instantiated lemmas
(lemmas.py), each proved separately over the reals by z3's nlsat.  This keeps the
main VC linear.  `true_products(f)` substitutes real multiplication back.

round(x, 4): CPython prints x correctly rounded to 4 decimals and parses the
string back, so the result is fl(R / 10^4) for the integer R nearest to
10^4 * x (ties: to even on the exact binary value; the model allows either).
ceil, floor, int(), comparisons int<->float: exact.  int -> float conversion is
exact up to 2^53 and correctly rounded above.
Overflow: each operation emits the safety obligation |e| < 2^1023.
"""
from fractions import Fraction
import z3
from .values import fresh_name

R = z3.RealSort()
rmul = z3.Function('rmul', R, R, R)

DELTA = z3.RealVal('1/1000000')
B33 = z3.RealVal(2 ** 33)
B53 = z3.RealVal(2 ** 53)
OVF = z3.RealVal(2 ** 1023)
EPS2 = z3.RealVal(Fraction(1, 2 ** 52))
ETA = z3.RealVal(Fraction(1, 2 ** 1074))
TINY = z3.RealVal(Fraction(1, 2 ** 1021))

_round_ufs = {}


def fl_round(nd):
    """round(x, nd) as a deterministic function of the double x."""
    if nd not in _round_ufs:
        _round_ufs[nd] = z3.Function('fl_round%d' % nd, R, R)
    return _round_ufs[nd]


_flops = {}


def flop(tag, args):
    """The double produced by float operation `tag` on the given operands, as a term: float
    arithmetic is deterministic, so equal operands give the same result (congruence)."""
    key = (tag, tuple(a.sort().name() for a in args))
    if key not in _flops:
        _flops[key] = z3.Function('fl_' + tag, *([a.sort() for a in args] + [R]))
    return _flops[key](*args)


_exacts = {}


def exact_fn(tag, args, sort=None):
    key = (tag, tuple(a.sort().name() for a in args))
    if key not in _exacts:
        _exacts[key] = z3.Function('ex_' + tag, *([a.sort() for a in args] + [sort if sort is not None else R]))
    return _exacts[key](*args)


def is_num(t):
    return z3.is_rational_value(t) or z3.is_int_value(t) or z3.is_algebraic_value(t)


imulf = z3.Function('imul', z3.IntSort(), z3.IntSort(), z3.IntSort())


def int_mul(a, b):
    """Product of two symbolic ints as an (uninterpreted, deterministic) term; numerals stay linear."""
    sa, sb = z3.simplify(a), z3.simplify(b)
    if z3.is_int_value(sa) or z3.is_int_value(sb):
        return a * b
    if sa.get_id() > sb.get_id():
        sa, sb = sb, sa
    return imulf(sa, sb)


def exact_mul(a, b):
    a = z3.simplify(a) if not is_num(a) else a
    b = z3.simplify(b) if not is_num(b) else b
    if is_num(a) or is_num(b):
        return a * b
    return rmul(a, b)


class Op(object):
    __slots__ = ('r', 'e', 'tag', 'args')

    def __init__(self, r, e, tag, args):
        self.r = r
        self.e = e
        self.tag = tag
        self.args = args


class FPLog(object):
    """Per-path record of float operations."""

    def __init__(self):
        self.ops = []          # Op records
        self.ints = [z3.IntVal(0), z3.IntVal(1), z3.IntVal(2)]   # integer-valued landmark terms
        self.facts = []        # definitional facts (assumed)
        self.alias = {}        # id of an i2f result -> ToReal(n)
        self.assume_normal = False
        self.mono = []         # (tag, argument, result) of monotone exact functions (round, ceil, floor, int)

    def copy(self):
        c = FPLog()
        c.ops = list(self.ops)
        c.ints = list(self.ints)
        c.facts = list(self.facts)
        c.alias = dict(self.alias)
        c.assume_normal = self.assume_normal
        c.mono = list(self.mono)
        return c

    def landmark(self, k):
        for x in self.ints:
            if x.eq(k):
                return
        self.ints.append(k)

    def canon(self, x):
        return self.alias.get(x.get_id(), x)

    def find(self, tag, *args, **kw):
        """Result term of the recorded operation `tag` on the given operands (operands are
        compared structurally, modulo int->float conversion, unordered for mul/add).
        Returns None if the code performs no such operation."""
        want = [z3.simplify(self.canon(a)) for a in args]
        hits = []
        for op in self.ops:
            if op.tag != tag or len(op.args) != len(want):
                continue
            have = [z3.simplify(self.canon(a)) for a in op.args]
            if all(h.eq(w) for h, w in zip(have, want)) or \
                    (tag in ('mul', 'add') and len(want) == 2 and have[0].eq(want[1]) and have[1].eq(want[0])):
                hits.append(op)
        if not hits:
            return None
        return hits[kw.get('nth', 0)]

    def rounded(self, e, tag='fl', args=()):
        """fresh r = fl(e)."""
        r = flop(tag, list(args)) if args else z3.Real(fresh_name('f' + tag))
        for op in self.ops:
            if op.r.eq(r):
                self.last_op = op
                return r                      # same operation on the same operands: same double
        self.ops.append(Op(r, e, tag, list(args)))
        self.last_op = self.ops[-1]
        self.facts += [z3.Implies(e >= 0, r >= 0), z3.Implies(e <= 0, r <= 0),
                       z3.Implies(z3.And(e <= B33, e >= -B33),
                                  z3.And(r - e <= DELTA, e - r <= DELTA)),
                       z3.Implies(e >= B33, r >= B33), z3.Implies(e <= -B33, r <= -B33),
                       # always: relative error 2^-52 plus half the smallest subnormal
                       z3.Implies(e >= 0, z3.And(r <= e * (1 + EPS2) + ETA, r >= e * (1 - EPS2) - ETA)),
                       z3.Implies(e <= 0, z3.And(r >= e * (1 + EPS2) - ETA, r <= e * (1 - EPS2) + ETA))]
        if self.assume_normal:
            # specification-side operations on quantities known to be far from the subnormal range
            self.facts += [z3.Implies(e >= 0, z3.And(r <= e * (1 + EPS2), r >= e * (1 - EPS2)))]
        else:
            self.facts += [z3.Implies(e >= TINY, z3.And(r <= e * (1 + EPS2), r >= e * (1 - EPS2))),
                           z3.Implies(e <= -TINY, z3.And(r >= e * (1 + EPS2), r <= e * (1 - EPS2)))]
        return r

    def exact(self, e, tag, args):
        """An operation whose result is exact: recorded (so that contracts can find it)."""
        self.ops.append(Op(e, e, tag, list(args)))
        self.last_op = self.ops[-1]
        return e

    def landmark_facts(self):
        out = []
        rounded = [op for op in self.ops if op.r is not op.e]
        for op in rounded:
            for k in self.ints:
                kr = z3.ToReal(k)
                ok = z3.And(kr <= B53, kr >= -B53)
                out.append(z3.Implies(z3.And(ok, op.e <= kr), op.r <= kr))
                out.append(z3.Implies(z3.And(ok, op.e >= kr), op.r >= kr))
        # rounding is monotone: pairwise facts between operations of the same kind
        for i, p in enumerate(rounded):
            for q in rounded[i + 1:]:
                if p.tag == q.tag:
                    out.append(z3.Implies(p.e <= q.e, p.r <= q.r))
                    out.append(z3.Implies(q.e <= p.e, q.r <= p.r))
        for i, (tg, x, y) in enumerate(self.mono):
            for (tg2, x2, y2) in self.mono[i + 1:]:
                if tg == tg2:
                    out.append(z3.Implies(x <= x2, y <= y2))
                    out.append(z3.Implies(x2 <= x, y2 <= y))
        return out

    # ---- operations; each returns (result, [safety obligations]) -------------
    def i2f(self, n):
        self.landmark(n)
        nr = z3.ToReal(n)
        s = z3.simplify(nr)
        if is_num(s):
            v = abs(Fraction(s.numerator_as_long(), s.denominator_as_long()))
            if v <= 2 ** 53:
                return s, []
        r = self.rounded(nr, 'i2f', [nr])
        self.alias[r.get_id()] = nr
        self.facts.append(z3.Implies(z3.And(nr <= B53, nr >= -B53), r == nr))
        return r, [('float-no-overflow', z3.And(nr < OVF, nr > -OVF))]

    def add(self, a, b):
        e = a + b
        return self.rounded(e, 'add', [a, b]), [('float-no-overflow', z3.And(e < OVF, e > -OVF))]

    def sub(self, a, b):
        e = a - b
        return self.rounded(e, 'sub', [a, b]), [('float-no-overflow', z3.And(e < OVF, e > -OVF))]

    def mul(self, a, b):
        e = exact_mul(a, b)
        for x in (a, b):
            xs = z3.simplify(x)
            if z3.is_rational_value(xs) and xs.denominator_as_long() == 1:
                k = abs(xs.numerator_as_long())
                if k and (k & (k - 1)) == 0:
                    # multiplication by a power of two is exact
                    return self.exact(e, 'mul', [a, b]), [('float-no-overflow', z3.And(e < OVF, e > -OVF))]
        return self.rounded(e, 'mul', [a, b]), [('float-no-overflow', z3.And(e < OVF, e > -OVF))]

    def div(self, a, b):
        bs = z3.simplify(b)
        if is_num(bs) and not (bs.numerator_as_long() == 0):
            e = a / b
            return self.rounded(e, 'div', [a, b]), [('float-no-overflow', z3.And(e < OVF, e > -OVF))]
        q = exact_fn('quot', [a, b])
        # q is the exact quotient: q * b = a  (only meaningful when b != 0)
        self.facts.append(z3.Implies(b != 0, exact_mul(q, b) == a))
        self.facts.append(z3.Implies(z3.And(b > 0, a >= 0), q >= 0))
        self.facts.append(z3.Implies(z3.And(b > 0, a <= 0), q <= 0))
        self.facts.append(z3.Implies(z3.And(b < 0, a >= 0), q <= 0))
        self.facts.append(z3.Implies(z3.And(b < 0, a <= 0), q >= 0))
        self.facts.append(z3.Implies(z3.And(b > 0, a > 0), q > 0))
        return self.rounded(q, 'div', [a, b]), [('division-by-zero', b != 0),
                                                ('float-no-overflow', z3.And(q < OVF, q > -OVF))]

    def sqrt(self, a):
        s = exact_fn('sqrt', [a])
        self.facts += [s >= 0, z3.Implies(a >= 0, exact_mul(s, s) == a), z3.Implies(a > 0, s > 0)]
        return self.rounded(s, 'sqrt', [a]), [('sqrt-domain', a >= 0)]

    def round_nd(self, x, nd):
        p = z3.RealVal(10 ** nd)
        Rn = exact_fn('R%d' % nd, [x], z3.IntSort())
        self.facts += [p * x - z3.ToReal(Rn) <= z3.RealVal('1/2'),
                       z3.ToReal(Rn) - p * x <= z3.RealVal('1/2')]
        e = z3.ToReal(Rn) / p
        r = self.rounded(e, 'round%d' % nd, [x])
        self.facts.append(r == fl_round(nd)(x))
        return r, []

    def round0(self, x):
        """round(x) with one argument -> int, nearest, ties to even."""
        n = exact_fn('rnd', [x], z3.IntSort())
        self.facts += [x - z3.ToReal(n) <= z3.RealVal('1/2'),
                       z3.ToReal(n) - x <= z3.RealVal('1/2')]
        self.landmark(n)
        self.mono.append(('round0', x, n))
        return n, []

    def ceil(self, x):
        c = exact_fn('ceil', [x], z3.IntSort())
        self.mono.append(('ceil', x, c))
        self.facts += [z3.ToReal(c) >= x, z3.ToReal(c) - 1 < x]
        self.landmark(c)
        return c, []

    def floor(self, x):
        c = exact_fn('floor', [x], z3.IntSort())
        self.mono.append(('floor', x, c))
        self.facts += [z3.ToReal(c) <= x, z3.ToReal(c) + 1 > x]
        self.landmark(c)
        return c, []

    def trunc(self, x):
        c = exact_fn('trunc', [x], z3.IntSort())
        self.mono.append(('trunc', x, c))
        self.facts += [z3.Implies(x >= 0, z3.And(z3.ToReal(c) <= x, z3.ToReal(c) + 1 > x)),
                       z3.Implies(x < 0, z3.And(z3.ToReal(c) >= x, z3.ToReal(c) - 1 < x))]
        self.landmark(c)
        return c, []


def const(x):
    """Exact real value of the double nearest to the Python literal x."""
    return z3.RealVal(Fraction(float(x)))


def rmul_apps(fs):
    """All rmul applications occurring in the formulas."""
    seen = set()
    out = []
    stack = list(fs)
    while stack:
        t = stack.pop()
        k = t.get_id()
        if k in seen:
            continue
        seen.add(k)
        if z3.is_app(t):
            if t.decl().eq(rmul):
                out.append(t)
            stack.extend(t.children())
        elif z3.is_quantifier(t):
            stack.append(t.body())
    return out


def commutativity_instances(fs):
    out = []
    for t in rmul_apps(fs):
        a, b = t.arg(0), t.arg(1)
        if not a.eq(b) and z3.is_app(a) and z3.is_app(b) and not _has_var(a) and not _has_var(b):
            out.append(rmul(a, b) == rmul(b, a))
    return out


def _has_var(t):
    stack = [t]
    while stack:
        x = stack.pop()
        if z3.is_var(x):
            return True
        if z3.is_app(x):
            stack.extend(x.children())
    return False


def true_products(f):
    """Replace rmul(a,b) by a*b in formula f (nonlinear; for counter-models and as a
    second attempt when the linearised VC is satisfiable for lack of a lemma instance)."""
    cache = {}

    def go(t):
        k = t.get_id()
        if k in cache:
            return cache[k]
        if z3.is_app(t):
            ch = [go(c) for c in t.children()]
            if t.decl().eq(rmul):
                r = ch[0] * ch[1]
            elif ch:
                r = t.decl()(*ch)
            else:
                r = t
        else:
            r = t
        cache[k] = r
        return r
    return go(f)
