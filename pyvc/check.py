"""Property checks: ./check <property-id> [quick|thorough]   |   ./check --replay <file>

Exit codes: 0 property held (all obligations discharged; listed known findings only)
            1 violation (VIOLATION line printed)
            2 undecided (solver unknown / contract does not bind) and no failing input found
            3 the machinery or its trusted base failed
"""
import importlib
import json
import multiprocessing
import os
import subprocess
import sys
import time
import traceback

HERE = os.path.dirname(os.path.dirname(os.path.abspath(__file__)))
sys.path.insert(0, HERE)

from pyvc.contract import REGISTRY  # noqa
from pyvc import run as RUN  # noqa
from pyvc import lemmas as LEM  # noqa
import pyvc.pandas_model  # noqa  (registers the assumed pandas contracts)

CONTRACT_MODULES = ['filter_utils', 'generic_helper', 'validation', 'profiler', 'missing_value_handler', 'externals', 'token_ordering', 'token_ordering2', 'position', 'position_build', 'position_fc', 'set_sim_join', 'join_drivers', 'overlap', 'candset', 'size', 'matcher', 'ovcoeff', 'prefix', 'editdist', 'prefix_tables', 'position_tables', 'prefix_pair', 'position_pair']


def load_contracts():
    for m in CONTRACT_MODULES:
        importlib.import_module('contracts.' + m)
    try:
        mods = importlib.import_module('contracts.index').MODULES
    except Exception:
        mods = []
    for m in mods:
        if m not in CONTRACT_MODULES:
            importlib.import_module('contracts.' + m)


def repo_root():
    return os.environ.get('VERIF_REPO', '/repo')


_TREE_HASH = [None]


def tree_hash():
    """content hash of the engine and the contracts (the repository sources a result depends on
    are recorded per result, see _task)"""
    if _TREE_HASH[0] is None:
        import hashlib
        h = hashlib.sha256()
        roots = [os.path.join(HERE, 'pyvc'), os.path.join(HERE, 'contracts')]
        for root in roots:
            for d, dirs, files in sorted(os.walk(root)):
                dirs.sort()
                if '__pycache__' in d:
                    continue
                for f in sorted(files):
                    if f.endswith('.py'):
                        pth = os.path.join(d, f)
                        h.update(pth.encode())
                        h.update(open(pth, 'rb').read())
        _TREE_HASH[0] = h.hexdigest()
    return _TREE_HASH[0]


def _deps_current(deps):
    import hashlib
    for pth, sha in (deps or {}).items():
        try:
            if hashlib.sha256(open(pth, 'rb').read()).hexdigest() != sha:
                return False
        except OSError:
            return False
    return bool(deps)


def _cache_key(qual, idx, tmo):
    import hashlib
    return hashlib.sha256(('%s|%s|%s|%d|%d' % (tree_hash(), repo_root(), qual, idx, tmo)).encode()).hexdigest()[:40]


def _store(task, out):
    """keep a fully discharged result for reuse (same engine, contracts and repository modules)"""
    if os.environ.get('PYVC_NOCACHE'):
        return
    if out.get('status') == 'ok' and out.get('results') and all(r['status'] == 'unsat' for r in out['results']):
        try:
            cache_dir = os.path.join(HERE, '.cache')
            os.makedirs(cache_dir, exist_ok=True)
            json.dump(out, open(os.path.join(cache_dir, _cache_key(*task) + '.json'), 'w'))
        except Exception:
            pass


def _task(args):
    qual, idx, tmo = args
    cache_dir = os.path.join(HERE, '.cache')
    key = None
    if not os.environ.get('PYVC_NOCACHE'):
        import hashlib
        key = hashlib.sha256(('%s|%s|%s|%d|%d' % (tree_hash(), repo_root(), qual, idx, tmo)).encode()).hexdigest()[:40]
        pth = os.path.join(cache_dir, key + '.json')
        if os.path.exists(pth):
            try:
                out = json.load(open(pth))
                # reuse only if every repository module the verification read is byte-identical
                if _deps_current(out.get('deps')):
                    out['cached'] = True
                    return out
            except Exception:
                pass
    try:
        out = RUN.verify_case(repo_root(), qual, idx, timeout_ms=tmo)
        if key and out.get('status') == 'ok' and all(r['status'] == 'unsat' for r in out['results']):
            # only fully discharged results are reused (same sources, engine and contracts: the
            # result is a function of their content); anything else is recomputed
            try:
                os.makedirs(cache_dir, exist_ok=True)
                json.dump(out, open(os.path.join(cache_dir, key + '.json'), 'w'))
            except Exception:
                pass
        return out
    except Exception:
        return dict(fn=qual, case=str(idx), status='error', results=[], notes=[traceback.format_exc()],
                    assumed=[], stats={}, secs=0)


def verify_functions(quals, timeout_ms, procs=None):
    tasks = []
    for q in quals:
        c = REGISTRY[q]
        for i, case in enumerate(c.cases):
            if case.status == 'verified':
                tasks.append((q, i, timeout_ms))
    if not tasks:
        return []
    procs = procs or min(14, len(tasks), os.cpu_count() or 1)
    if procs <= 1:
        outs = [_task(t) for t in tasks]
    else:
        ctx = multiprocessing.get_context('fork')
        with ctx.Pool(procs) as pool:
            outs = pool.map(_task, tasks, chunksize=1)
    # obligations left `unknown` while all cores were busy are re-run one at a time with a generous
    # budget, so that machine load does not flip a verdict
    total_unknown = sum(1 for o in outs for r in o.get('results', []) if r['status'] == 'unknown')
    for k, (o, t) in enumerate(zip(outs, tasks)):
        if total_unknown > 20:
            break          # many undecided obligations: the code no longer matches its contracts; go to replay
        unk = set(r['name'] for r in o.get('results', []) if r['status'] == 'unknown')
        if not unk or o.get('cached') or len(unk) > 4 or any(r['status'] == 'sat' for r in o.get('results', [])):
            continue
        # 20 s, then a 120 s portfolio; the first obligation that stays undecided ends the generous budgets for this case
        redo = RUN.verify_case(repo_root(), t[0], t[1], timeout_ms=20000, only_names=unk, retry=True, failed_retry_budget=1)
        # obligation names are not unique (one per path): results are matched by (name, occurrence)
        by_name = {}
        for r in redo.get('results', []):
            if r['kind'] != 'vacuity':
                by_name.setdefault(r['name'], []).append(r)
        seen, changed, merged = {}, False, []
        for r in o['results']:
            k = seen.get(r['name'], 0)
            seen[r['name']] = k + 1
            lst = by_name.get(r['name'], [])
            if r['status'] == 'unknown' and r['kind'] != 'vacuity' and k < len(lst) and lst[k]['status'] != 'unknown':
                nr = dict(lst[k])
                nr['detail'] = 'decided in a sequential re-run. ' + (nr.get('detail') or '')
                merged.append(nr)
                changed = True
            else:
                merged.append(r)
        if changed:
            o['results'] = merged
            _store(t, o)
    return outs


def load_known():
    p = os.path.join(HERE, 'known_findings.json')
    if not os.path.exists(p):
        return []
    return json.load(open(p)).get('findings', [])


def match_known(known, pid, oname):
    for k in known:
        if oname in k.get('obligations', []) or any(oname.startswith(x[:-1]) for x in k.get('obligations', [])
                                                    if x.endswith('*')):
            return k
    return None


def run_replay_search(pid, failing, tier, seed):
    """Ask the replay harness (real code under /venv/bin/python) for a failing input for the
    function whose obligation failed.  Returns dict(found=bool, ...)."""
    req = dict(property=pid, fn=failing['fn'], case=failing['case'], obligation=failing['name'],
               model=failing.get('model'), tier=tier, seed=seed)
    env = dict(os.environ)
    env['PYTHONPATH'] = repo_root() + os.pathsep + HERE
    env['PYTHONWARNINGS'] = 'ignore'
    try:
        p = subprocess.run(['/venv/bin/python', '-W', 'ignore', os.path.join(HERE, 'replay', 'harness.py'),
                            '--search'], input=json.dumps(req), capture_output=True, text=True,
                           env=env, timeout=900 if tier == 'thorough' else 240, cwd=HERE)
    except subprocess.TimeoutExpired:
        return dict(found=False, error='replay search timed out')
    try:
        return json.loads(p.stdout.strip().splitlines()[-1])
    except Exception:
        return dict(found=False, error='replay harness failed: ' + (p.stdout + p.stderr)[-800:])


def run_bounded(targets, tier, seed):
    """bounded stand-ins for the contracts with status `bounded` used by this property"""
    if not targets:
        return []
    env = dict(os.environ)
    env['PYTHONPATH'] = repo_root() + os.pathsep + HERE
    env['PYTHONWARNINGS'] = 'ignore'
    req = dict(targets=targets, tier=tier, seed=seed)
    try:
        p = subprocess.run(['/venv/bin/python', '-W', 'ignore', os.path.join(HERE, 'replay', 'harness.py'),
                            '--bounded'], input=json.dumps(req), capture_output=True, text=True,
                           env=env, timeout=3600, cwd=HERE)
        return json.loads(p.stdout.strip().splitlines()[-1])
    except Exception as e:
        return [dict(fn='*', case=None, cases_run=0, failures=[], error='bounded harness failed: %s' % e)]


def reproduce_findings(ids):
    """run the witnesses of recorded findings on the real code"""
    if not ids:
        return {}
    env = dict(os.environ)
    env['PYTHONPATH'] = repo_root() + os.pathsep + HERE
    env['PYTHONWARNINGS'] = 'ignore'
    try:
        p = subprocess.run(['/venv/bin/python', '-W', 'ignore', os.path.join(HERE, 'replay', 'harness.py'),
                            '--findings'], input=json.dumps(dict(ids=ids)), capture_output=True, text=True,
                           env=env, timeout=300, cwd=HERE)
        return json.loads(p.stdout.strip().splitlines()[-1])
    except Exception as e:
        return dict((i, 'witness harness failed: %s' % e) for i in ids)


def check_property(pid, tier='quick', seed=0):
    from props import PROPS
    t0 = time.time()
    spec = PROPS[pid]
    load_contracts()
    tmo = 10000 if tier == 'quick' else 60000
    quals = spec['functions']
    missing = [q for q in quals if q not in REGISTRY]
    if missing:
        print('pyvc: no contract registered for %s' % missing)
        return 3
    outs = verify_functions(quals, tmo)
    lemma_results = LEM.prove_all()
    extra_results = []
    for hook in spec.get('extra', []):
        extra_results += hook(tier, seed)
    known = load_known()
    all_results = []
    fn_status = {}
    notes = []
    cache_hits = sum(1 for o in outs if o.get('cached'))
    assumed = set()
    machinery_error = None
    undecided = []
    for o in outs:
        key = '%s [%s]' % (o['fn'].replace('py_stringsimjoin.', ''), o['case'])
        if o['status'] == 'error':
            machinery_error = o['notes'][-1] if o['notes'] else 'error'
            fn_status[key] = 'error'
        elif o['status'] == 'undecided':
            undecided.append(dict(name=key + '/binding', fn=o['fn'], case=o['case'], status='unknown',
                                  kind='binding', detail='; '.join(o['notes']), model=None))
            fn_status[key] = 'undecided'
        else:
            bad = [r for r in o['results'] if r['status'] != 'unsat']
            fn_status[key] = 'proved' if not bad else 'failed(%d)' % len(bad)
        all_results += o['results']
        notes += ['%s: %s' % (key, n) for n in o['notes']]
        assumed.update(o.get('assumed', []))
    all_results += lemma_results + extra_results
    # bounded stand-ins -------------------------------------------------------------------
    import re as _re
    btargets = []
    for a in sorted(assumed):
        m_ = _re.match(r'(\S+) \{(.*)\} \[bounded\]', a)
        if m_:
            btargets.append(dict(fn=m_.group(1), case=m_.group(2)))
    btargets += [dict(x) for x in spec.get('bounded_extra', [])]
    if tier == 'thorough':
        # conformance run: the executable contract of every API function of this property that has one is
        # evaluated on the real code (also exercises the assumed pandas / tokenizer / lemma layer)
        have = set(t['fn'] for t in btargets)
        for q in quals:
            if q in have:
                continue
            names = [cs.name for cs in REGISTRY[q].cases if cs.status == 'verified' and 'not-a-' not in cs.name][:2]
            for nm in names:
                btargets.append(dict(fn=q, case=nm, conformance=True))
    bounded_results = run_bounded(btargets, tier, seed)
    conf = set((t['fn'], t.get('case')) for t in btargets if t.get('conformance'))
    bounded_results = [b for b in bounded_results
                       if not (b.get('error') == 'no executable oracle' and (b['fn'], b.get('case')) in conf)]
    for b in bounded_results:
        b['kind'] = 'conformance' if (b['fn'], b.get('case')) in conf else 'bounded-standin'
    failing = [r for r in all_results if r['status'] != 'unsat'] + undecided
    failing.sort(key=lambda r: 0 if r['status'] == 'sat' else 1)      # a refutation speaks for all same-named obligations
    n_obl = len(all_results) + len(undecided)
    n_ok = sum(1 for r in all_results if r['status'] == 'unsat')
    violations = []
    known_hit = []
    exit_code = 0
    os.makedirs(os.path.join(HERE, 'replays'), exist_ok=True)
    seen_known = set()
    seen_names = set()
    replay_cache = {}
    for r in failing:
        if r['name'] in seen_names and not match_known(known, pid, r['name']):
            continue
        seen_names.add(r['name'])
        k = match_known(known, pid, r['name'])
        if k is not None:
            known_hit.append(dict(finding=k['id'], obligation=r['name']))
            if k['id'] not in seen_known:
                seen_known.add(k['id'])
                print('KNOWN-FINDING: property=%s %s: %s' % (pid, k['id'], k['what']))
            continue
        rkey = (r.get('fn'), r.get('case'))
        if rkey not in replay_cache:
            replay_cache[rkey] = run_replay_search(pid, r, tier, seed)
        rep = replay_cache[rkey]
        rpath = os.path.join('replays', '%s-%s.json' % (pid, ''.join(ch if ch.isalnum() else '_' for ch in r['name'])[-120:]))
        doc = dict(property=pid, obligation=r['name'], function=r.get('fn'), case=r.get('case'),
                   solver_status=r['status'], backend=r.get('backend'), solver_model=r.get('model'),
                   solver_detail=r.get('detail'), source_line=r.get('line'), replay=rep,
                   repo=repo_root(), how_to_replay='./check --replay ' + rpath)
        json.dump(doc, open(os.path.join(HERE, rpath), 'w'), indent=1, default=str)
        if rep.get('found'):
            violations.append(rpath)
            print('VIOLATION property=%s replay=%s' % (pid, rpath))
            exit_code = 1 if exit_code != 3 else 3        # a violation outranks `undecided` (2)
        elif r['status'] == 'sat':
            violations.append(rpath)
            print('VIOLATION property=%s replay=%s no-failing-input-found' % (pid, rpath))
            exit_code = 1 if exit_code != 3 else 3        # a violation outranks `undecided` (2)
        else:
            print('UNDECIDED property=%s obligation=%s (%s) details=%s' % (pid, r['name'], r.get('detail', '')[:200], rpath))
            if exit_code == 0:
                exit_code = 2
    # recorded findings that are stated as explicit extra preconditions (not as failing
    # obligations): their witnesses are replayed on the real code on every run
    pre_findings = [k for k in known if pid in k.get('properties', []) and k.get('as_precondition')]
    repro = reproduce_findings([k['id'] for k in pre_findings])
    for k in pre_findings:
        if repro.get(k['id']) and k['id'] not in seen_known:
            seen_known.add(k['id'])
            known_hit.append(dict(finding=k['id'], obligation='precondition:' + k['as_precondition'],
                                  reproduced=repro[k['id']]))
            print('KNOWN-FINDING: property=%s %s: %s' % (pid, k['id'], k['what']))
    for b in bounded_results:
        if b.get('error'):
            print('pyvc: bounded stand-in for %s could not run: %s' % (b['fn'], b['error']))
            exit_code = 3
        for fl in b.get('failures', []):
            rpath = os.path.join('replays', '%s-bounded-%s.json' % (pid, ''.join(ch if ch.isalnum() else '_' for ch in b['fn'])[-80:]))
            doc = dict(property=pid, obligation='bounded/%s/%s' % (b['fn'], b['case']), function=b['fn'],
                       case=b['case'], solver_status='bounded-standin-failed',
                       replay=dict(found=True, fn=b['fn'], case=b['case'], args=fl['args'], failure=fl['failure']),
                       repo=repo_root(), how_to_replay='./check --replay ' + rpath)
            json.dump(doc, open(os.path.join(HERE, rpath), 'w'), indent=1, default=str)
            k = match_known(known, pid, doc['obligation'])
            if k is not None:
                print('KNOWN-FINDING: property=%s %s: %s' % (pid, k['id'], k['what']))
                known_hit.append(dict(finding=k['id'], obligation=doc['obligation']))
            else:
                violations.append(rpath)
                print('VIOLATION property=%s replay=%s' % (pid, rpath))
                if exit_code != 3:
                    exit_code = 1
            break
    lean_status = 'not run (quick tier; run lemmas/check_lemmas.sh or the thorough tier)'
    if tier == 'thorough':
        # the Lean 4 / Mathlib proofs of the pure-mathematics lemmas are re-checked (trusted base, not an obligation)
        try:
            lp = subprocess.run([os.path.join(HERE, 'lemmas', 'check_lemmas.sh')], capture_output=True, text=True, timeout=1800)
            lean_status = (lp.stdout + lp.stderr).strip().splitlines()[-1] if (lp.stdout + lp.stderr).strip() else 'no output'
            if lp.returncode != 0:
                print('pyvc: lemmas/Lemmas.lean is not accepted by lean: ' + lean_status)
                exit_code = 3
        except Exception as e_:
            lean_status = 'could not run lean: %s' % e_
            print('pyvc: ' + lean_status)
            exit_code = 3
    if machinery_error:
        print('pyvc: machinery error:\n' + machinery_error)
        exit_code = 3
    if n_obl == 0 or (n_ok == 0 and not failing):
        print('pyvc: zero obligations generated -- vacuous run')
        exit_code = 3
    # vacuity guards must all hold
    for r in all_results:
        if r['kind'] == 'vacuity' and r['status'] != 'unsat':
            print('pyvc: vacuity guard failed: %s' % r['name'])
            exit_code = 3
    wall = time.time() - t0
    backends = {}
    for r in all_results:
        if r['status'] == 'unsat':
            backends[r['backend']] = backends.get(r['backend'], 0) + 1
    samples = [dict(name=r['name'], status=r['status'], backend=r['backend'], secs=r['secs'],
                    smt_bytes=r.get('size', 0)) for r in all_results[:3] + all_results[len(all_results) // 2:len(all_results) // 2 + 3]]
    from props import TRUSTED_BASE, ASSUMPTIONS
    ev = dict(property_id=pid, tier=tier, seed=seed, level='proof',
              coverage=dict(obligations=n_obl, discharged=n_ok + len(known_hit) * 0,
                            checker_cmd='./check %s %s' % (pid, tier),
                            trusted_base=sorted(set(TRUSTED_BASE + spec.get('trusted', []) + sorted(assumed))),
                            functions_under_contract=fn_status,
                            backends=backends,
                            solver_time_s=round(sum(r['secs'] for r in all_results), 3),
                            lemmas=[dict(name=r['name'], status=r['status'], secs=r['secs']) for r in lemma_results],
                            undischarged=[dict(name=r['name'], status=r['status']) for r in failing],
                            known_findings_hit=known_hit, lean_lemmas=lean_status,
                            bounded_standins=[dict(contract=b['fn'], case=b['case'], kind=b.get('kind'), cases_run=b.get('cases_run', 0),
                                                   failures=len(b.get('failures', [])), secs=b.get('secs'),
                                                   scope_exhausted=b.get('generator_exhausted'))
                                              for b in bounded_results],
                            assumed_contracts=sorted(a for a in assumed if '[assumed' in a or '[bounded]' in a),
                            samples=samples, notes=notes[:40],
                            reused_results=dict(function_cases=cache_hits, of=len(outs),
                                                rule='results of fully discharged (function, case) pairs are reused when '
                                                     'pyvc, the contracts and every repository module that verification '
                                                     'read are byte-identical (PYVC_NOCACHE=1 disables)'),
                            repo=repo_root()),
              assumptions=ASSUMPTIONS + spec.get('assumptions', []),
              wall_s=round(wall, 2), violations=len(violations))
    os.makedirs(os.path.join(HERE, 'evidence'), exist_ok=True)
    json.dump(ev, open(os.path.join(HERE, 'evidence', pid + '.json'), 'w'), indent=1, default=str)
    print('pyvc: property %s tier=%s: %d obligations, %d discharged, %d known-finding, %d violation(s), %.1fs -> exit %d'
          % (pid, tier, n_obl, n_ok, len(known_hit), len(violations), wall, exit_code))
    return exit_code


def replay_file(path):
    doc = json.load(open(os.path.join(HERE, path) if not os.path.isabs(path) else path))
    rep = doc.get('replay') or {}
    if not rep.get('found'):
        print('replay file names obligation %s; the verifier gave no failing input (%s)'
              % (doc['obligation'], doc.get('solver_status')))
        print(json.dumps(doc.get('solver_model'), indent=1)[:2000])
        return 1
    env = dict(os.environ)
    env['PYTHONPATH'] = repo_root() + os.pathsep + HERE
    env['PYTHONWARNINGS'] = 'ignore'
    p = subprocess.run(['/venv/bin/python', '-W', 'ignore', os.path.join(HERE, 'replay', 'harness.py'),
                        '--replay'], input=json.dumps(rep), text=True, env=env, cwd=HERE)
    return p.returncode


def main(argv):
    if len(argv) >= 2 and argv[0] == '--replay':
        return replay_file(argv[1])
    if not argv:
        print(__doc__)
        return 3
    pid = argv[0]
    tier = argv[1] if len(argv) > 1 else os.environ.get('VERIF_TIER', 'quick')
    seed = int(os.environ.get('VERIF_SEED', '0') or 0)
    try:
        return check_property(pid, tier, seed)
    except Exception:
        traceback.print_exc()
        return 3


if __name__ == '__main__':
    sys.exit(main(sys.argv[1:]))
