"""Models of the builtins the token-ordering functions use (ASSUMED semantics of CPython builtins):
list(d.items()), operator.itemgetter(k), sorted(list, key=itemgetter(k)), list.sort().
sorted / sort: the result is a permutation of the input (ghost bijection perm / inv), ordered by the key,
stable."""
import z3
from .types import *  # noqa
from .values import *  # noqa
from .contract import Undecided
from .executor import Iter
from . import natives as N

I = z3.IntSort()
LAST_SORT = {}          # ghost: the permutation of the last sorted()/sort() call (read by contract hooks)


def b_list2(ex, st, args, kw, e):
    """list(iterable): for an enumeration of dict items a list with element facts (no lambda term)"""
    if args and isinstance(args[0], Iter) and getattr(args[0], 'order', None) is not None:
        it = args[0]
        probe = it.elem(z3.Int('j!probe'))
        lt = ListT(probe.ty)
        out = fresh(lt, 'items')
        j = z3.Int('j!items')
        st.assume(L_len(lt, out.t) == it.length)
        st.assume(z3.ForAll([j], z3.Implies(z3.And(j >= 0, j < it.length), L_get(lt, out.t, j) == it.elem(j).t),
                            patterns=[L_get(lt, out.t, j), L_get(it.order.ty, it.order.t, j)]))
        st.aux['last_items'] = dict(list=out, order=it.order, pos=it.pos, src=it.src)
        return out
    return _prev_list(ex, st, args, kw, e)


_prev_list = N.BUILTINS['list']
N.BUILTINS['list'] = b_list2


def q_itemgetter(ex, st, args, kw, e):
    k = z3.simplify(args[0].t)
    if not z3.is_int_value(k):
        raise Undecided('itemgetter with a symbolic index')
    return V(FUNC, ('itemgetter', k.as_long()))


N.QUALIFIED['operator.itemgetter'] = q_itemgetter


def _key_le(kty, a, b):
    if isinstance(kty, IntT):
        return a <= b
    if isinstance(kty, ValT):
        return z3.Or(a == b, N.val_lt(a, b))
    raise Undecided('sorting by a key of type %r' % (kty,))


def sort_model(ex, st, lst, keyfn, e):
    """fresh list S: a permutation of lst ordered by key, stable"""
    lt = lst.ty
    n = L_len(lt, lst.t)
    out = fresh(lt, 'sorted')
    perm = z3.Function(fresh_name('perm'), I, I)     # position in the result -> position in the input
    inv = z3.Function(fresh_name('pinv'), I, I)
    k, k2, j = z3.Ints('k!srt k2!srt j!srt')
    S_ = lambda q: L_get(lt, out.t, q)
    P_ = lambda q: L_get(lt, lst.t, q)
    if keyfn is None:
        kty = lt.elem
        key = lambda x: x
    else:
        idx = keyfn.t[1]
        kty = lt.elem.elems[idx]
        key = lambda x: T_get(lt.elem, x, idx)
    st.assume(L_len(lt, out.t) == n)
    st.assume(z3.ForAll([k], z3.Implies(z3.And(k >= 0, k < n), z3.And(
        perm(k) >= 0, perm(k) < n, S_(k) == P_(perm(k)), inv(perm(k)) == k)), patterns=[S_(k), perm(k)]))
    st.assume(z3.ForAll([j], z3.Implies(z3.And(j >= 0, j < n), z3.And(
        inv(j) >= 0, inv(j) < n, perm(inv(j)) == j)), patterns=[inv(j), P_(j)]))
    st.assume(z3.ForAll([k, k2], z3.Implies(z3.And(k >= 0, k < k2, k2 < n), z3.And(
        _key_le(kty, key(S_(k)), key(S_(k2))),
        z3.Implies(key(S_(k)) == key(S_(k2)), perm(k) < perm(k2)))), patterns=[z3.MultiPattern(S_(k), S_(k2))]))
    ex.notes.append('sorted()/list.sort(): the result is a stable, key-ordered permutation of the input (assumed builtin)')
    LAST_SORT['perm'], LAST_SORT['inv'], LAST_SORT['src'], LAST_SORT['out'] = perm, inv, lst, out
    st.aux['last_sort'] = dict(perm=perm, inv=inv, src=lst, out=out)
    return out


def b_sorted(ex, st, args, kw, e):
    lst = args[0]
    if isinstance(lst, Iter):
        lst = b_list2(ex, st, [lst], {}, e)          # sorted(iterable) first materialises the iterable
    if not (isinstance(lst.ty, ListT) and lst.t is not None):
        raise Undecided('sorted() of %r (line %d)' % (getattr(lst, 'ty', lst), e.lineno))
    keyfn = kw.get('key')
    if keyfn is not None and not (isinstance(keyfn.ty, FuncT) and isinstance(keyfn.t, tuple) and keyfn.t[0] == 'itemgetter'):
        raise Undecided('sorted() with a key other than itemgetter(k)')
    return sort_model(ex, st, lst, keyfn, e)


N.BUILTINS['sorted'] = b_sorted


def m_sort(ex, st, lv, recv, args, e):
    if recv.t is None:
        return vnone()           # sorting an empty list literal
    out = sort_model(ex, st, recv, None, e)
    ex.lv_write(st, lv, out)
    return vnone()


N.METHODS_MUT['sort'] = m_sort


# ---------------------------------------------------------------- len(set)
_card = {}


def len_set(ex, st, v, e):
    """len(s) for a set: only emptiness is characterised (card == 0 iff no element; card > 0 gives a witness)"""
    from .types import _name
    if v.t is None:
        return vint(0)
    k = _name(v.ty)
    if k not in _card:
        _card[k] = (z3.Function('set_card_' + k, sort_of(v.ty), I),
                    z3.Function('set_some_' + k, sort_of(v.ty), sort_of(v.ty.k)))
    card, some = _card[k]
    x = z3.Const('x!card', sort_of(v.ty.k))
    # the set may be a lambda term (intersection, set(list)): name it, membership is defined pointwise
    s_ = fresh(v.ty, 'set')
    st.assume(z3.ForAll([x], z3.Select(s_.t, x) == z3.simplify(z3.Select(v.t, x)), patterns=[z3.Select(s_.t, x)]))
    st.assume(card(s_.t) >= 0)
    st.assume(z3.Implies(card(s_.t) > 0, z3.Select(s_.t, some(s_.t))))
    st.assume(z3.ForAll([x], z3.Implies(z3.Select(s_.t, x), card(s_.t) > 0), patterns=[z3.Select(s_.t, x)]))
    ex.notes.append('len(set): only emptiness is characterised (assumed builtin)')
    return V(INT, card(s_.t))


N.LEN['SetT'] = len_set
