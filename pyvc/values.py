"""Symbolic values: a type descriptor plus a z3 term (or a Python payload)."""
import itertools
import z3
from .types import *  # noqa

_fresh = [0]


def fresh_name(prefix):
    _fresh[0] += 1
    return '%s!%d' % (prefix, _fresh[0])


def fresh_counter():
    return _fresh[0]


def fresh_index(name):
    """the counter value a fresh name was created with, or None for global symbols"""
    head, _, tail = name.rpartition('!')
    if head and tail.isdigit() and not name.startswith('str!'):
        return int(tail)
    return None


class V(object):
    """A symbolic Python value.

    ty   -- type descriptor
    t    -- z3 term for ground types; Python str for STR; qualified name for
            FUNC; heap address (int) for ObjT; None for NONE.
    """
    __slots__ = ('ty', 't')

    def __init__(self, ty, t):
        self.ty = ty
        self.t = t

    def __repr__(self):
        return 'V(%r, %s)' % (self.ty, self.t)


def fresh(ty, prefix='v'):
    return V(ty, z3.Const(fresh_name(prefix), sort_of(ty)))


def vint(n):
    return V(INT, z3.IntVal(n) if isinstance(n, int) else n)


def vbool(b):
    return V(BOOL, z3.BoolVal(b) if isinstance(b, bool) else b)


def vnone():
    return V(NONE, None)


def vstr(s):
    return V(STR, s)


# ----------------------------------------------------------------------------
# string constants as Val

_strconsts = {}


def strconst(s):
    """The Val constant denoting the concrete string s (distinct per string)."""
    if s not in _strconsts:
        _strconsts[s] = z3.Const('str!%d!%s' % (len(_strconsts),
                                              ''.join(c if c.isalnum() else '_' for c in s)[:20]),
                                 ValSort)
    return _strconsts[s]


def strconst_axioms():
    cs = list(_strconsts.values())
    if len(cs) > 1:
        return [z3.Distinct(*cs)]
    return []


def to_val(v):
    """Coerce a value to sort Val (concrete strings become Val constants)."""
    if isinstance(v.ty, StrConstT):
        return V(VAL, strconst(v.t))
    if isinstance(v.ty, ValT):
        return v
    raise TypeError('cannot view %r as Val' % (v,))


# ----------------------------------------------------------------------------
# list / dict / set / option helpers on z3 terms

def _is_mk(t):
    return z3.is_app(t) and t.decl().kind() == z3.Z3_OP_DT_CONSTRUCTOR and t.num_args() > 0


def L_len(ty, t):
    if _is_mk(t):
        return t.arg(0)                    # len(mk(n, a)) = n
    return sort_of(ty).len(t)


def L_arr(ty, t):
    if _is_mk(t):
        return t.arg(1)
    return sort_of(ty).arr(t)


def L_mk(ty, ln, arr):
    return sort_of(ty).mk(ln, arr)


def L_get(ty, t, i):
    a = L_arr(ty, t)
    # read over write on literal stores with numeral indices
    while z3.is_app(a) and a.decl().kind() == z3.Z3_OP_STORE and z3.is_int_value(i) and z3.is_int_value(a.arg(1)):
        if a.arg(1).as_long() == i.as_long():
            return a.arg(2)
        a = a.arg(0)
    return z3.Select(a, i)


def L_append(ty, t, x):
    n = L_len(ty, t)
    return L_mk(ty, n + 1, z3.Store(L_arr(ty, t), n, x))


_cons_ufs = {}


def L_cons(ty, x, t):
    """[x] + t as a deterministic term (list.insert(0, x)): no lambda, equal arguments give equal lists"""
    from .types import _name
    k = _name(ty)
    if k not in _cons_ufs:
        _cons_ufs[k] = z3.Function('list_cons_' + k, sort_of(ty.elem), sort_of(ty), sort_of(ty))
    return _cons_ufs[k](x, t)


def L_cons_facts(ty, x, t):
    c = L_cons(ty, x, t)
    q = z3.Int('q!cons')
    n = L_len(ty, t)
    return [L_len(ty, c) == n + 1, L_get(ty, c, z3.IntVal(0)) == x,
            z3.ForAll([q], z3.Implies(z3.And(q >= 1, q <= n), L_get(ty, c, q) == L_get(ty, t, q - 1)),
                      patterns=[L_get(ty, c, q)])]


def literal_elems(ty, t):
    """[e0, .., ek-1] if t is a list literal (mk with a numeral length over a store chain), else None"""
    if not _is_mk(t):
        return None
    n = t.arg(0)
    if not z3.is_int_value(n):
        return None
    k = n.as_long()
    elems = [None] * k
    a = t.arg(1)
    while z3.is_app(a) and a.decl().kind() == z3.Z3_OP_STORE:
        i = a.arg(1)
        if not z3.is_int_value(i):
            return None
        if 0 <= i.as_long() < k and elems[i.as_long()] is None:
            elems[i.as_long()] = a.arg(2)
        a = a.arg(0)
    if any(e is None for e in elems):
        return None
    return elems


def L_has(ty, t, x, upto=None):
    """x occurs among the first `upto` elements (default: all) of the list."""
    if upto is None:
        lit = literal_elems(ty, t)
        if lit is not None:
            return z3.Or(*[e == x for e in lit]) if lit else z3.BoolVal(False)
    if upto is None:
        return mem_fn(ty)(t, x)        # `x in list` as a predicate (definition: mem_axioms)
    j = z3.Int('j!has')
    return z3.Exists([j], z3.And(j >= 0, j < upto, L_get(ty, t, j) == x))


_mem_fns = {}


def mem_fn(ty):
    from .types import _name
    k = _name(ty)
    if k not in _mem_fns:
        _mem_fns[k] = (z3.Function('mem_' + k, sort_of(ty), sort_of(ty.elem), z3.BoolSort()),
                       z3.Function('wit_' + k, sort_of(ty), sort_of(ty.elem), z3.IntSort()), ty)
    return _mem_fns[k][0]


def mem_axioms():
    """definition of the membership predicates in use: x in l  <=>  l[wit(l,x)] == x for a position
    wit(l,x) in range.  The first axiom fires only on an existing membership atom (no term-creating
    loop with the second)."""
    out = []
    for k, (mem, wit, ty) in _mem_fns.items():
        l = z3.Const('l!mem' + k, sort_of(ty))
        x = z3.Const('x!mem' + k, sort_of(ty.elem))
        j = z3.Int('j!mem' + k)
        out.append(z3.ForAll([l, j], z3.Implies(z3.And(j >= 0, j < L_len(ty, l)), mem(l, L_get(ty, l, j))),
                             patterns=[mem(l, L_get(ty, l, j))]))
        out.append(z3.ForAll([l, x], z3.Implies(mem(l, x), z3.And(wit(l, x) >= 0, wit(l, x) < L_len(ty, l),
                                                                L_get(ty, l, wit(l, x)) == x)),
                             patterns=[mem(l, x)]))
    return out


_index_ufs = {}


def L_index(ty, t, x):
    """list.index(x) as a deterministic term (first position of x); meaningful when x occurs"""
    from .types import _name
    lit = literal_elems(ty, t)
    if lit:
        r = z3.IntVal(len(lit) - 1)
        for i in range(len(lit) - 2, -1, -1):
            r = z3.If(lit[i] == x, z3.IntVal(i), r)
        return r             # first position among the literal's elements (meaningful when x occurs)
    k = _name(ty)
    if k not in _index_ufs:
        _index_ufs[k] = z3.Function('list_index_' + k, sort_of(ty), sort_of(ty.elem), z3.IntSort())
    return _index_ufs[k](t, x)


def L_index_facts(ty, t, x):
    """facts defining L_index(ty, t, x), valid when x occurs in the list"""
    r = L_index(ty, t, x)
    if literal_elems(ty, t):
        return []            # computed, no defining facts needed
    j = z3.Int('j!idx')
    body = z3.Implies(z3.And(j >= 0, j < r), L_get(ty, t, j) != x)
    try:
        first = z3.ForAll([j], body, patterns=[L_get(ty, t, j)])
    except z3.Z3Exception:
        # the list term contains an if-then-else (a list built under a condition): z3 refuses it as a pattern
        # ("invalid pattern").  Seed C11-6 crashed the generator here (exit 3); fall back to z3's own trigger choice.
        first = z3.ForAll([j], body)
    return [z3.And(r >= 0, r < L_len(ty, t), L_get(ty, t, r) == x), first]


def default_of(sort):
    """a fixed (unspecified) element used to pad list literals, so that equal literals are equal terms"""
    return z3.Const('dflt!' + sort.name().replace(' ', '_'), sort)


def L_empty(ty):
    s = sort_of(ty)
    return s.mk(z3.IntVal(0), z3.K(z3.IntSort(), default_of(sort_of(ty.elem))))


def L_lit(ty, terms):
    """the list literal [terms...] as a canonical term"""
    arr = L_arr(ty, L_empty(ty))
    for i, x in enumerate(terms):
        arr = z3.Store(arr, i, x)
    return L_mk(ty, z3.IntVal(len(terms)), arr)


def D_dom(ty, t):
    return sort_of(ty).dom(t)


def D_map(ty, t):
    return sort_of(ty).map(t)


def D_mk(ty, dom, mp):
    return sort_of(ty).mk(dom, mp)


def D_has(ty, t, k):
    return z3.Select(D_dom(ty, t), k)


def D_get(ty, t, k):
    return z3.Select(D_map(ty, t), k)


def D_set(ty, t, k, v):
    return D_mk(ty, z3.Store(D_dom(ty, t), k, z3.BoolVal(True)),
                z3.Store(D_map(ty, t), k, v))


def D_empty(ty):
    return D_mk(ty, z3.K(sort_of(ty.k), z3.BoolVal(False)),
                z3.Const(fresh_name('emptymap'), z3.ArraySort(sort_of(ty.k), sort_of(ty.v))))


def S_empty(ty):
    return z3.K(sort_of(ty.k), z3.BoolVal(False))


def O_none(ty):
    return sort_of(ty).none


def O_some(ty, x):
    return sort_of(ty).some(x)


def O_is_none(ty, t):
    return sort_of(ty).is_none(t)


def O_val(ty, t):
    return sort_of(ty).v(t)


def R_get(ty, t, f):
    if _is_mk(t):
        names = [fn for fn, _ in ty.fields]
        return t.arg(names.index(f))
    return getattr(sort_of(ty), f)(t)


def R_mk(ty, **kw):
    return sort_of(ty).mk(*[kw[fn] for fn, _ in ty.fields])


def rec_field(v, f):
    """field f of a record value, as V"""
    return V(v.ty.ftype(f), R_get(v.ty, v.t, f))


def T_get(ty, t, i):
    if _is_mk(t):
        return t.arg(i)
    return getattr(sort_of(ty), 'f%d' % i)(t)


def T_mk(ty, *xs):
    return sort_of(ty).mk(*xs)


REC_INVARIANTS = {}


def wf(v, depth=0):
    """Well-formedness facts of a symbolic value: list lengths are non-negative (also for
    the elements of a list of lists, and inside options / tuples)."""
    ty, t = v.ty, v.t
    out = []
    if t is None or isinstance(t, (int, str)):
        return out
    if isinstance(ty, ListT):
        out.append(L_len(ty, t) >= 0)
        if depth < 2 and isinstance(ty.elem, (ListT, TupleT, OptT)):
            j = z3.Int('j!wf%d' % depth)
            inner = wf(V(ty.elem, L_get(ty, t, j)), depth + 1)
            if inner:
                out.append(z3.ForAll([j], z3.And(*inner), patterns=[L_get(ty, t, j)]))
    elif isinstance(ty, OptT):
        inner = wf(V(ty.t, O_val(ty, t)), depth)
        if inner:
            out.append(z3.Implies(z3.Not(O_is_none(ty, t)), z3.And(*inner)))
    elif isinstance(ty, TupleT):
        for i, et in enumerate(ty.elems):
            out += wf(V(et, T_get(ty, t, i)), depth)
    elif isinstance(ty, RecT):
        for fn, ft in ty.fields:
            out += wf(V(ft, R_get(ty, t, fn)), depth)
        inv = REC_INVARIANTS.get(ty.name)
        if inv is not None:
            out += inv(V(ty, t))
    elif isinstance(ty, DictT) and depth < 2 and isinstance(ty.v, (ListT,)):
        k = z3.Const('k!wf%d' % depth, sort_of(ty.k))
        inner = wf(V(ty.v, D_get(ty, t, k)), depth + 1)
        if inner:
            out.append(z3.ForAll([k], z3.And(*inner), patterns=[D_get(ty, t, k)]))
    return out
