"""Symbolic executor: real Python AST  ->  verification conditions.

Modular: a call is replaced by the callee's contract (requires asserted, result and
frame havoc'd, ensures assumed).  Loops are cut by the invariants of the sidecar
LoopSpec.  Every implicit exception (KeyError, IndexError, ZeroDivisionError,
TypeError on int-only positions, float overflow) is a safety obligation.
"""
import ast
import copy
import os
import z3
from .types import *  # noqa
from .values import *  # noqa
from . import fp as FP
from .contract import Ctx, Undecided, REGISTRY, ObjSpec, LoopSpec, Case


class Obligation(object):
    __slots__ = ('name', 'kind', 'assumptions', 'goal', 'line', 'fn', 'case', 'fplog')

    def __init__(self, name, kind, assumptions, goal, line, fn, case, fplog):
        self.name = name
        self.kind = kind
        self.assumptions = assumptions
        self.goal = goal
        self.line = line
        self.fn = fn
        self.case = case
        self.fplog = fplog


class State(object):
    def __init__(self):
        self.env = {}
        self.heap = {}
        self.pc = []
        self.fp = FP.FPLog()
        self.ghost = {}
        self.guards = []
        self.writes = set()
        self.fresh_objs = set()
        self.loop_idx = []
        self.aux = {}
        self.dead = False

    def fork(self):
        s = State()
        s.env = dict(self.env)
        s.heap = {a: dict(f) for a, f in self.heap.items()}
        s.pc = list(self.pc)
        s.fp = self.fp.copy()
        s.ghost = dict(self.ghost)
        s.guards = list(self.guards)
        s.writes = set(self.writes)
        s.fresh_objs = set(self.fresh_objs)
        s.loop_idx = list(self.loop_idx)
        s.aux = dict(self.aux)
        s.dead = self.dead
        return s

    def assume(self, f):
        if self.guards:
            f = z3.Implies(z3.And(*self.guards), f)
        elif z3.is_false(z3.simplify(f)):
            self.dead = True          # the normal continuation of this path is impossible
        self.pc.append(f)


class Iter(object):
    """Abstract finite iterable: length term and element function i -> V."""

    def __init__(self, length, elem, src=None):
        self.length = length
        self.elem = elem
        self.src = src


_addr = [1000]


def new_addr():
    _addr[0] += 1
    return _addr[0]


MUTATORS = ('append', 'add', 'update', 'insert', 'sort', 'extend', 'pop', 'remove', 'clear')


def _const_true(b):
    return z3.is_true(b)


def _const_false(b):
    return z3.is_false(b)


def _has_lambda_or_ite(t, arrays=False):
    """the term contains a lambda / quantifier / if-then-else (or, with arrays=True, a store or
    constant-array node): such terms are given a name before contract formulas mention them"""
    seen = set()
    stack = [t]
    while stack:
        x = stack.pop()
        i = x.get_id()
        if i in seen:
            continue
        seen.add(i)
        if z3.is_quantifier(x):
            return True          # lambda (or a quantified sub-term)
        if z3.is_app(x):
            if x.decl().kind() == z3.Z3_OP_ITE:
                return True
            if arrays and x.decl().kind() in (z3.Z3_OP_STORE, z3.Z3_OP_CONST_ARRAY):
                return True
            stack.extend(x.children())
    return False


class Executor(object):
    def __init__(self, module, fn_ast, qualname, case, natives, externals_resolver=None,
                 feasibility_ms=300):
        self.module = module           # ModuleInfo
        self.fn = fn_ast
        self.qualname = qualname
        self.case = case
        self.natives = natives
        self.obls = []
        self.feas_ms = feasibility_ms
        self.loop_ord = {}
        self._number_loops(fn_ast.body, '')
        self.params0 = {}
        self.pre_heap = {}
        self.assumed_log = []          # names of assumed contracts / lemmas used
        self.stats = {'paths': 0, 'pruned': 0}
        self.notes = []
        self._raised = []
        self.hook_nodes = {}           # id(call node) -> [hook]
        self._bind_hooks()

    # ------------------------------------------------------------------ ghost
    def _bind_hooks(self):
        """Bind the case's ghost hooks to call sites: key (callee text, n-th occurrence in
        document order or None for every occurrence)."""
        hooks = getattr(self.case, 'hooks', None) or []
        if not hooks:
            return
        calls = {}
        for node in ast.walk(self.fn):
            if isinstance(node, ast.Call):
                try:
                    txt = ast.unparse(node.func)
                except Exception:
                    continue
                calls.setdefault(txt, []).append(node)
        for txt in calls:
            calls[txt].sort(key=lambda n: (n.lineno, n.col_offset))
        for h in hooks:
            nodes = calls.get(h.target, [])
            if h.nth is not None:
                if h.nth >= len(nodes):
                    raise Undecided('contract does not bind: ghost hook on call #%d of %s, which %s '
                                    'does not contain' % (h.nth, h.target, self.qualname))
                nodes = [nodes[h.nth]]
            elif not nodes:
                raise Undecided('contract does not bind: ghost hook on %s, which %s does not call'
                                % (h.target, self.qualname))
            for n in nodes:
                self.hook_nodes.setdefault(id(n), []).append(h)

    def run_hooks(self, st, node, res):
        for h in self.hook_nodes.get(id(node), ()):
            c = self.ctx(st)
            c.call_result = res
            c.loop_idx = list(st.loop_idx)
            c.asserts = []
            c.last_call = st.aux.get('last_call')
            try:
                h.fn(c)
            except (KeyError, AttributeError, TypeError) as err:
                # the code no longer has the shape the ghost code of this hook refers to (a renamed or
                # removed temporary): the lemma steps are skipped, the obligations that needed them will
                # simply not be discharged -- never a crash of the check
                self.notes.append('ghost hook at %s (line %d) skipped: %s: %s'
                                  % (h.target, getattr(node, 'lineno', 0), type(err).__name__, err))
                continue
            for f in c.extra:
                st.pc.append(f)
            # ghost lemma steps: proved here (small context), then available downstream
            for (label, f) in c.asserts:
                self.oblige(st, 'lemma-step', label, f, node)
                st.pc.append(f)

    def ghost_written_in(self, body):
        names = set()
        for node in ast.walk(ast.Module(body=body, type_ignores=[])):
            for h in self.hook_nodes.get(id(node), ()):
                names.update(h.writes)
        return names

    # ------------------------------------------------------------------ loops
    def _number_loops(self, body, prefix):
        k = 0
        for node in self._iter_stmts(body):
            if isinstance(node, (ast.For, ast.While)):
                o = prefix + str(k)
                self.loop_ord[id(node)] = o
                k += 1
                self._number_loops(node.body, o + '.')

    def _iter_stmts(self, body):
        """Statements of `body` in document order, descending into if/else but not
        into loops (those are numbered recursively)."""
        for s in body:
            if isinstance(s, (ast.For, ast.While)):
                yield s
            elif isinstance(s, ast.If):
                for x in self._iter_stmts(s.body):
                    yield x
                for x in self._iter_stmts(s.orelse):
                    yield x
            elif isinstance(s, ast.Try):
                for part in (s.body, s.orelse, s.finalbody):
                    for x in self._iter_stmts(part):
                        yield x
                for h in s.handlers:
                    for x in self._iter_stmts(h.body):
                        yield x
            else:
                yield s

    # ------------------------------------------------------------ obligations
    def oblige(self, st, kind, label, goal, node=None):
        goal = z3.simplify(goal) if not isinstance(goal, bool) else z3.BoolVal(goal)
        if st.guards:
            goal = z3.Implies(z3.And(*st.guards), goal)
        name = '%s/%s/%s/%s' % (self.qualname.split('.')[-2] + '.' + self.qualname.split('.')[-1]
                                if self.qualname.count('.') else self.qualname,
                                self.case.name, kind, label)
        seen_ids = set()
        uniq = []
        for a in st.pc:
            i_ = a.get_id()
            if i_ not in seen_ids:
                seen_ids.add(i_)
                uniq.append(a)
        st.pc[:] = uniq
        self.obls.append(Obligation(name, kind, list(st.pc), goal,
                                    getattr(node, 'lineno', 0), self.qualname, self.case.name,
                                    st.fp.copy()))
        if kind == 'safety':
            # the statement completes normally only if the implicit exception is not raised
            st.pc.append(goal)

    def feasible(self, st, extra=None):
        if self.feas_ms <= 0:
            return True
        s = z3.Solver()
        s.set('timeout', self.feas_ms)
        for a in st.pc:
            s.add(a)
        for a in st.fp.facts:
            s.add(a)
        for a in strconst_axioms():
            s.add(a)
        for a in mem_axioms():
            s.add(a)
        if extra is not None:
            s.add(extra)
        r = s.check()
        if r == z3.unsat:
            self.stats['pruned'] += 1
            return False
        return True

    # ------------------------------------------------------------------ entry
    def bind_param(self, st, name, spec):
        if isinstance(spec, V):
            return spec
        if isinstance(spec, ObjSpec):
            a = new_addr()
            st.heap[a] = {}
            for fname, fspec in spec.fields.items():
                st.heap[a][fname] = self.bind_param(st, name + '.' + fname, fspec)
            return V(ObjT(spec.cls), a)
        if isinstance(spec, T):
            if isinstance(spec, (NoneT, AnyT)):
                return vnone()
            v = fresh(spec, name.replace('.', '_'))
            if isinstance(spec, IntT):
                st.fp.landmark(v.t)
            st.pc += wf(v)
            return v
        raise Undecided('bad parameter spec for %s: %r' % (name, spec))

    def run(self):
        st = State()
        argnames = [a.arg for a in self.fn.args.args]
        declared = self.case.params
        for n in argnames:
            if n not in declared:
                raise Undecided('contract does not bind: parameter %r of %s has no declaration '
                                'in case %s' % (n, self.qualname, self.case.name))
        for n in declared:
            if n not in argnames:
                raise Undecided('contract does not bind: declared parameter %r is not a parameter '
                                'of %s' % (n, self.qualname))
        for n in argnames:
            st.env[n] = self.bind_param(st, n, declared[n])
        self.params0 = dict(st.env)
        self.pre_heap = {a: dict(f) for a, f in st.heap.items()}
        c = self.ctx(st)
        g0 = getattr(self.case, 'ghost', None)
        if g0 is not None:
            st.ghost.update(g0(c))
        for f in self.case.setup(c):
            st.pc.append(f)
        for (label, f) in self.case.requires(c):
            st.pc.append(f)
        st.pc += c.extra
        for k in self.case.landmarks(c):
            st.fp.landmark(k)
        self.entry_pc = list(st.pc)
        outs = self.exec_block(self.fn.body, st)
        for out in outs:
            self.stats['paths'] += 1
            kind = out[0]
            if kind == 'normal':
                self.finish(out[1], vnone(), self.fn)
            elif kind == 'return':
                self.finish(out[1], out[2], out[3])
            elif kind == 'raise':
                self.finish_raise(out[1], out[2], out[3])
            else:
                raise Undecided('%s outside a loop' % kind)
        return self.obls

    def name_value(self, st, v, hint, scalars=False, keep_literals=False):
        """Give a compound ground term a name (fresh constant), so that contract formulas and
        quantifier patterns mention constants rather than store/lambda towers."""
        if isinstance(v, (PyTuple, PyDict)) or v.t is None or not is_ground(v.ty):
            return v
        if not z3.is_expr(v.t) or z3.is_const(v.t):
            return v
        if not isinstance(v.ty, (IntT, FloatT, BoolT)) and not _has_lambda_or_ite(v.t, arrays=not keep_literals):
            return v              # constructor / accessor / store terms are fine inside patterns
        if isinstance(v.ty, (IntT, FloatT, BoolT)):
            if not scalars or FP.is_num(z3.simplify(v.t)) or z3.is_true(v.t) or z3.is_false(v.t):
                return v
        nv = fresh(v.ty, hint)
        st.pc.append(nv.t == v.t)
        return nv

    def name_state(self, st):
        for k in list(st.env.keys()):
            st.env[k] = self.name_value(st, st.env[k], k)
        for a in st.heap:
            for f in list(st.heap[a].keys()):
                st.heap[a][f] = self.name_value(st, st.heap[a][f], f)
        for g in list(st.ghost.keys()):
            st.ghost[g] = self.name_value(st, st.ghost[g], 'ghost_' + g)

    def ctx(self, st, **kw):
        if kw.pop('name', True):
            self.name_state(st)
        c = Ctx(self, self.params0, self.pre_heap, st.heap, env=st.env, ghost=st.ghost,
                case=self.case, **kw)
        c.fp = st.fp
        c.proving = True
        return c

    def finish(self, st, res, node):
        rt = self.case.returns
        if rt is not None and isinstance(rt, T) and not isinstance(rt, NoneT):
            res = self.coerce(st, res, rt, node, 'result-type')
        st2 = st.fork()
        c = self.ctx(st2)
        c.proving = True
        c.fp = st2.fp
        res = self.name_value(st2, res, 'result')
        posts = self.case.ensures(c, res)
        hints = self.case.hints(c, res)
        for h in hints:
            st2.pc.append(h)
        st2.pc += c.extra
        for k in self.case.landmarks(c):
            st2.fp.landmark(k)
        for (label, f) in posts:
            self.oblige(st2, 'post', label, f, node)
        for exc, cond in self.case.raises(c).items():
            self.oblige(st2, 'post', 'no-%s-expected' % exc, z3.Not(cond), node)
        self.check_frame(st, node)

    def finish_raise(self, st, exc, node):
        c = self.ctx(st)
        conds = self.case.raises(c)
        if exc not in conds:
            self.oblige(st, 'safety', 'unexpected-raise-%s' % exc, z3.BoolVal(False), node)
        else:
            self.oblige(st, 'raise', 'raise-%s-only-when-specified' % exc, conds[exc], node)
            # exceptional exits have an empty frame
            self.check_frame(st, node, exceptional=True)

    def check_frame(self, st, node, exceptional=False):
        allowed = set()
        if not exceptional:
            for m in self.case.modifies:
                allowed.add(m[0] if isinstance(m, tuple) else m)
        for w in st.writes:
            if w[0] != 'field':
                continue
            addr, fname = w[1], w[2]
            if addr in st.fresh_objs:
                continue
            if self.fn.name == '__init__' and 'self' in self.params0 and self.params0['self'].t == addr \
                    and not exceptional:
                continue          # a constructor initialises the fields of the object under construction
            # name the location through the parameter that reaches it
            locname = self.loc_name(addr, fname)
            if locname in allowed:
                continue
            # a write is harmless if the final value equals the initial one
            old = self.pre_heap.get(addr, {}).get(fname)
            new = st.heap[addr].get(fname)
            if old is not None and new is not None and old.ty == new.ty and is_ground(old.ty):
                self.oblige(st, 'frame', ('exc-' if exceptional else '') + 'restored-' + locname,
                            new.t == old.t, node)
            else:
                self.oblige(st, 'frame', 'write-outside-frame-' + locname, z3.BoolVal(False), node)

    def loc_name(self, addr, fname):
        for pname, v in self.params0.items():
            if isinstance(v.ty, ObjT) and v.t == addr:
                return '%s.%s' % (pname, fname)
            if isinstance(v.ty, ObjT):
                for f2, v2 in self.pre_heap.get(v.t, {}).items():
                    if isinstance(v2.ty, ObjT) and v2.t == addr:
                        return '%s.%s.%s' % (pname, f2, fname)
        return 'obj%d.%s' % (addr, fname)

    # ------------------------------------------------------------- statements
    def exec_block(self, stmts, st):
        live = [st]
        done = []
        for s in stmts:
            nxt = []
            for x in live:
                for out in self.exec_stmt(s, x):
                    if out[0] == 'normal':
                        nxt.append(out[1])
                    else:
                        done.append(out)
            live = nxt
            if not live:
                break
        return [('normal', x) for x in live] + done

    def exec_stmt(self, s, st):
        m = getattr(self, 'stmt_' + type(s).__name__, None)
        if m is None:
            raise Undecided('statement %s at line %d is outside the verified subset'
                            % (type(s).__name__, s.lineno))
        return m(s, st)

    def stmt_Pass(self, s, st):
        return [('normal', st)]

    def stmt_Import(self, s, st):
        return [('normal', st)]

    stmt_ImportFrom = stmt_Import

    def stmt_Expr(self, s, st):
        if isinstance(s.value, ast.Constant):
            return [('normal', st)]          # docstring
        outs = []
        for (st2, v) in self.eval_forking(st, s.value):
            outs.append(('normal', st2) if not isinstance(v, tuple) else v)
        return outs

    def eval_forking(self, st, e):
        """Evaluate e; calls whose contract may raise fork into exceptional paths.
        Returns list of (state, V) for normal completion or (state, ('raise', state, exc, node))."""
        v = self.eval(st, e)
        res = []
        for (rst, exc, node) in self._raised:
            res.append((rst, ('raise', rst, exc, node)))
        self._raised = []
        if not st.dead:
            res.append((st, v))
        return res

    def stmt_Assign(self, s, st):
        outs = []
        for (st2, v) in self.eval_forking(st, s.value):
            if isinstance(v, tuple):
                outs.append(v)
                continue
            for tgt in s.targets:
                if isinstance(tgt, ast.Name) and tgt.id in getattr(self.case, 'locals', {}):
                    v = self.coerce(st2, v, self.case.locals[tgt.id], s, 'declared-local-type')
                self.assign(st2, tgt, v)
            outs.append(('normal', st2))
        return outs

    def stmt_AugAssign(self, s, st):
        cur = ast.BinOp(left=self._load(s.target), op=s.op, right=s.value)
        ast.copy_location(cur, s)
        ast.fix_missing_locations(cur)
        outs = []
        for (st2, v) in self.eval_forking(st, cur):
            if isinstance(v, tuple):
                outs.append(v)
                continue
            self.assign(st2, s.target, v)
            outs.append(('normal', st2))
        return outs

    def _load(self, tgt):
        t2 = copy.deepcopy(tgt)
        for n in ast.walk(t2):
            if hasattr(n, 'ctx'):
                n.ctx = ast.Load()
        return t2

    def stmt_Return(self, s, st):
        if s.value is None:
            return [('return', st, vnone(), s)]
        outs = []
        for (st2, v) in self.eval_forking(st, s.value):
            if isinstance(v, tuple):
                outs.append(v)
            else:
                outs.append(('return', st2, v, s))
        return outs

    def stmt_Raise(self, s, st):
        exc = s.exc
        name = None
        if isinstance(exc, ast.Call) and isinstance(exc.func, ast.Name):
            name = exc.func.id
        elif isinstance(exc, ast.Name):
            name = exc.id
        if name is None:
            raise Undecided('unsupported raise at line %d' % s.lineno)
        return [('raise', st, name, s)]

    def stmt_Continue(self, s, st):
        return [('continue', st)]

    def stmt_Break(self, s, st):
        raise Undecided('break is outside the verified subset (line %d)' % s.lineno)

    @staticmethod
    def _narrow_target(test):
        """(name, positive) if the test is `name is not None` (positive) or `name is None`"""
        if isinstance(test, ast.Compare) and len(test.ops) == 1 and isinstance(test.left, ast.Name) and \
                isinstance(test.comparators[0], ast.Constant) and test.comparators[0].value is None:
            if isinstance(test.ops[0], ast.IsNot):
                return test.left.id, True
            if isinstance(test.ops[0], ast.Is):
                return test.left.id, False
        return None, None

    @staticmethod
    def _narrow(st, name, present):
        """in the branch where an Optional local is known to hold a value it is that value (None in the other)"""
        v = st.env.get(name)
        if v is not None and not isinstance(v, Iter) and isinstance(getattr(v, 'ty', None), OptT):
            st.env[name] = V(v.ty.t, O_val(v.ty, v.t)) if present else vnone()

    def stmt_If(self, s, st):
        outs = []
        nname, npos = self._narrow_target(s.test)
        for (st1, cv) in self.eval_forking(st, s.test):
            if isinstance(cv, tuple):
                outs.append(cv)
                continue
            c = self.truth(st1, cv)
            c = z3.simplify(c)
            if _const_true(c):
                outs += self.exec_block(s.body, st1)
                continue
            if _const_false(c):
                outs += self.exec_block(s.orelse, st1) if s.orelse else [('normal', st1)]
                continue
            st_t = st1.fork()
            st_t.pc.append(c)
            st_f = st1
            st_f.pc.append(z3.Not(c))
            if nname is not None:
                self._narrow(st_t, nname, npos)
                self._narrow(st_f, nname, not npos)
            if self.feasible(st_t):
                outs += self.exec_block(s.body, st_t)
            if self.feasible(st_f):
                outs += self.exec_block(s.orelse, st_f) if s.orelse else [('normal', st_f)]
        return outs

    def stmt_Try(self, s, st):
        """try/finally and try/except E: ... raise  (the finalbody / handler body is
        executed on the exceptional paths, then the exception propagates)."""
        outs = []
        for out in self.exec_block(s.body, st):
            if out[0] == 'raise':
                handled = False
                for h in s.handlers:
                    hn = h.type.id if isinstance(h.type, ast.Name) else None
                    if h.type is None or hn in (out[2], 'Exception', 'BaseException'):
                        handled = True
                        for o2 in self.exec_block(h.body, out[1]):
                            if o2[0] == 'normal':
                                # handler swallowed the exception
                                for o3 in (self.exec_block(s.finalbody, o2[1]) if s.finalbody else [o2]):
                                    outs.append(o3)
                            elif o2[0] == 'raise' and o2[2] == '<reraise>':
                                for o3 in (self.exec_block(s.finalbody, o2[1]) if s.finalbody
                                           else [('normal', o2[1])]):
                                    outs.append(('raise', o3[1], out[2], out[3]) if o3[0] == 'normal' else o3)
                            else:
                                outs.append(o2)
                        break
                if not handled:
                    for o3 in (self.exec_block(s.finalbody, out[1]) if s.finalbody else [('normal', out[1])]):
                        outs.append(('raise', o3[1], out[2], out[3]) if o3[0] == 'normal' else o3)
            elif out[0] == 'normal':
                for o2 in (self.exec_block(s.orelse, out[1]) if s.orelse else [out]):
                    if o2[0] == 'normal' and s.finalbody:
                        outs += self.exec_block(s.finalbody, o2[1])
                    else:
                        outs.append(o2)
            else:
                # return / continue inside try: run finalbody, keep the outcome
                if s.finalbody:
                    for o3 in self.exec_block(s.finalbody, out[1]):
                        if o3[0] == 'normal':
                            outs.append((out[0], o3[1]) + tuple(out[2:]))
                        else:
                            outs.append(o3)
                else:
                    outs.append(out)
        return outs

    # ---------------------------------------------------------------- for loop
    def stmt_For(self, s, st):
        if s.orelse:
            raise Undecided('for/else outside subset')
        ordn = self.loop_ord[id(s)]
        spec = self.case.loops.get(ordn)
        if spec is None:
            spec = LoopSpec(lambda c: [])
            self.notes.append('loop %s of %s has no invariant (havoc only)' % (ordn, self.qualname))
        outs = []
        for (st1, itv) in self.eval_forking(st, s.iter):
            if isinstance(itv, tuple):
                outs.append(itv)
                continue
            it = self.as_iter(st1, itv, s.iter)
            outs += self._loop(s, st1, it, spec, ordn)
        return outs

    def _assigned_names(self, body):
        names = set()
        for node in ast.walk(ast.Module(body=body, type_ignores=[])):
            if isinstance(node, ast.Name) and isinstance(node.ctx, ast.Store):
                names.add(node.id)
            elif isinstance(node, ast.AugAssign) and isinstance(node.target, ast.Name):
                names.add(node.target.id)
            elif isinstance(node, ast.Call) and isinstance(node.func, ast.Attribute) \
                    and node.func.attr in MUTATORS:
                root = node.func.value
                while isinstance(root, (ast.Subscript, ast.Attribute, ast.Call)):
                    root = root.func if isinstance(root, ast.Call) else root.value
                if isinstance(root, ast.Name):
                    names.add(root.id)
            elif isinstance(node, ast.Subscript) and isinstance(node.ctx, ast.Store):
                root = node.value
                while isinstance(root, (ast.Subscript, ast.Attribute)):
                    root = root.value
                if isinstance(root, ast.Name):
                    names.add(root.id)
        return names

    def _loop(self, s, st, it, spec, ordn):
        # a loop contract is bound to its loop by ordinal: when the code's loop structure changes, the invariant's
        # ghost code may meet a different kind of sequence or miss a local.  That is "the contract no longer fits
        # the code" (undecided -> replay search on the real code), never a crash of the check.
        try:
            return self._loop_body(s, st, it, spec, ordn)
        except (AttributeError, KeyError, TypeError, IndexError) as e:
            raise Undecided('loop contract %s no longer fits the code at line %d (%s: %s)'
                            % (ordn, s.lineno, type(e).__name__, e))

    def _loop_body(self, s, st, it, spec, ordn):
        tgt_names = set(n.id for n in ast.walk(s.target) if isinstance(n, ast.Name))
        assigned = self._assigned_names(s.body) | tgt_names
        pre_env = dict(st.env)
        pre_heap_loop = {a: dict(f) for a, f in st.heap.items()}
        n_len = it.length
        # 1. invariant holds on entry
        c0 = self.ctx(st, i=z3.IntVal(0), seq=it, pre_env=pre_env)
        c0.loop_pre_heap = pre_heap_loop
        c0.outer = list(st.loop_idx)
        inv0 = spec.inv(c0)
        st.pc += c0.extra
        for (label, f) in inv0:
            self.oblige(st, 'inv-init', 'loop%s/%s' % (ordn, label), f, s)
        havoc_fields = set()
        attempt = 0
        while True:
            attempt += 1
            if attempt > 6:
                raise Undecided('loop %s: frame inference did not converge' % ordn)
            saved_obls = len(self.obls)
            # 2. arbitrary iteration
            hs = st.fork()
            hs.writes = set()
            self.havoc(hs, assigned, havoc_fields, pre_env)
            for gname in self.ghost_written_in(s.body):
                gv = hs.ghost[gname]
                hs.ghost[gname] = fresh(gv.ty, 'ghost_' + gname)
            i = z3.Int(fresh_name('it%s' % ordn.replace('.', '_')))
            hs.fp.landmark(i)
            body_st = hs.fork()
            body_st.pc += [i >= 0, i < n_len]
            body_st.loop_idx = st.loop_idx + [i]
            ci = self.ctx(body_st, i=i, seq=it, pre_env=pre_env)
            ci.loop_pre_heap = pre_heap_loop
            ci.outer = list(st.loop_idx)
            for (label, f) in spec.inv(ci):
                body_st.pc.append(f)
            body_st.pc += ci.extra
            self.assign(body_st, s.target, it.elem(i))
            body_st.writes = set()
            results = []
            if self.feasible(body_st):
                results = self.exec_block(s.body, body_st)
            outs = []
            new_fields = set()
            discovered = {}
            for out in results:
                stx = out[1]
                for w in stx.writes:
                    if w[0] == 'field' and (w[1], w[2]) not in havoc_fields and w[1] in st.heap:
                        new_fields.add((w[1], w[2]))
                for nm in assigned:
                    if nm in stx.env and nm not in pre_env:
                        discovered[nm] = stx.env[nm].ty
            if new_fields:
                havoc_fields |= new_fields
                del self.obls[saved_obls:]
                continue
            for out in results:
                if out[0] in ('normal', 'continue'):
                    stx = out[1]
                    cn = self.ctx(stx, i=i + 1, seq=it, pre_env=pre_env)
                    cn.loop_pre_heap = pre_heap_loop
                    cn.outer = list(st.loop_idx)
                    invs = spec.inv(cn)
                    stx.pc += cn.extra
                    for (label, f) in invs:
                        self.oblige(stx, 'inv-preserved', 'loop%s/%s' % (ordn, label), f, s)
                else:
                    # return / raise inside the loop: carry the accumulated writes outwards
                    out[1].writes |= st.writes
                    outs.append(out)
            break
        # 3. after the loop
        after = hs
        after.writes = st.writes | set(('field', a, f) for (a, f) in havoc_fields) \
            | set(('local', nm) for nm in assigned)
        for nm, ty in list(discovered.items()) + list(spec.decl.items()):
            if nm not in after.env and is_ground(ty):
                after.env[nm] = fresh(ty, nm)
        after.pc.append(n_len >= 0)
        ce = self.ctx(after, i=n_len, seq=it, pre_env=pre_env)
        ce.loop_pre_heap = pre_heap_loop
        ce.outer = list(st.loop_idx)
        for (label, f) in spec.inv(ce):
            after.pc.append(f)
        after.pc += ce.extra
        outs.append(('normal', after))
        return outs

    def havoc(self, st, names, fields, pre_env):
        for nm in names:
            if nm in pre_env:
                v = pre_env[nm]
                if is_ground(v.ty):
                    st.env[nm] = fresh(v.ty, nm)
                    st.pc += wf(st.env[nm])
                    if isinstance(v.ty, IntT):
                        st.fp.landmark(st.env[nm].t)
                elif isinstance(v.ty, (NoneT, StrConstT, FuncT)):
                    # a non-symbolic value reassigned in the loop: cannot be havoc'd faithfully
                    raise Undecided('loop reassigns %r which holds a non-symbolic value' % nm)
                # object references stay (objects are havoc'd field-wise)
            else:
                st.env.pop(nm, None)
        for (a, f) in fields:
            v = st.heap[a][f]
            if is_ground(v.ty):
                st.heap[a][f] = fresh(v.ty, f)
                st.pc += wf(st.heap[a][f])
            else:
                raise Undecided('loop writes non-ground field %s' % f)

    def as_iter(self, st, v, node):
        if isinstance(v, Iter):
            return v
        if isinstance(v.ty, ListT):
            ty, t = v.ty, v.t
            return Iter(L_len(ty, t), lambda i: V(ty.elem, L_get(ty, t, i)), src=v)
        if isinstance(v.ty, (SetT, DictT)):
            return self.enum_keys(st, v)
        if isinstance(v.ty, OptT) and isinstance(v.ty.t, (ListT, SetT, DictT)):
            self.oblige(st, 'safety', 'iterate-over-None', z3.Not(O_is_none(v.ty, v.t)), node)
            return self.as_iter(st, V(v.ty.t, O_val(v.ty, v.t)), node)
        if isinstance(v.ty, NoneT):
            self.oblige(st, 'safety', 'iterate-over-None', z3.BoolVal(False), node)
            return Iter(z3.IntVal(0), lambda i: None)
        raise Undecided('cannot iterate over %r (line %d)' % (v.ty, node.lineno))

    def enum_keys(self, st, v, with_values=False):
        """Arbitrary-order enumeration of a set / dict: every key exactly once."""
        if isinstance(v.ty, DictT):
            kt, dom = v.ty.k, D_dom(v.ty, v.t)
        else:
            kt, dom = v.ty.k, v.t
        lt = ListT(kt)
        order = fresh(lt, 'order')
        n = L_len(lt, order.t)
        pos = z3.Function(fresh_name('pos'), sort_of(kt), z3.IntSort())
        k = z3.Const(fresh_name('k'), sort_of(kt))
        j = z3.Int(fresh_name('j'))
        st.pc.append(n >= 0)
        st.pc.append(z3.ForAll([k], z3.Implies(z3.Select(dom, k),
                                               z3.And(pos(k) >= 0, pos(k) < n,
                                                      L_get(lt, order.t, pos(k)) == k)),
                               patterns=[z3.Select(dom, k)]))
        st.pc.append(z3.ForAll([j], z3.Implies(z3.And(j >= 0, j < n),
                                               z3.And(z3.Select(dom, L_get(lt, order.t, j)),
                                                      pos(L_get(lt, order.t, j)) == j)),
                               patterns=[L_get(lt, order.t, j)]))
        if with_values and isinstance(v.ty, DictT):
            tt = TupleT(kt, v.ty.v)
            dty, dt = v.ty, v.t

            def elem(i):
                key = L_get(lt, order.t, i)
                return V(tt, T_mk(tt, key, D_get(dty, dt, key)))
        else:
            def elem(i):
                return V(kt, L_get(lt, order.t, i))
        it = Iter(n, elem, src=v)
        it.order = order
        it.pos = pos
        return it

    # ------------------------------------------------------------- assignment
    def assign(self, st, tgt, v):
        if isinstance(tgt, ast.Name):
            if isinstance(v, Iter):
                raise Undecided('iterator stored in variable %s' % tgt.id)
            st.env[tgt.id] = v
            st.writes.add(('local', tgt.id))
            return
        if isinstance(tgt, (ast.Tuple, ast.List)):
            parts = self.unpack(st, v, len(tgt.elts), tgt)
            for e, p in zip(tgt.elts, parts):
                self.assign(st, e, p)
            return
        if isinstance(tgt, ast.Attribute):
            obj = self.eval(st, tgt.value)
            if not isinstance(obj.ty, ObjT):
                raise Undecided('attribute store on non-object (line %d)' % tgt.lineno)
            old = st.heap[obj.t].get(tgt.attr)
            declared = getattr(self.case, 'field_types', {}).get(tgt.attr)
            if declared is not None and v.ty != declared:
                v = self.coerce(st, v, declared, tgt, 'field-type-' + tgt.attr)
            elif old is not None and is_ground(old.ty) and old.ty != v.ty:
                v = self.coerce(st, v, old.ty, tgt, 'field-type-' + tgt.attr)
            st.heap[obj.t][tgt.attr] = v
            st.writes.add(('field', obj.t, tgt.attr))
            return
        if isinstance(tgt, ast.Subscript):
            lv = self.lvalue(st, tgt.value)
            cont = self.lv_read(st, lv)
            key = self.eval(st, tgt.slice)
            if isinstance(cont.ty, DictT):
                kk = self.coerce(st, key, cont.ty.k, tgt, 'dict-key-type')
                vv = self.coerce(st, v, cont.ty.v, tgt, 'dict-value-type')
                self.lv_write(st, lv, V(cont.ty, D_set(cont.ty, cont.t, kk.t, vv.t)))
                return
            if isinstance(cont.ty, ListT):
                kk = self.need_int(st, key, tgt, 'list-index-int')
                vv = self.coerce(st, v, cont.ty.elem, tgt, 'list-elem-type')
                n = L_len(cont.ty, cont.t)
                idx = z3.If(kk.t < 0, kk.t + n, kk.t)
                self.oblige(st, 'safety', 'index-in-range', z3.And(idx >= 0, idx < n), tgt)
                self.lv_write(st, lv, V(cont.ty, L_mk(cont.ty, n, z3.Store(L_arr(cont.ty, cont.t), idx, vv.t))))
                return
            raise Undecided('subscript store on %r' % (cont.ty,))
        raise Undecided('assignment target %s' % type(tgt).__name__)

    def unpack(self, st, v, n, node):
        if isinstance(v.ty, TupleT):
            if len(v.ty.elems) != n:
                self.oblige(st, 'safety', 'unpack-arity', z3.BoolVal(False), node)
                raise Undecided('unpack arity mismatch')
            return [V(et, T_get(v.ty, v.t, i)) for i, et in enumerate(v.ty.elems)]
        if isinstance(v.ty, ListT):
            self.oblige(st, 'safety', 'unpack-arity', L_len(v.ty, v.t) == n, node)
            return [V(v.ty.elem, L_get(v.ty, v.t, z3.IntVal(i))) for i in range(n)]
        if hasattr(v, 'parts'):
            return list(v.parts)
        raise Undecided('cannot unpack %r' % (v.ty,))

    # lvalues: ('local', name) | ('field', addr, fname) followed by a path
    def lvalue(self, st, e):
        if isinstance(e, ast.Name):
            if e.id not in st.env:
                raise Undecided('unbound name %s' % e.id)
            return (('local', e.id), [])
        if isinstance(e, ast.Attribute):
            obj = self.eval(st, e.value)
            if isinstance(obj.ty, ObjT):
                if e.attr not in st.heap[obj.t]:
                    raise Undecided('object %s has no field %s' % (obj.ty, e.attr))
                return (('field', obj.t, e.attr), [])
            raise Undecided('attribute of non-object in lvalue')
        if isinstance(e, ast.Subscript):
            root, path = self.lvalue(st, e.value)
            k = self.eval(st, e.slice)
            return (root, path + [('sub', k, e)])
        if isinstance(e, ast.Call) and isinstance(e.func, ast.Attribute) and e.func.attr == 'get' \
                and len(e.args) == 1:
            root, path = self.lvalue(st, e.func.value)
            k = self.eval(st, e.args[0])
            return (root, path + [('sub', k, e)])
        raise Undecided('unsupported mutation target %s (line %d)' % (type(e).__name__, e.lineno))

    def lv_read(self, st, lv):
        root, path = lv
        v = st.env[root[1]] if root[0] == 'local' else st.heap[root[1]][root[2]]
        for (_, k, node) in path:
            v = self.subscript_value(st, v, k, node)
        return v

    def lv_write(self, st, lv, newv):
        root, path = lv

        def rebuild(cur, path, newv):
            if not path:
                return newv
            (_, k, node) = path[0]
            inner = self.subscript_value(st, cur, k, node, check=False)
            upd = rebuild(inner, path[1:], newv)
            if isinstance(cur.ty, DictT):
                kk = self.coerce(st, k, cur.ty.k, node, 'dict-key-type')
                return V(cur.ty, D_set(cur.ty, cur.t, kk.t, upd.t))
            if isinstance(cur.ty, ListT):
                n = L_len(cur.ty, cur.t)
                idx = z3.If(k.t < 0, k.t + n, k.t)
                return V(cur.ty, L_mk(cur.ty, n, z3.Store(L_arr(cur.ty, cur.t), idx, upd.t)))
            raise Undecided('nested update through %r' % (cur.ty,))
        if root[0] == 'local':
            st.env[root[1]] = rebuild(st.env[root[1]], path, newv)
            st.writes.add(('local', root[1]))
        else:
            st.heap[root[1]][root[2]] = rebuild(st.heap[root[1]][root[2]], path, newv)
            st.writes.add(('field', root[1], root[2]))

    # ------------------------------------------------------------ expressions
    def eval(self, st, e):
        m = getattr(self, 'expr_' + type(e).__name__, None)
        if m is None:
            raise Undecided('expression %s at line %d is outside the verified subset'
                            % (type(e).__name__, getattr(e, 'lineno', 0)))
        return m(st, e)

    def expr_Constant(self, st, e):
        c = e.value
        if c is None:
            return vnone()
        if isinstance(c, bool):
            return vbool(c)
        if isinstance(c, int):
            return vint(c)
        if isinstance(c, float):
            return V(FLOAT, FP.const(c))
        if isinstance(c, str):
            return vstr(c)
        raise Undecided('constant %r' % (c,))

    def expr_Name(self, st, e):
        if e.id in st.env:
            return st.env[e.id]
        if e.id in ('True', 'False', 'None'):
            return {'True': vbool(True), 'False': vbool(False), 'None': vnone()}[e.id]
        if e.id == 'object' and 'object' not in self.module.imports:
            from .pandas_model import OBJECT_DTYPE
            return V(VAL, OBJECT_DTYPE)
        g = self.module.global_value(e.id, self)
        if g is not None:
            return g
        raise Undecided('unbound name %r (line %d)' % (e.id, e.lineno))

    def expr_Attribute(self, st, e):
        # module attribute (np.NaN, operator.ge ...)
        q = self.module.qualify(e)
        if q is not None and not (isinstance(e.value, ast.Name) and e.value.id in st.env):
            nat = self.natives.constant(q)
            if nat is not None:
                return nat
            return V(FUNC, q)
        obj = self.eval(st, e.value)
        if isinstance(obj.ty, ObjT):
            fields = st.heap[obj.t]
            if e.attr in fields:
                return fields[e.attr]
            # bound method used as a value
            return V(FUNC, ('bound', obj, e.attr))
        r = self.natives.attribute(self, st, obj, e.attr, e)
        if r is not None:
            return r
        raise Undecided('attribute %s of %r (line %d)' % (e.attr, obj.ty, e.lineno))

    def expr_List(self, st, e):
        vals = [self.eval(st, x) for x in e.elts]
        return self.make_list(st, vals, e)

    def make_list(self, st, vals, node, elem_ty=None):
        if not vals and elem_ty is None:
            # element type unknown yet: polymorphic empty list, fixed on first use
            v = V(ListT(NONE), None)
            return v
        ety = elem_ty or self.join_types([x.ty for x in vals])
        lt = ListT(ety)
        arr = L_arr(lt, L_empty(lt))
        for i, x in enumerate(vals):
            arr = z3.Store(arr, i, self.coerce(st, x, ety, node, 'list-elem-type').t)
        return V(lt, L_mk(lt, z3.IntVal(len(vals)), arr))

    def join_types(self, tys):
        t0 = tys[0]
        for t in tys[1:]:
            if t == t0:
                continue
            if isinstance(t0, StrConstT) and isinstance(t, (StrConstT, ValT)):
                t0 = VAL
            elif isinstance(t0, ValT) and isinstance(t, StrConstT):
                pass
            elif isinstance(t0, IntT) and isinstance(t, FloatT):
                t0 = FLOAT
            elif isinstance(t0, FloatT) and isinstance(t, IntT):
                pass
            else:
                raise Undecided('heterogeneous container %r vs %r' % (t0, t))
        if isinstance(t0, StrConstT):
            t0 = VAL
        return t0

    def expr_Tuple(self, st, e):
        vals = [self.eval(st, x) for x in e.elts]
        return self.make_tuple(st, vals)

    def make_tuple(self, st, vals):
        vals = [to_val(x) if isinstance(x.ty, StrConstT) else x for x in vals]
        if all(is_ground(x.ty) for x in vals):
            tt = TupleT(*[x.ty for x in vals])
            return V(tt, T_mk(tt, *[x.t for x in vals]))
        v = V(TupleT(), None)
        pv = PyTuple(vals)
        return pv

    def expr_Dict(self, st, e):
        if not e.keys:
            return V(DictT(NONE, NONE), None)
        ks = [self.eval(st, k) for k in e.keys]
        vs = [self.eval(st, x) for x in e.values]
        if all(isinstance(k.ty, StrConstT) for k in ks):
            return PyDict(dict((k.t, v) for k, v in zip(ks, vs)))
        raise Undecided('dict literal with symbolic keys')

    def expr_IfExp(self, st, e):
        c = z3.simplify(self.truth(st, self.eval(st, e.test)))
        if _const_true(c):
            return self.eval(st, e.body)
        if _const_false(c):
            return self.eval(st, e.orelse)
        st.guards.append(c)
        a = self.eval(st, e.body)
        st.guards.pop()
        st.guards.append(z3.Not(c))
        b = self.eval(st, e.orelse)
        st.guards.pop()
        ty = self.join_types([a.ty, b.ty])
        a = self.coerce(st, a, ty, e, 'ifexp-type')
        b = self.coerce(st, b, ty, e, 'ifexp-type')
        return V(ty, z3.If(c, a.t, b.t))

    def expr_BoolOp(self, st, e):
        acc = None
        pushed = 0
        for x in e.values:
            v = self.eval(st, x)
            b = self.truth(st, v)
            if isinstance(e.op, ast.And):
                acc = b if acc is None else z3.And(acc, b)
                st.guards.append(b)
            else:
                acc = b if acc is None else z3.Or(acc, b)
                st.guards.append(z3.Not(b))
            pushed += 1
        for _ in range(pushed):
            st.guards.pop()
        return vbool(z3.simplify(acc))

    def expr_UnaryOp(self, st, e):
        v = self.eval(st, e.operand)
        if isinstance(e.op, ast.Not):
            return vbool(z3.Not(self.truth(st, v)))
        if isinstance(e.op, ast.USub):
            if isinstance(v.ty, IntT):
                return V(INT, -v.t)
            if isinstance(v.ty, FloatT):
                return V(FLOAT, -v.t)
        if isinstance(e.op, ast.UAdd) and isinstance(v.ty, (IntT, FloatT)):
            return v
        raise Undecided('unary op on %r' % (v.ty,))

    def truth(self, st, v):
        ty = v.ty
        if isinstance(v, PyTuple):
            return z3.BoolVal(len(v.parts) > 0)
        if isinstance(ty, BoolT):
            return v.t
        if isinstance(ty, IntT):
            return v.t != 0
        if isinstance(ty, FloatT):
            return v.t != 0
        if isinstance(ty, NoneT):
            return z3.BoolVal(False)
        if isinstance(ty, StrConstT):
            return z3.BoolVal(len(v.t) > 0)
        if isinstance(ty, ListT):
            if v.t is None:
                return z3.BoolVal(False)
            return L_len(ty, v.t) > 0
        if isinstance(ty, OptT):
            inner = V(ty.t, O_val(ty, v.t))
            return z3.And(z3.Not(O_is_none(ty, v.t)), self.truth(st, inner))
        if isinstance(ty, DictT):
            if v.t is None:
                return z3.BoolVal(False)
            return D_dom(ty, v.t) != z3.K(sort_of(ty.k), z3.BoolVal(False))
        if isinstance(ty, SetT):
            return v.t != z3.K(sort_of(ty.k), z3.BoolVal(False))
        if isinstance(ty, ValT):
            return self.natives.val_truth(v.t)
        if isinstance(ty, (ObjT, FuncT)):
            return z3.BoolVal(True)
        raise Undecided('truth value of %r' % (ty,))

    # numeric helpers ---------------------------------------------------------
    def need_int(self, st, v, node, label):
        """Python requires an int here (slice bound, range arg, list index)."""
        if isinstance(v.ty, IntT):
            return v
        if isinstance(v.ty, BoolT):
            return V(INT, z3.If(v.t, 1, 0))
        self.oblige(st, 'safety', label + '-got-' + type(v.ty).__name__, z3.BoolVal(False), node)
        if isinstance(v.ty, FloatT):
            return V(INT, z3.ToInt(v.t))
        raise Undecided('int required, got %r (line %d)' % (v.ty, getattr(node, 'lineno', 0)))

    def to_float(self, st, v, node):
        if isinstance(v.ty, FloatT):
            return v
        if isinstance(v.ty, IntT):
            r, obs = st.fp.i2f(v.t)
            for (lab, f) in obs:
                self.oblige(st, 'safety', lab, f, node)
            return V(FLOAT, r)
        if isinstance(v.ty, BoolT):
            return V(FLOAT, z3.If(v.t, z3.RealVal(1), z3.RealVal(0)))
        raise Undecided('number required, got %r (line %d)' % (v.ty, getattr(node, 'lineno', 0)))

    def fpop(self, st, node, opname, *args):
        r, obs = getattr(st.fp, opname)(*args)
        if opname in ('mul', 'div', 'sqrt'):
            for f in self.auto_instances(opname, *args, log=st.fp):
                st.pc.append(f)
        for (lab, f) in obs:
            self.oblige(st, 'safety', lab, f, node)
        return r

    def auto_instances(self, opname, *args, **kw):
        """Magnitude/sign lemma instances added for every product, quotient and square root, so
        that no-overflow obligations and the |e| <= 2^33 side condition of the absolute-error
        fact are within reach of linear reasoning.  All are instances of proved lemmas."""
        from .lemmas import inst
        from fractions import Fraction
        rv = lambda x: z3.RealVal(Fraction(x))
        log = kw.get('log')
        out = []
        if opname == 'mul':
            a, b = args
            if FP.is_num(z3.simplify(a)) or FP.is_num(z3.simplify(b)):
                return out
            out.append(inst('mul_nonneg', a, b))
            for ca in (1, 4, 2 ** 31, 2 ** 33):
                for cb in (1, 4, 2 ** 31, 2 ** 33):
                    out.append(inst('mul_abs', a, b, rv(ca), rv(cb)))
            out.append(inst('mul_abs', a, b, rv(2 ** 404), rv(2 ** 31)))
            out.append(inst('mul_lower', a, b, rv(Fraction(1, 2 ** 400)), rv(Fraction(1, 2 ** 400))))
        elif opname == 'div':
            a, b = args
            if FP.is_num(z3.simplify(b)):
                return out
            q = log.last_op.e
            for cd in (Fraction(1, 2), Fraction(1, 2 ** 33)):
                for ca in (4, 2 ** 33):
                    out.append(inst('quot_abs', q, b, a, rv(cd), rv(ca)))
            # divisors bounded away from zero by the threshold-not-extreme precondition (finding D8)
            out.append(inst('quot_abs', q, b, a, rv(Fraction(1, 2 ** 400)), rv(2 ** 31)))
            out.append(inst('quot_abs', q, b, a, rv(Fraction(1, 2 ** 400)), rv(4)))
            out.append(inst('quot_abs', q, b, a, rv(Fraction(1, 2 ** 801)), rv(2 ** 31)))
        elif opname == 'sqrt':
            (a,) = args
            s_ = log.last_op.e
            for c in (2 ** 17, 2 ** 32, 2 ** 34):
                out.append(inst('sqrt_upper', s_, a, rv(c)))
        return out

    def expr_BinOp(self, st, e):
        a = self.eval(st, e.left)
        b = self.eval(st, e.right)
        return self.binop(st, e.op, a, b, e)

    def binop(self, st, op, a, b, node):
        # string concatenation
        if isinstance(op, ast.Add) and isinstance(a.ty, (StrConstT, ValT)) and isinstance(b.ty, (StrConstT, ValT)):
            if isinstance(a.ty, StrConstT) and isinstance(b.ty, StrConstT):
                return vstr(a.t + b.t)
            return V(VAL, self.natives.concat(to_val(a).t, to_val(b).t))
        if isinstance(op, ast.Add) and isinstance(a.ty, ListT) and isinstance(b.ty, ListT):
            return self.natives.list_concat(self, st, a, b, node)
        if isinstance(a.ty, BoolT):
            a = V(INT, z3.If(a.t, 1, 0))
        if isinstance(b.ty, BoolT):
            b = V(INT, z3.If(b.t, 1, 0))
        if isinstance(a.ty, IntT) and isinstance(b.ty, IntT):
            if isinstance(op, ast.Add):
                return V(INT, a.t + b.t)
            if isinstance(op, ast.Sub):
                return V(INT, a.t - b.t)
            if isinstance(op, ast.Mult):
                if FP.is_num(z3.simplify(a.t)) or FP.is_num(z3.simplify(b.t)):
                    return V(INT, a.t * b.t)
                r = FP.int_mul(a.t, b.t)
                em = FP.exact_mul(z3.ToReal(a.t), z3.ToReal(b.t))
                st.pc.append(z3.ToReal(r) == em)
                st.fp.ops.append(FP.Op(z3.ToReal(r), z3.ToReal(r), 'imul', [z3.ToReal(a.t), z3.ToReal(b.t)]))
                st.fp.landmark(r)
                for f in self.auto_instances('mul', z3.ToReal(a.t), z3.ToReal(b.t)):
                    st.pc.append(f)
                return V(INT, r)
            if isinstance(op, ast.FloorDiv):
                self.oblige(st, 'safety', 'division-by-zero', b.t != 0, node)
                # Python floor division; z3 div is euclidean: equal for positive divisor
                q = z3.Int(fresh_name('fdiv'))
                st.pc.append(z3.Implies(b.t > 0, z3.And(q * b.t <= a.t, a.t < q * b.t + b.t))
                             if FP.is_num(z3.simplify(b.t)) else z3.BoolVal(True))
                if not FP.is_num(z3.simplify(b.t)):
                    raise Undecided('// by a symbolic divisor')
                st.pc.append(z3.Implies(b.t < 0, z3.And(q * b.t >= a.t, a.t > q * b.t + b.t)))
                return V(INT, q)
            if isinstance(op, ast.Mod):
                if not FP.is_num(z3.simplify(b.t)):
                    raise Undecided('% by a symbolic divisor')
                self.oblige(st, 'safety', 'division-by-zero', b.t != 0, node)
                return V(INT, a.t % b.t)
            if isinstance(op, ast.Div):
                fa, fb = self.to_float(st, a, node), self.to_float(st, b, node)
                return V(FLOAT, self.fpop(st, node, 'div', fa.t, fb.t))
            raise Undecided('int operator %s' % type(op).__name__)
        if isinstance(a.ty, (IntT, FloatT)) and isinstance(b.ty, (IntT, FloatT)):
            fa, fb = self.to_float(st, a, node), self.to_float(st, b, node)
            name = {ast.Add: 'add', ast.Sub: 'sub', ast.Mult: 'mul', ast.Div: 'div'}.get(type(op))
            if name is None:
                raise Undecided('float operator %s' % type(op).__name__)
            return V(FLOAT, self.fpop(st, node, name, fa.t, fb.t))
        raise Undecided('operator %s on %r, %r (line %d)' % (type(op).__name__, a.ty, b.ty,
                                                            getattr(node, 'lineno', 0)))

    def expr_Compare(self, st, e):
        left = self.eval(st, e.left)
        acc = None
        pushed = 0
        for op, rx in zip(e.ops, e.comparators):
            right = self.eval(st, rx)
            b = self.compare(st, op, left, right, e)
            acc = b if acc is None else z3.And(acc, b)
            st.guards.append(b)
            pushed += 1
            left = right
        for _ in range(pushed):
            st.guards.pop()
        return vbool(z3.simplify(acc))

    def num_term(self, v):
        if isinstance(v.ty, IntT):
            return z3.ToReal(v.t)
        if isinstance(v.ty, FloatT):
            return v.t
        if isinstance(v.ty, BoolT):
            return z3.If(v.t, z3.RealVal(1), z3.RealVal(0))
        return None

    def compare(self, st, op, a, b, node):
        if isinstance(op, (ast.Is, ast.IsNot)):
            r = self.is_none_test(st, a, b, node)
            return z3.Not(r) if isinstance(op, ast.IsNot) else r
        if isinstance(op, (ast.In, ast.NotIn)):
            r = self.natives.contains(self, st, b, a, node)
            return z3.Not(r) if isinstance(op, ast.NotIn) else r
        if isinstance(op, (ast.Eq, ast.NotEq)):
            r = self.equal(st, a, b, node)
            return z3.Not(r) if isinstance(op, ast.NotEq) else r
        # ordering
        if isinstance(a.ty, IntT) and isinstance(b.ty, IntT):
            x, y = a.t, b.t
        else:
            x, y = self.num_term(a), self.num_term(b)
        if x is None or y is None:
            if isinstance(a.ty, (ValT, StrConstT)) and isinstance(b.ty, (ValT, StrConstT)):
                lt = self.natives.val_lt
                x, y = to_val(a).t, to_val(b).t
                if isinstance(op, ast.Lt):
                    return lt(x, y)
                if isinstance(op, ast.Gt):
                    return lt(y, x)
                if isinstance(op, ast.LtE):
                    return z3.Not(lt(y, x))
                if isinstance(op, ast.GtE):
                    return z3.Not(lt(x, y))
            raise Undecided('ordering comparison on %r, %r (line %d)' % (a.ty, b.ty, node.lineno))
        if isinstance(op, ast.Lt):
            return x < y
        if isinstance(op, ast.LtE):
            return x <= y
        if isinstance(op, ast.Gt):
            return x > y
        if isinstance(op, ast.GtE):
            return x >= y
        raise Undecided('comparison operator')

    def is_none_test(self, st, a, b, node):
        if isinstance(b.ty, NoneT):
            x = a
        elif isinstance(a.ty, NoneT):
            x = b
        else:
            raise Undecided('`is` on non-None operands (line %d)' % node.lineno)
        if isinstance(x.ty, NoneT):
            return z3.BoolVal(True)
        if isinstance(x.ty, OptT):
            return O_is_none(x.ty, x.t)
        return z3.BoolVal(False)

    def equal(self, st, a, b, node):
        if isinstance(a.ty, NoneT) or isinstance(b.ty, NoneT):
            return self.is_none_test(st, a, b, node)
        if isinstance(a.ty, StrConstT) and isinstance(b.ty, StrConstT):
            return z3.BoolVal(a.t == b.t)
        if isinstance(a.ty, (StrConstT, ValT)) and isinstance(b.ty, (StrConstT, ValT)):
            return to_val(a).t == to_val(b).t
        if isinstance(a.ty, OptT) and not isinstance(b.ty, OptT):
            return z3.And(z3.Not(O_is_none(a.ty, a.t)),
                          self.equal(st, V(a.ty.t, O_val(a.ty, a.t)), b, node))
        if isinstance(b.ty, OptT) and not isinstance(a.ty, OptT):
            return self.equal(st, b, a, node)
        x, y = self.num_term(a), self.num_term(b)
        if x is not None and y is not None:
            if isinstance(a.ty, IntT) and isinstance(b.ty, IntT):
                return a.t == b.t
            return x == y
        if a.ty == b.ty and is_ground(a.ty) and isinstance(a.ty, (TupleT,)):
            return a.t == b.t
        if isinstance(a.ty, FuncT) or isinstance(b.ty, FuncT):
            raise Undecided('comparison of functions')
        # values of different kinds are never equal in Python (str vs number ...)
        if type(a.ty) is not type(b.ty) and not isinstance(a.ty, (ListT, DictT, SetT)) \
                and not isinstance(b.ty, (ListT, DictT, SetT)):
            return z3.BoolVal(False)
        raise Undecided('== on %r, %r (line %d)' % (a.ty, b.ty, node.lineno))

    def coerce(self, st, v, ty, node, label):
        """View v at type ty (numeric widening, str const -> Val, T -> Opt[T], empty containers)."""
        if v.ty == ty:
            return v
        if isinstance(ty, ValT) and isinstance(v.ty, StrConstT):
            return to_val(v)
        if isinstance(ty, ValT) and isinstance(v.ty, (FloatT, IntT)):
            # a number stored in a cell
            from . import spec as S_
            if isinstance(v.ty, IntT):
                from .pandas_model import val_of_int
                return V(VAL, val_of_int(v.t))
            return V(VAL, S_.val_of_float(v.t))
        if isinstance(ty, FloatT) and isinstance(v.ty, (IntT, BoolT)):
            return self.to_float(st, v, node)
        if isinstance(ty, IntT) and isinstance(v.ty, BoolT):
            return V(INT, z3.If(v.t, 1, 0))
        if isinstance(ty, OptT):
            if isinstance(v.ty, NoneT):
                return V(ty, O_none(ty))
            inner = self.coerce(st, v, ty.t, node, label)
            return V(ty, O_some(ty, inner.t))
        if isinstance(ty, ListT) and isinstance(v.ty, ListT) and v.t is None:
            return V(ty, L_empty(ty))
        if isinstance(ty, DictT) and isinstance(v.ty, DictT) and v.t is None:
            return V(ty, D_empty(ty))
        if isinstance(ty, SetT) and isinstance(v.ty, SetT) and v.t is None:
            return V(ty, S_empty(ty))
        raise Undecided('%s: cannot use %r where %r is expected (line %d)'
                        % (label, v.ty, ty, getattr(node, 'lineno', 0)))

    # ------------------------------------------------------------- subscripts
    def expr_Subscript(self, st, e):
        base = self.eval(st, e.value)
        if isinstance(e.slice, ast.Slice):
            lo = self.eval(st, e.slice.lower) if e.slice.lower is not None else None
            hi = self.eval(st, e.slice.upper) if e.slice.upper is not None else None
            if e.slice.step is not None:
                raise Undecided('slice step')
            return self.natives.slice(self, st, base, lo, hi, e)
        k = self.eval(st, e.slice)
        return self.subscript_value(st, base, k, e)

    def subscript_value(self, st, base, k, node, check=True):
        if isinstance(base, PyDict):
            if isinstance(k.ty, StrConstT):
                if k.t not in base.d:
                    self.oblige(st, 'safety', 'key-present', z3.BoolVal(False), node)
                    raise Undecided('constant dict has no key %r' % k.t)
                return base.d[k.t]
            raise Undecided('constant dict indexed by a symbolic key (line %d)' % node.lineno)
        if isinstance(base, PyTuple):
            kk = z3.simplify(k.t)
            if z3.is_int_value(kk):
                return base.parts[kk.as_long()]
            raise Undecided('python tuple indexed symbolically')
        ty = base.ty
        if isinstance(ty, ListT):
            if base.t is None:
                self.oblige(st, 'safety', 'index-in-range', z3.BoolVal(False), node)
                raise Undecided('indexing an empty list literal')
            kk = self.need_int(st, k, node, 'list-index-int')
            n = L_len(ty, base.t)
            ks = z3.simplify(kk.t)
            if z3.is_int_value(ks) and ks.as_long() < 0:
                idx = n + ks.as_long()          # literal negative index: from the end
            else:
                # symbolic indices must be non-negative (no wrap-around modelling: an `If` inside
                # the element term would poison quantifier patterns); a possibly negative index
                # fails the in-range obligation
                idx = kk.t
            if check:
                self.oblige(st, 'safety', 'index-in-range', z3.And(idx >= 0, idx < n), node)
            return V(ty.elem, L_get(ty, base.t, idx))
        if isinstance(ty, TupleT):
            kk = z3.simplify(k.t)
            if z3.is_int_value(kk):
                i = kk.as_long()
                if i < 0:
                    i += len(ty.elems)
                if not (0 <= i < len(ty.elems)):
                    self.oblige(st, 'safety', 'index-in-range', z3.BoolVal(False), node)
                    raise Undecided('tuple index out of range')
                return V(ty.elems[i], T_get(ty, base.t, i))
            raise Undecided('tuple indexed symbolically (line %d)' % node.lineno)
        if isinstance(ty, DictT):
            if base.t is None:
                self.oblige(st, 'safety', 'key-present', z3.BoolVal(False), node)
                raise Undecided('indexing an empty dict literal')
            kk = self.coerce(st, k, ty.k, node, 'dict-key-type')
            if check:
                self.oblige(st, 'safety', 'key-present', D_has(ty, base.t, kk.t), node)
            return V(ty.v, D_get(ty, base.t, kk.t))
        r = self.natives.subscript(self, st, base, k, node)
        if r is not None:
            return r
        raise Undecided('subscript on %r (line %d)' % (ty, node.lineno))

    # ------------------------------------------------------------------ calls
    def expr_Call(self, st, e):
        r = self.natives.call(self, st, e)
        if self.hook_nodes:
            self.run_hooks(st, e, r)
        return r

    def expr_Lambda(self, st, e):
        return V(FUNC, ('lambda', e))

    def expr_GeneratorExp(self, st, e):
        return V(FUNC, ('genexp', e))

    def expr_ListComp(self, st, e):
        return self.natives.listcomp(self, st, e)

    def expr_JoinedStr(self, st, e):
        return V(VAL, z3.Const(fresh_name('fstr'), ValSort))

    # apply a contract at a call site ----------------------------------------
    def apply_contract(self, st, qualname, args, node, self_obj=None):
        """args: dict param name -> V.  Returns result V."""
        contract = REGISTRY.get(qualname)
        if contract is None:
            raise Undecided('no contract for callee %s (line %d)' % (qualname, node.lineno))
        chosen = None
        for case in contract.cases:
            ok = self.match_case(st, case, args)
            if ok:
                chosen = case
                break
        if chosen is None:
            raise Undecided('no case of contract %s matches the call at line %d (args: %s)'
                            % (qualname, node.lineno,
                               ', '.join('%s:%r' % (k, v.ty) for k, v in args.items())))
        case = chosen
        if case.status != 'verified':
            self.assumed_log.append('%s {%s} [%s]' % (qualname, case.name, case.status))
        # bind: fill defaults, coerce to declared types
        bound = {}
        for pname, spec in case.params.items():
            if pname in args:
                bound[pname] = self.name_value(st, self.fit_arg(st, args[pname], spec, node, pname), 'arg_' + pname,
                                               scalars=True, keep_literals=True)
            elif pname in case.defaults:
                bound[pname] = case.defaults[pname]
            else:
                raise Undecided('call of %s at line %d omits argument %s' % (qualname, node.lineno, pname))
        pre_heap = {a: dict(f) for a, f in st.heap.items()}
        c = Ctx(self, bound, pre_heap, st.heap, case=case)
        c.fp = st.fp
        c.aux = st.aux
        # (the callee's `setup` facts -- definitions of spec functions it needs for its own proof --
        # are not imported: its ensures are what the caller sees)
        for (label, f) in case.requires(c):
            self.oblige(st, 'call-pre', '%s/%s@L%d' % (qualname.split('.')[-1], label, node.lineno), f, node)
        for x in c.extra:
            st.assume(x)
        # frame
        for m in case.modifies:
            newty = None
            if isinstance(m, tuple):
                m, newty = m
            parts = m.split('.')
            obj = bound[parts[0]]
            for fld in parts[1:-1]:
                obj = st.heap[obj.t][fld]
            fname = parts[-1]
            old = st.heap[obj.t].get(fname)
            ty = newty or (old.ty if old is not None else None)
            if ty is None or not is_ground(ty):
                raise Undecided('modifies clause names non-ground field %s' % m)
            st.heap[obj.t][fname] = fresh(ty, fname)
            for f in wf(st.heap[obj.t][fname]):
                st.assume(f)
            st.writes.add(('field', obj.t, fname))
        # exceptional exits
        conds = case.raises(c)
        for exc, cond in conds.items():
            cond = z3.simplify(cond)
            if _const_false(cond):
                continue
            rst = st.fork()
            rst.heap = {a: dict(f) for a, f in pre_heap.items()}   # exceptional exit: empty frame
            rst.pc.append(z3.And(*(rst.guards + [cond])) if rst.guards else cond)
            if self.feasible(rst):
                self._raised.append((rst, exc, node))
        nontrivial = False
        for exc, cond in conds.items():
            st.assume(z3.Not(cond))
            nontrivial = nontrivial or not z3.is_false(z3.simplify(cond))
        if nontrivial and not st.dead and not st.guards and not self.feasible(st):
            st.dead = True            # the callee always raises here
        # result
        rt = case.returns
        if rt is None or isinstance(rt, NoneT):
            res = vnone()
        elif isinstance(rt, ObjSpec):
            res = self.bind_param(st, 'ret_' + qualname.split('.')[-1], rt)
            st.fresh_objs.add(res.t)
        elif callable(rt) and not isinstance(rt, T):
            res = rt(self, st, c)
        else:
            res = fresh(rt, 'ret_' + qualname.split('.')[-1])
            if isinstance(rt, IntT):
                st.fp.landmark(res.t)
            for f in wf(res):
                st.assume(f)
        c2 = Ctx(self, bound, pre_heap, st.heap, case=case)
        c2.fp = st.fp
        c2.aux = st.aux
        view = getattr(self.case, 'callee_views', {}).get(qualname)
        for (label, f) in case.ensures(c2, res):
            if view is not None and not any(label.startswith(p) for p in view):
                continue           # the caller uses only part of the callee's postcondition (sound: fewer facts)
            st.assume(f)
        for x in c2.extra:
            st.assume(x)
        gouts = dict((k[len('_ghost_out_'):], v) for k, v in vars(c2).items() if k.startswith('_ghost_out_'))
        st.aux['last_call'] = dict(qualname=qualname, case=case.name, args=bound, result=res, ghost_outs=gouts)
        byname = dict(st.aux.get('ghost_outs_by_name', {}))
        byname.update(gouts)
        st.aux['ghost_outs_by_name'] = byname
        return res

    def match_case(self, st, case, args):
        for pname, spec in case.params.items():
            if pname not in args:
                if pname in case.defaults:
                    continue
                return False
            a = args[pname]
            if isinstance(spec, V):
                if isinstance(spec.ty, StrConstT):
                    if not (isinstance(a.ty, StrConstT) and a.t == spec.t):
                        return False
                elif isinstance(spec.ty, NoneT):
                    if not isinstance(a.ty, NoneT):
                        return False
                elif isinstance(spec.ty, BoolT) and z3.is_bool(spec.t) and (z3.is_true(spec.t) or z3.is_false(spec.t)):
                    if not (isinstance(a.ty, BoolT) and z3.simplify(a.t).eq(spec.t)):
                        return False
                elif isinstance(spec.ty, FuncT):
                    if not (isinstance(a.ty, FuncT) and a.t == spec.t):
                        return False
                continue
            if isinstance(spec, ObjSpec):
                if not (isinstance(a.ty, ObjT) and a.ty.cls == spec.cls):
                    return False
                # concrete fields must agree
                for fname, fspec in spec.fields.items():
                    if isinstance(fspec, V) and isinstance(fspec.ty, StrConstT):
                        cur = st.heap[a.t].get(fname)
                        if cur is None or not (isinstance(cur.ty, StrConstT) and cur.t == fspec.t):
                            return False
                    if isinstance(fspec, AnyT):
                        continue
                    if isinstance(fspec, T) and fname in st.heap[a.t]:
                        cur = st.heap[a.t][fname]
                        if not self.type_fits(cur, fspec):
                            return False
                    if isinstance(fspec, ObjSpec):
                        cur = st.heap[a.t].get(fname)
                        if cur is None or not isinstance(cur.ty, ObjT) or cur.ty.cls != fspec.cls:
                            return False
                continue
            if isinstance(spec, T):
                if not self.type_fits(a, spec):
                    return False
        for pname in args:
            if pname not in case.params:
                return False
        c = Ctx(self, args, st.heap, st.heap, case=case)
        return case.applies(c)

    def type_fits(self, a, spec):
        if a.ty == spec:
            return True
        if isinstance(a, (PyTuple, PyDict)):
            return False
        if isinstance(spec, ValT) and isinstance(a.ty, StrConstT):
            return True
        if isinstance(spec, FloatT) and isinstance(a.ty, IntT):
            return False            # int vs float matter (int tags): separate cases
        if isinstance(spec, OptT):
            return isinstance(a.ty, NoneT) or self.type_fits(a, spec.t)
        if isinstance(spec, (ListT, DictT, SetT)) and type(a.ty) is type(spec) and a.t is None:
            return True
        return False

    def fit_arg(self, st, a, spec, node, pname):
        if isinstance(spec, V) or isinstance(spec, ObjSpec):
            return a
        return self.coerce(st, a, spec, node, 'arg-' + pname)


class PyTuple(V):
    """A Python-level tuple whose components are not all ground (holds objects)."""

    def __init__(self, parts):
        V.__init__(self, TupleT(), None)
        self.parts = list(parts)


class PyDict(V):
    """A Python-level dict literal with constant string keys (cached_data, COMP_OP_MAP)."""

    def __init__(self, d):
        V.__init__(self, DictT(STR, NONE), None)
        self.d = d
