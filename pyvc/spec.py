"""Specification vocabulary shared by the sidecar contracts (DESIGN.md 2.4).

Spec functions are uninterpreted symbols; their meaning is fixed by the float
model facts attached when a contract is *proved* and by the assumed contracts of
py_stringmatching (externals).  All are deterministic functions of their
arguments, which is what makes `result == plen_M(n, t)` a sound call-site fact.
"""
import z3
from . import fp as FP
from .values import fresh_name

I = z3.IntSort()
Rl = z3.RealSort()
B = z3.BoolSort()

MAXTOK = 2 ** 31          # domain bound on token counts (DESIGN 2.3); not a search bound

SET_MEASURES = ('JACCARD', 'COSINE', 'DICE')

# similarity value py_stringmatching computes from (overlap, |left|, |right|)
simval = dict((M, z3.Function('simval_' + M, I, I, I, Rl))
              for M in ('JACCARD', 'COSINE', 'DICE', 'OVERLAP_COEFFICIENT'))
r4 = FP.fl_round(4)                              # round(x, 4) as a function of the double x

# values computed by filter_utils, as functions of their arguments
plen = dict((M, z3.Function('plen_' + M, I, Rl, I)) for M in SET_MEASURES)
lbnd = dict((M, z3.Function('lb_' + M, I, Rl, I)) for M in SET_MEASURES)
ubnd = dict((M, z3.Function('ub_' + M, I, Rl, I)) for M in SET_MEASURES)
othr = dict((M, z3.Function('othr_' + M, I, I, Rl, I)) for M in SET_MEASURES)


class SpecFP(object):
    """Float operations on the specification side: same model, no obligations."""

    def __init__(self, log):
        self.log = log

    def __getattr__(self, name):
        op = getattr(self.log, name)

        def f(*a):
            r, _ = op(*a)
            return r
        return f


def sim_model(log, M, o, n, m):
    """Attach float-model facts defining simval_M(o, n, m) for o >= 1 (so neither set is
    empty); returns (simval_M(o, n, m), terms) where terms names the intermediate values.

    py_stringmatching: 1.0 if the two sets are equal (o == n == m), else
      JACCARD  float(o) / float(n + m - o)
      COSINE   float(o) / (sqrt(float(n)) * sqrt(float(m)))
      DICE     2.0 * float(o) / float(n + m)
      OVERLAP_COEFFICIENT  float(o) / min(n, m)
    Token counts are at most 2^31, so every conversion is exact and no intermediate result
    is subnormal (assume_normal).
    """
    f = SpecFP(log)
    log.assume_normal = True
    ro, rn, rm = z3.ToReal(o), z3.ToReal(n), z3.ToReal(m)
    tm = {}
    if M == 'JACCARD':
        v = f.div(ro, z3.ToReal(n + m - o))
        tm['qs'] = log.last_op.e
    elif M == 'COSINE':
        sa = f.sqrt(rn)
        tm['Sa'], tm['sa'] = log.last_op.e, sa
        sb = f.sqrt(rm)
        tm['Sb'], tm['sb'] = log.last_op.e, sb
        d = f.mul(sa, sb)
        tm['d'] = d
        v = f.div(ro, d)
        tm['qs'] = log.last_op.e
    elif M == 'DICE':
        v = f.div(2 * ro, z3.ToReal(n + m))        # 2.0 * float(o) is exact
        tm['qs'] = log.last_op.e
    elif M == 'OVERLAP_COEFFICIENT':
        v = f.div(ro, z3.ToReal(z3.If(n <= m, n, m)))
        tm['qs'] = log.last_op.e
    else:
        raise ValueError(M)
    log.assume_normal = False
    tm['v'] = v
    s = simval[M](o, n, m)
    log.facts.append(s == z3.If(z3.And(o == n, o == m), z3.RealVal(1), v))
    return s, tm


def round4_model(log, x):
    """Facts for r4(x) = round(x, 4)."""
    f = SpecFP(log)
    f.round_nd(x, 4)          # records  r == fl_round4(x)  and the rounding facts
    return r4(x)


def required_sizes(log, M, o, n, m, t):
    """C01's `satisfies` on sizes, for comp_op '>=' (the other operators imply it):
    both sets non-empty with overlap o, raw and 4-decimal-rounded similarity >= t."""
    s, tm = sim_model(log, M, o, n, m)
    s4 = round4_model(log, s)
    return z3.And(o >= 1, o <= n, o <= m, n <= MAXTOK, m <= MAXTOK, s >= t, s4 >= t), s, tm


cpu_count = z3.Int('cpu_count')        # multiprocessing.cpu_count(), assumed >= 1


def in_list(lv, x, upto=None):
    """x occurs in the first `upto` elements of list value lv (a V)."""
    from .values import L_has
    return L_has(lv.ty, lv.t, x, upto)


def concat(a, b):
    """string concatenation on Val (the same symbol the executor uses for `+`)."""
    from .natives import val_concat
    return val_concat(a, b)


# split_table: boundary j of the split of L rows into k chunks, int(round(j * split_size))
split_bnd = z3.Function('split_bnd', I, I, I, I)


def split_bnd_model(log, j, ss):
    """Float-model facts for int(round(j * ss)); returns (boundary term, exact product, rounded product)."""
    f = SpecFP(log)
    fj = f.i2f(j)
    p = f.mul(fj, ss)
    P = log.last_op.e
    b = f.round0(p)
    return b, P, p, fj
