"""Specification vocabulary shared by the sidecar contracts (DESIGN.md 2.4).

Spec functions are uninterpreted symbols; their meaning is fixed by the float
model facts attached when a contract is *proved* and by the assumed contracts of
py_stringmatching (externals).  All are deterministic functions of their
arguments, which is what makes `result == plen_M(n, t)` a sound call-site fact.
"""
import z3
from . import fp as FP
from .values import fresh_name

I = z3.IntSort()
Rl = z3.RealSort()
B = z3.BoolSort()

MAXTOK = 2 ** 31          # domain bound on token counts (DESIGN 2.3); not a search bound

SET_MEASURES = ('JACCARD', 'COSINE', 'DICE')

# similarity value py_stringmatching computes from (overlap, |left|, |right|)
simval = dict((M, z3.Function('simval_' + M, I, I, I, Rl))
              for M in ('JACCARD', 'COSINE', 'DICE', 'OVERLAP_COEFFICIENT'))
r4 = FP.fl_round(4)                              # round(x, 4) as a function of the double x

# values computed by filter_utils, as functions of their arguments
plen = dict((M, z3.Function('plen_' + M, I, Rl, I)) for M in SET_MEASURES)
lbnd = dict((M, z3.Function('lb_' + M, I, Rl, I)) for M in SET_MEASURES)
ubnd = dict((M, z3.Function('ub_' + M, I, Rl, I)) for M in SET_MEASURES)
othr = dict((M, z3.Function('othr_' + M, I, I, Rl, I)) for M in SET_MEASURES)


class SpecFP(object):
    """Float operations on the specification side: same model, no obligations."""

    def __init__(self, log):
        self.log = log

    def __getattr__(self, name):
        op = getattr(self.log, name)

        def f(*a):
            r, _ = op(*a)
            return r
        return f


def sim_model(log, M, o, n, m):
    """Attach float-model facts defining simval_M(o, n, m) for o >= 1 (so neither set is
    empty); returns (simval_M(o, n, m), terms) where terms names the intermediate values.

    py_stringmatching: 1.0 if the two sets are equal (o == n == m), else
      JACCARD  float(o) / float(n + m - o)
      COSINE   float(o) / (sqrt(float(n)) * sqrt(float(m)))
      DICE     2.0 * float(o) / float(n + m)
      OVERLAP_COEFFICIENT  float(o) / min(n, m)
    Token counts are at most 2^31, so every conversion is exact and no intermediate result
    is subnormal (assume_normal).
    """
    f = SpecFP(log)
    log.assume_normal = True
    ro, rn, rm = z3.ToReal(o), z3.ToReal(n), z3.ToReal(m)
    tm = {}
    if M == 'JACCARD':
        v = f.div(ro, z3.ToReal(n + m - o))
        tm['qs'] = log.last_op.e
    elif M == 'COSINE':
        sa = f.sqrt(rn)
        tm['Sa'], tm['sa'] = log.last_op.e, sa
        sb = f.sqrt(rm)
        tm['Sb'], tm['sb'] = log.last_op.e, sb
        d = f.mul(sa, sb)
        tm['d'] = d
        v = f.div(ro, d)
        tm['qs'] = log.last_op.e
    elif M == 'DICE':
        v = f.div(2 * ro, z3.ToReal(n + m))        # 2.0 * float(o) is exact
        tm['qs'] = log.last_op.e
    elif M == 'OVERLAP_COEFFICIENT':
        v = f.div(ro, z3.ToReal(z3.If(n <= m, n, m)))
        tm['qs'] = log.last_op.e
    else:
        raise ValueError(M)
    log.assume_normal = False
    tm['v'] = v
    s = simval[M](o, n, m)
    log.facts.append(s == z3.If(z3.And(o == n, o == m), z3.RealVal(1), v))
    return s, tm


def round4_model(log, x):
    """Facts for r4(x) = round(x, 4)."""
    f = SpecFP(log)
    f.round_nd(x, 4)          # records  r == fl_round4(x)  and the rounding facts
    return r4(x)


def required_sizes(log, M, o, n, m, t):
    """C01's `satisfies` on sizes, for comp_op '>=' (the other operators imply it):
    both sets non-empty with overlap o, raw and 4-decimal-rounded similarity >= t."""
    s, tm = sim_model(log, M, o, n, m)
    s4 = round4_model(log, s)
    return z3.And(o >= 1, o <= n, o <= m, n <= MAXTOK, m <= MAXTOK, s >= t, s4 >= t), s, tm


cpu_count = z3.Int('cpu_count')        # multiprocessing.cpu_count(), assumed >= 1


def in_list(lv, x, upto=None):
    """x occurs in the first `upto` elements of list value lv (a V)."""
    from .values import L_has
    return L_has(lv.ty, lv.t, x, upto)


def concat(a, b):
    """string concatenation on Val (the same symbol the executor uses for `+`)."""
    from .natives import val_concat
    return val_concat(a, b)


# split_table: boundary j of the split of L rows into k chunks, int(round(j * split_size))
split_bnd = z3.Function('split_bnd', I, I, I, I)


def split_bnd_model(log, j, ss):
    """Float-model facts for int(round(j * ss)); returns (boundary term, exact product, rounded product)."""
    f = SpecFP(log)
    fj = f.i2f(j)
    p = f.mul(fj, ss)
    P = log.last_op.e
    b = f.round0(p)
    return b, P, p, fj


# ------------------------------------------------------------------ tokens, sets of tokens
from .types import ListT, VAL, INT, sort_of, ValSort  # noqa
from .values import L_len, L_get, V  # noqa

_LV, _LI = ListT(VAL), ListT(INT)
toks = z3.Function('toks', B, ValSort, sort_of(_LV))      # tokenize(s) with return_set == rs
isectV = z3.Function('isectV', sort_of(_LV), sort_of(_LV), I)   # |set(a) & set(b)|
isectI = z3.Function('isectI', sort_of(_LI), sort_of(_LI), I)
nsetV = z3.Function('nsetV', sort_of(_LV), I)                    # |set(a)|
nsetI = z3.Function('nsetI', sort_of(_LI), I)
lev = z3.Function('lev', ValSort, ValSort, I)                    # Levenshtein distance
from .values import mem_fn as _mem_fn, _mem_fns as _mf  # noqa
memV = _mem_fn(_LV)                                              # x in a (same predicate the executor uses for `in`)
memI = z3.Function('memI', sort_of(_LI), I, B)


def dupfree(ty, t):
    i, j = z3.Ints('i!df j!df')
    return z3.ForAll([i, j], z3.Implies(z3.And(i >= 0, i < j, j < L_len(ty, t)),
                                        L_get(ty, t, i) != L_get(ty, t, j)),
                     patterns=[z3.MultiPattern(L_get(ty, t, i), L_get(ty, t, j))])


def toks_facts(rs, s):
    t = toks(rs, s)
    return [L_len(_LV, t) >= 0, z3.Implies(rs, dupfree(_LV, t)),
            z3.Implies(rs, nsetV(t) == L_len(_LV, t)), nsetV(t) >= 0, nsetV(t) <= L_len(_LV, t),
            (nsetV(t) == 0) == (L_len(_LV, t) == 0)]


def isect_facts(elem_ty, a, b):
    """basic facts about the intersection size of the element sets of two lists (V values)"""
    if isinstance(elem_ty, type(INT)):
        isect, nset = isectI, nsetI
    else:
        isect, nset = isectV, nsetV
    o, n, m = isect(a.t, b.t), nset(a.t), nset(b.t)
    return [o >= 0, o <= n, o <= m, n >= 0, m >= 0, n <= L_len(a.ty, a.t), m <= L_len(b.ty, b.t),
            (n == 0) == (L_len(a.ty, a.t) == 0), (m == 0) == (L_len(b.ty, b.t) == 0),
            isect(a.t, b.t) == isect(b.t, a.t)]


from .types import DictT  # noqa
ranks = z3.Function('ranks', sort_of(DictT(VAL, INT)), sort_of(_LV), sort_of(_LI))   # order_using_token_ordering

val_of_float = z3.Function('val_of_float', Rl, ValSort)         # a cell holding the Python float x


def simval_zero(M):
    """no common token: the quotient is 0.0 exactly"""
    n, m = z3.Ints('n!sz m!sz')
    return z3.ForAll([n, m], simval[M](0, n, m) == 0, patterns=[simval[M](0, n, m)])

dedup = z3.Function('dedup_attrs', sort_of(_LV), ValSort, sort_of(_LV))                 # remove_redundant_attrs
proj_attrs = z3.Function('proj_attrs', sort_of(_LV), ValSort, ValSort, sort_of(_LV))    # get_attrs_to_project
proj_attrs0 = z3.Function('proj_attrs_none', ValSort, ValSort, sort_of(_LV))            # ... with out_attrs None

# get_output_header_from_tables as a function of its arguments, one symbol per None/list combination
_oh = {}


def out_header(lkey, rkey, louts, routs, lp, rp):
    """louts / routs: z3 list terms or None"""
    key = (louts is None, routs is None)
    if key not in _oh:
        sorts = [ValSort, ValSort] + ([] if louts is None else [sort_of(_LV)]) + \
                ([] if routs is None else [sort_of(_LV)]) + [ValSort, ValSort, sort_of(_LV)]
        _oh[key] = z3.Function('out_header_%s_%s' % ('N' if louts is None else 'L', 'N' if routs is None else 'L'), *sorts)
    args = [lkey, rkey] + ([] if louts is None else [louts]) + ([] if routs is None else [routs]) + [lp, rp]
    return _oh[key](*args)


# ------------------------------------------------------------------ counting matches (definitions)
witV = _mf['L_V_'][1]                                           # a position of x in a, when x in a
cntV = z3.Function('cntV', sort_of(_LV), sort_of(_LV), I, I)    # #{ j < p : b[j] in a }


def mem_axioms_V():
    """definition of memV / witV (the generic membership axioms)"""
    from .values import mem_axioms
    return mem_axioms()


def _old_mem_axioms_V():
    a = z3.Const('a!mem', sort_of(_LV))
    x = z3.Const('x!mem', ValSort)
    j = z3.Int('j!mem')
    return [z3.ForAll([a, j], z3.Implies(z3.And(j >= 0, j < L_len(_LV, a)), memV(a, L_get(_LV, a, j))),
                      patterns=[memV(a, L_get(_LV, a, j))]),
            z3.ForAll([a, x], z3.Implies(memV(a, x), z3.And(witV(a, x) >= 0, witV(a, x) < L_len(_LV, a),
                                                           L_get(_LV, a, witV(a, x)) == x)),
                      patterns=[memV(a, x)])]


def cnt_axioms_V():
    """definition of cntV by recursion on the prefix length, and of isectV for duplicate-free
    second arguments: the number of elements of b that occur in a"""
    a, b = z3.Consts('a!cnt b!cnt', sort_of(_LV))
    p = z3.Int('p!cnt')
    return [z3.ForAll([a, b], cntV(a, b, 0) == 0, patterns=[cntV(a, b, 0)]),
            z3.ForAll([a, b, p], z3.Implies(z3.And(p >= 0, p < L_len(_LV, b)),
                                            cntV(a, b, p + 1) == cntV(a, b, p) + z3.If(memV(a, L_get(_LV, b, p)), 1, 0)),
                      patterns=[cntV(a, b, p + 1)]),
            z3.ForAll([a, b, p], z3.Implies(p >= 0, z3.And(cntV(a, b, p) >= 0, cntV(a, b, p) <= p)),
                      patterns=[cntV(a, b, p)]),
            z3.ForAll([a, b], z3.Implies(dupfree(_LV, b), isectV(a, b) == cntV(a, b, L_len(_LV, b))),
                      patterns=[isectV(a, b)]),
            # lemma (induction on p, assumed): nothing occurs in an empty list
            z3.ForAll([a, b, p], z3.Implies(L_len(_LV, a) == 0, cntV(a, b, p) == 0), patterns=[cntV(a, b, p)])]


def toks_axioms():
    """facts about tokenize for every string and mode (ASSUMED tokenizer contract, quantified)"""
    rs = z3.Bool('rs!tk')
    s_ = z3.Const('s!tk', ValSort)
    t = toks(rs, s_)
    return [z3.ForAll([rs, s_], z3.And(L_len(_LV, t) >= 0, nsetV(t) >= 0, nsetV(t) <= L_len(_LV, t),
                                        (nsetV(t) == 0) == (L_len(_LV, t) == 0),
                                        z3.Implies(rs, nsetV(t) == L_len(_LV, t))), patterns=[t]),
            z3.ForAll([s_], dupfree(_LV, toks(z3.BoolVal(True), s_)), patterns=[toks(z3.BoolVal(True), s_)])]


def toks_bounded():
    """domain bound: no string has more than 2^31 tokens"""
    rs = z3.Bool('rs!tb')
    s_ = z3.Const('s!tb', ValSort)
    return z3.ForAll([rs, s_], L_len(_LV, toks(rs, s_)) <= MAXTOK, patterns=[toks(rs, s_)])
