#!/bin/sh
# tools/seed_eval.sh <seed-id> <patch-file> <property>...   apply a seeded change to /repo, run the checks, undo it
id="$1"; patch="$2"; shift 2
cd /repo || exit 3
git diff --quiet || { echo "/repo has uncommitted changes"; exit 3; }
git apply "$patch" || { echo "patch does not apply"; exit 3; }
mkdir -p /verif/seeded/$id
for p in "$@"; do
  ( cd /verif && ./check "$p" quick ) > /verif/seeded/$id/check_$p.out 2>&1
  echo "== $id: ./check $p quick -> exit $?" ; grep -E "^VIOLATION|^UNDECIDED|^pyvc: property" /verif/seeded/$id/check_$p.out | cut -c1-220 | head -8
done
git checkout -- . && echo "reverted"
