#!/usr/bin/env python3-vt
"""Dev aid: dump the SMT2 of the obligations whose name contains a substring."""
import sys, os, importlib
sys.path.insert(0, os.path.dirname(os.path.dirname(os.path.abspath(__file__))))
import z3
if os.environ.get('QID'):
    _orig = z3.ForAll
    def _F(vs, body, weight=1, qid='', skid='', patterns=[], no_patterns=[]):
        import re
        q = qid or ('Q_' + re.sub(r'[^A-Za-z0-9_]+', '_', str(patterns[0]))[:70] if patterns else 'Q_nopat_' + re.sub(r'[^A-Za-z0-9_]+', '_', str(vs))[:40])
        return _orig(vs, body, weight, q, skid, patterns, no_patterns)
    z3.ForAll = _F
from pyvc.contract import REGISTRY
from pyvc.executor import Executor
from pyvc.natives import NATIVES, find_function, val_order_axioms
from pyvc import solve
import pyvc.pandas_model
import contracts as _c
if os.environ.get('NEW_CONTRACTS'):
    _c.__path__.append(os.environ['NEW_CONTRACTS'])
for m in sys.argv[1].split(','):
    importlib.import_module('contracts.' + m)
fn, case, sub = sys.argv[2], sys.argv[3], sys.argv[4]
repo = os.environ.get('VERIF_REPO', '/repo')
for q, c in REGISTRY.items():
    if not q.endswith(fn):
        continue
    for cs in c.cases:
        if cs.name != case:
            continue
        mi, f = find_function(repo, q)
        ex = Executor(mi, f, q, cs, NATIVES)
        obls = ex.run()
        k = 0
        for o in obls:
            if sub in o.name:
                from pyvc.run import axioms_for
                fs, goal = solve.formulas_for(o, axioms_for(o) if not os.environ.get('NOAX') else ())
                s = z3.Solver()
                for x in fs:
                    s.add(x)
                s.add(z3.Not(goal))
                path = '/tmp/vc_%d.smt2' % k
                open(path, 'w').write(s.to_smt2())
                print(path, o.name, 'L%d' % o.line, len(fs), 'assumptions')
                if os.environ.get('SHOW'):
                    for x in fs:
                        print('   A:', str(x)[:300].replace('\n', ' '))
                    print('   G:', str(goal)[:600])
                k += 1
