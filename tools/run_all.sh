#!/bin/sh
# tools/run_all.sh [tier]   run every registered check on /repo's working tree, one after the other
tier="${1:-quick}"
cd /verif || exit 3
for p in $(python3 -c "import json;print(' '.join(c['property_id'] for c in json.load(open('MANIFEST.json'))['checks']))"); do
  s=$(date +%s); ./check "$p" "$tier" > /tmp/run_$p.out 2>&1; rc=$?
  echo "$p exit=$rc $(( $(date +%s) - s ))s $(grep -c '^VIOLATION' /tmp/run_$p.out) violation(s) $(grep -c '^KNOWN-FINDING' /tmp/run_$p.out) known $(grep -c '^UNDECIDED' /tmp/run_$p.out) undecided"
done
