#!/usr/bin/env python3-vt
"""Dev aid: verify one function (all cases or one) and print the obligations."""
import sys, os, importlib, json
sys.path.insert(0, os.path.dirname(os.path.dirname(os.path.abspath(__file__))))
from pyvc.contract import REGISTRY
from pyvc.run import verify_case
import pyvc.natives
import pyvc.pandas_model
import contracts as _c
if os.environ.get('NEW_CONTRACTS'):
    _c.__path__.append(os.environ['NEW_CONTRACTS'])
mods = sys.argv[1].split(',')
for m in mods:
    importlib.import_module('contracts.' + m)
repo = os.environ.get('VERIF_REPO', '/repo')
want = sys.argv[2] if len(sys.argv) > 2 else None
wcase = sys.argv[3] if len(sys.argv) > 3 else None
for q, c in REGISTRY.items():
    if want and not q.endswith(want):
        continue
    for i, case in enumerate(c.cases):
        if wcase and case.name != wcase:
            continue
        if case.status != 'verified':
            continue
        out = verify_case(repo, q, i, timeout_ms=int(os.environ.get('TMO', '10000')))
        print('==', q, case.name, out['status'], out['secs'], out['stats'])
        for n in out['notes']:
            print('   note:', n)
        for r in out['results']:
            flag = 'ok ' if r['status'] == 'unsat' else r['status'].upper()
            if flag != 'ok ' or os.environ.get('V'):
                print('  %-7s %-70s %s %.3fs L%d' % (flag, r['name'], r['backend'], r['secs'], r['line']))
                if r['status'] == 'sat' and r.get('model') and os.environ.get('M'):
                    print('      model:', json.dumps(r['model'])[:1500])
        nok = sum(1 for r in out['results'] if r['status'] == 'unsat')
        print('   discharged %d / %d' % (nok, len(out['results'])))
