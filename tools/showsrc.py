#!/usr/bin/env python3
"""Print repo source files (or single functions) with docstrings stripped. Dev aid only."""
import ast,sys
def strip(path, only=None):
    src=open(path).read()
    t=ast.parse(src)
    for n in ast.walk(t):
        if isinstance(n,(ast.FunctionDef,ast.ClassDef,ast.Module)):
            if n.body and isinstance(n.body[0],ast.Expr) and isinstance(getattr(n.body[0],'value',None),ast.Constant) and isinstance(n.body[0].value.value,str):
                n.body=n.body[1:] or [ast.Pass()]
    if only:
        for n in ast.walk(t):
            if isinstance(n,ast.FunctionDef) and n.name in only:
                print(ast.unparse(n)); print()
    else:
        print('#'*10,path); print(ast.unparse(t))
if __name__=='__main__':
    strip(sys.argv[1], sys.argv[2:] or None)
