#!/usr/bin/env python3
"""Regenerate MANIFEST.json from props.py (claimed properties) + manifest_meta.py."""
import json, os, sys
HERE = os.path.dirname(os.path.dirname(os.path.abspath(__file__)))
sys.path.insert(0, HERE)
from manifest_meta import CLAIMS, NOT_APPLICABLE, NOTES
checks = []
for pid in sorted(CLAIMS):
    m = CLAIMS[pid]
    checks.append(dict(property_id=pid, quick_cmd='./check %s quick' % pid, thorough_cmd='./check %s thorough' % pid,
                       evidence_file='evidence/%s.json' % pid, replay_cmd_template='./check --replay {path}',
                       engine='pyvc',
                       level_claimed=dict(category=m.get('category', 'proof'), text=m['text'], design_ref=m.get('design_ref', 'DESIGN.md 4')),
                       level_note=m['note'], technique=m['technique']))
man = dict(version=1, setup_cmd='./setup',
           hooks=dict(guard='PY_STRINGSIMJOIN_VERIF',
                      enable='no hooks: contracts are sidecar files under /verif/contracts; /repo is read (ast) and executed, never instrumented',
                      baseline_off_cmd='cd /repo && /venv/bin/python -m pytest -ra -q -p no:cacheprovider --timeout=900 --continue-on-collection-errors',
                      source_commits=[], add_only=True),
           engines=[dict(name='pyvc', path='pyvc/', serves_properties=sorted(CLAIMS),
                         kind_free_text='contract-based deductive verification: AST->VC generator over the real source with sidecar contracts, z3/cvc5 back ends, nlsat lemma proofs, replay harness on the real code')],
           checks=checks, not_applicable=[dict(property_id=k, reason=v) for k, v in sorted(NOT_APPLICABLE.items())],
           notes=NOTES)
json.dump(man, open(os.path.join(HERE, 'MANIFEST.json'), 'w'), indent=1)
print('MANIFEST.json: %d checks, %d not applicable' % (len(checks), len(NOT_APPLICABLE)))
